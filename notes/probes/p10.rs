use vstd::prelude::*;
verus! {
pub assume_specification [u32::count_ones] (x: u32) -> (r: u32)
    ensures r == popcount(x);
pub uninterp spec fn popcount(x: u32) -> u32;

#[derive(Clone, Copy, Eq, PartialEq)]
pub struct Ipv4Mask(pub u32);

pub open spec fn top_ones(n: u32) -> u32 { if n == 0 { 0 } else if n >= 32 { 0xffff_ffffu32 } else { (((1u32 << n) - 1) as u32) << (32 - n) as u32 } }

const fn clamp(num: u32, min: u32, max: u32) -> (r: u32)
    requires min <= max
    ensures r == if num < min { min } else if num > max { max } else { num }
{
    assert!(min <= max);
    if num < min {
        min
    } else if num > max {
        max
    } else {
        num
    }
}

impl Ipv4Mask {
    pub const fn from_bitcount(size: u32) -> (r: Ipv4Mask)
        ensures r.0 == top_ones(size)
    {
        let size = clamp(size, 0, 32);
        if size == 0 {
            Ipv4Mask(0)
        } else if size == 32 {
            Ipv4Mask(0xFF_FF_FF_FF)
        } else {
            proof { assert(0 < size < 32 ==> (1u32 << size) >= 1 && (32 - size) as u32 <= 31) by (bit_vector); }
            Ipv4Mask(((1 << size) - 1) << (32 - size))
        }
    }
    pub const fn to_u32(self) -> (r: u32) ensures r == self.0 { self.0 }
}

pub struct Ipv4Net { network_id: u32, mask: Ipv4Mask }
impl Ipv4Net {
    pub closed spec fn wf(&self) -> bool { self.network_id & !self.mask.0 == 0 }
    pub closed spec fn lo(&self) -> u32 { self.network_id }
    pub closed spec fn hi(&self) -> u32 { self.network_id | !self.mask.0 }
    pub fn new(ip: u32, mask: Ipv4Mask) -> (r: Self)
        ensures r.wf(), r.lo() == ip & mask.0
    {
        proof { let m = mask.0; assert((ip & m) & !m == 0) by (bit_vector); }
        Self { network_id: ip & mask.to_u32(), mask }
    }
    pub fn broadcast(&self) -> (r: u32)
        requires self.wf()
        ensures r == self.hi()
    {
        let ip_id = self.network_id;
        proof {
            let a = self.network_id; let m = self.mask.0;
            assert(a & !m == 0 ==> a + !m == (a | !m) && (a as int) + (!m as int) <= 0xffff_ffff) by (bit_vector);
        }
        let new_ip_u32 = ip_id + (!self.mask.to_u32());
        new_ip_u32
    }
}
}
fn main() {}

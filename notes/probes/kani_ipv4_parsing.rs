// Kani harness text appended to src/protocols/ipv4/ipv4_parsing.rs in the design-phase scratch copy
#[cfg(kani)]
mod kani_verif {
    use super::*;
    #[kani::proof]
    fn ipv4_decode_encode() {
        let bytes: [u8; 20] = kani::any();
        match Ipv4Header::from_bytes(bytes.into_iter()) {
            Ok(h) => {
                assert!(h.ihl == 5);
                assert!(h.total_length == u16::from_be_bytes([bytes[2], bytes[3]]));
                if h.total_length >= 20 {
                    let out = h.serialize().unwrap();
                    assert!(out.len() == 20);
                    let mut i = 0;
                    while i < 20 { assert!(out[i] == bytes[i]); i += 1; }
                }
            }
            Err(_) => {}
        }
    }
}

use vstd::prelude::*;
verus! {
pub use ModCmp::*;

pub open spec fn circ_lt(a: u32, b: u32) -> bool {
    // b - a (mod 2^32) in (0, 2^31)
    let d = (b as int - a as int) % 0x1_0000_0000;
    0 < d && d < 0x8000_0000
}

/// Is a < b under modular arithmetic?
pub fn mod_lt(a: u32, b: u32) -> (r: bool)
    ensures r == (a.wrapping_sub(b) > 0x8000_0000u32),
{
    a.wrapping_sub(b) > (1 << 31)
}

pub fn mod_leq(a: u32, b: u32) -> bool {
    mod_lt(a, b.wrapping_add(1))
}

pub fn mod_bounded(a: u32, ab_cmp: ModCmp, b: u32, bc_cmp: ModCmp, c: u32) -> bool {
    let a = a.wrapping_sub(ab_cmp.offset());
    let c = c.wrapping_add(bc_cmp.offset());
    let j = a < b && b < c && a < c;
    let k = a < b && b > c && a > c;
    let l = a > b && b < c && a > c;
    j || k || l
}

#[derive(Debug, Clone, Copy, PartialEq, Eq)]
pub enum ModCmp {
    Lt,
    Leq,
}

impl ModCmp {
    fn offset(self) -> u32 {
        match self {
            Lt => 0,
            Leq => 1,
        }
    }
}
}
fn main() {}

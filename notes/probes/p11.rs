use vstd::prelude::*;
verus! {
#[verifier::external_body]
pub struct Message { _p: Vec<u8> }
impl Message {
    pub uninterp spec fn view(&self) -> Seq<u8>;
    #[verifier::external_body]
    pub fn cut(&mut self, len: usize) -> (r: Message)
        requires len <= old(self)@.len()
        ensures r@ == old(self)@.subrange(0, len as int), final(self)@ == old(self)@.subrange(len as int, old(self)@.len() as int)
    { unimplemented!() }
}
pub type Mtu = u16;

#[derive(Clone, Copy, PartialEq, Eq)]
pub struct ControlFlags(pub u8);
impl ControlFlags {
    pub const fn may_fragment(&self) -> (r: bool) ensures r == (self.0 & 0b10 == 0) {
        self.0 & 0b10 == 0
    }
    pub const fn is_last_fragment(&self) -> (r: bool) ensures r == (self.0 & 0b01 == 0) {
        self.0 & 0b01 == 0
    }
    pub fn set_is_last_fragment(&mut self, value: bool)
        ensures (final(self).0 & 0b01 == 0) == value, (final(self).0 & 0b10) == (old(self).0 & 0b10), final(self).0 <= 3 || old(self).0 > 3
    {
        proof { let x = self.0; assert(((x & 0b10) | 0u8) & 0b01 == 0 && ((x & 0b10) | 1u8) & 0b01 == 1 && ((x & 0b10) | 0u8) & 0b10 == x & 0b10 && ((x & 0b10) | 1u8) & 0b10 == x & 0b10 && ((x & 0b10) | 1u8) <= 3 && ((x & 0b10) | 0u8) <= 3) by (bit_vector); }
        self.0 = (self.0 & 0b10) | !value as u8;
    }
}
#[derive(Clone, Copy, PartialEq, Eq)]
pub struct Ipv4Header {
    pub ihl: u8,
    pub total_length: u16,
    pub identification: u16,
    pub fragment_offset: u16,
    pub flags: ControlFlags,
    pub time_to_live: u8,
}
type Fragment = (Ipv4Header, Message);
struct Fragmentation { fragments: Vec<Fragment>, mtu: Mtu }

pub open spec fn hdr_ok(h: Ipv4Header, body: Seq<u8>) -> bool {
    h.ihl == 5 && h.total_length as int == 20 + body.len() && h.fragment_offset as int * 8 + body.len() <= 65535
}

impl Fragmentation {
    fn fragment(&mut self, mut header: Ipv4Header, mut body: Message)
        requires hdr_ok(header, body@), old(self).mtu >= 68,
        ensures final(self).mtu == old(self).mtu, final(self).fragments@.len() > old(self).fragments@.len(),
            forall|i: int| old(self).fragments@.len() <= i < final(self).fragments@.len() ==> (#[trigger] final(self).fragments@[i]).0.total_length <= old(self).mtu,
            forall|i: int| 0 <= i < old(self).fragments@.len() ==> final(self).fragments@[i] == old(self).fragments@[i],
        decreases body@.len()
    {
        if header.total_length <= self.mtu {
            self.fragments.push((header, body));
            return;
        }
        let fragment_blocks = (self.mtu - header.ihl as u16 * 4) / 8;
        {
            let mut header = header;
            let body = body.cut(fragment_blocks as usize * 8);
            header.flags.set_is_last_fragment(false);
            header.total_length = header.ihl as u16 * 4 + fragment_blocks * 8;
            self.fragments.push((header, body))
        }
        let oihl = header.ihl;
        header.total_length -= fragment_blocks * 8 + (oihl - header.ihl) as u16 * 4;
        header.fragment_offset += fragment_blocks;
        self.fragment(header, body);
    }
}
}
fn main() {}

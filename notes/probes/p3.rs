#![feature(allocator_api)]
use vstd::prelude::*;
use std::collections::VecDeque;
use std::sync::Arc;
verus! {

pub assume_specification<T, A: std::alloc::Allocator> [std::collections::VecDeque::<T, A>::front_mut] (v: &mut std::collections::VecDeque<T, A>) -> (r: std::option::Option<&mut T>)
    ensures
        old(v)@.len() == 0 ==> r is None && final(v)@ == old(v)@,
        old(v)@.len() > 0 ==> r is Some && *r.unwrap() == old(v)@[0] && final(v)@ == old(v)@.update(0, *final(r.unwrap())),
;

#[verifier::allow(autoderive_clone_without_spec)]
#[derive(Debug, Clone)]
pub struct Chunk {
    pub start: usize,
    pub end: usize,
    pub bytes: Arc<Vec<u8>>,
}

impl Chunk {
    pub open spec fn wf(&self) -> bool { self.start <= self.end <= self.bytes@.len() }
    pub open spec fn view(&self) -> Seq<u8> { self.bytes@.subrange(self.start as int, self.end as int) }

    pub fn len(&self) -> (r: usize)
        requires self.wf()
        ensures r == self.view().len()
    {
        self.end - self.start
    }
}

pub open spec fn flat(cs: Seq<Chunk>) -> Seq<u8>
    decreases cs.len()
{
    if cs.len() == 0 { Seq::empty() } else { cs[0].view() + flat(cs.subrange(1, cs.len() as int)) }
}
pub open spec fn all_wf(cs: Seq<Chunk>) -> bool { forall|i:int| 0 <= i < cs.len() ==> (#[trigger] cs[i]).wf() }

pub struct Message {
    chunks: VecDeque<Chunk>,
    len: usize,
}

impl Message {
    pub closed spec fn view(&self) -> Seq<u8> { flat(self.chunks@) }
    pub closed spec fn wf(&self) -> bool { all_wf(self.chunks@) && self.len == self.view().len() }

    pub fn remove_front(&mut self, len: usize)
        requires old(self).wf(), len <= old(self).view().len(),
        ensures final(self).wf(), final(self).view() == old(self).view().subrange(len as int, old(self).view().len() as int),
    {
        assert!(len <= self.len);
        self.len -= len;

        let mut to_remove = len;

        // Remove leading chunks that are no longer accessible
        while let Some(head) = self.chunks.front_mut()
            invariant
                all_wf(self.chunks@),
                to_remove <= flat(self.chunks@).len(),
                self.len + to_remove == flat(self.chunks@).len(),
                flat(self.chunks@).subrange(to_remove as int, flat(self.chunks@).len() as int) == old(self).view().subrange(len as int, old(self).view().len() as int),
            ensures
                all_wf(self.chunks@),
                self.len == flat(self.chunks@).len(),
                flat(self.chunks@) == old(self).view().subrange(len as int, old(self).view().len() as int),
            decreases self.chunks@.len(),
        {
            let head_len = head.len();
            if head_len <= to_remove {
                to_remove -= head_len;
                self.chunks.pop_front();
            } else {
                head.start += to_remove;
                break;
            }
        }
    }
}
}
fn main() {}

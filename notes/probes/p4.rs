use vstd::prelude::*;
use std::collections::VecDeque;
verus! {
pub struct C { pub start: usize, pub end: usize }
fn f(v: &mut VecDeque<C>, mut keep: usize) -> (i: usize)
{
    let mut i = 0;
    for chunk in v.iter_mut() {
        i += 1;
        let l = chunk.end - chunk.start;
        if keep >= l { keep -= l; } else { chunk.end = chunk.start + keep; break; }
    }
    v.drain(i..);
    i
}
fn g(v: &Vec<u8>) -> (s: u64) {
    let mut s: u64 = 0;
    for x in v.iter() { s = s.wrapping_add(*x as u64); }
    s
}
fn h(mut it: impl Iterator<Item = u8>) -> Option<u8> {
    it.next()
}
}
fn main() {}

use vstd::prelude::*;
use std::collections::VecDeque;
use std::sync::Arc;
verus! {

#[derive(Debug, Clone)]
pub struct Chunk {
    pub start: usize,
    pub end: usize,
    pub bytes: Arc<Vec<u8>>,
}

impl Chunk {
    pub open spec fn wf(&self) -> bool { self.start <= self.end <= self.bytes@.len() }
    pub open spec fn view(&self) -> Seq<u8> { self.bytes@.subrange(self.start as int, self.end as int) }

    pub fn new(bytes: Vec<u8>) -> (r: Self)
        ensures r.wf(), r.view() == bytes@
    {
        Self {
            start: 0,
            end: bytes.len(),
            bytes: Arc::new(bytes),
        }
    }
    pub fn as_slice(&self) -> (r: &[u8])
        requires self.wf()
        ensures r@ == self.view()
    {
        &self.bytes[self.start..self.end]
    }
    pub fn len(&self) -> (r: usize)
        requires self.wf()
        ensures r == self.view().len()
    {
        self.end - self.start
    }
}

pub struct Message {
    chunks: VecDeque<Chunk>,
    len: usize,
}

impl Message {
    pub fn remove_front(&mut self, len: usize) {
        assert!(len <= self.len);
        self.len -= len;

        let mut to_remove = len;

        // Remove leading chunks that are no longer accessible
        while let Some(head) = self.chunks.front_mut() {
            let head_len = head.len();
            if head_len <= to_remove {
                to_remove -= head_len;
                self.chunks.pop_front();
            } else {
                head.start += to_remove;
                break;
            }
        }
    }
}
}
fn main() {}

use vstd::prelude::*;
use std::ops::Range;
verus! {
pub struct SliceRange { pub start: usize, pub len: Option<usize> }
impl From<Range<usize>> for SliceRange {
    fn from(range: Range<usize>) -> (r: Self)
        ensures r.start == range.start,
    {
        Self { start: range.start, len: Some(range.len()) }
    }
}
pub struct M { pub v: Vec<u8> }
impl M {
    pub fn slice(&mut self, range: impl Into<SliceRange>)
    {
        self.slice_inner(range.into())
    }
    fn slice_inner(&mut self, range: SliceRange) {
    }
}
fn user(m: &mut M, a: u32, b: u32)
    requires a <= b
{
    m.slice(a as usize..b as usize);
}
}
fn main() {}

use vstd::prelude::*;
verus! {
pub struct SliceBytes { pub data: Vec<u8>, pub pos: usize }
impl Iterator for SliceBytes {
    type Item = u8;
    fn next(&mut self) -> (r: Option<u8>)
        ensures
            old(self).pos < old(self).data@.len() ==> r == Some(old(self).data@[old(self).pos as int]) && final(self).pos == old(self).pos + 1 && final(self).data == old(self).data,
            old(self).pos >= old(self).data@.len() ==> r is None && *final(self) == *old(self),
    {
        if self.pos < self.data.len() { let b = self.data[self.pos]; self.pos += 1; Some(b) } else { None }
    }
}
pub trait BytesExt: Iterator<Item = u8> {
    fn next_u8(&mut self) -> Option<u8> { self.next() }
}
impl<T: Iterator<Item = u8>> BytesExt for T {}

fn k(mut bytes: SliceBytes) -> (r: Result<u8, u8>)
    requires bytes.pos == 0
    ensures bytes.data@.len() > 0 ==> r == Ok::<u8,u8>(bytes.data@[0])
{
    let a = bytes.next().ok_or(3u8)?;
    Ok(a)
}
fn k2(mut bytes: SliceBytes) -> (r: Result<u8, u8>)
    requires bytes.pos == 0
    ensures bytes.data@.len() > 0 ==> r == Ok::<u8,u8>(bytes.data@[0])
{
    let a = bytes.next_u8().ok_or(3u8)?;
    Ok(a)
}
}
fn main() {}

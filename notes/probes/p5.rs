use vstd::prelude::*;
verus! {
fn g(v: &Vec<u8>) -> (s: u64) {
    let mut s: u64 = 0;
    for x in v.iter() { s = s.wrapping_add(*x as u64); }
    s
}
fn h(mut it: impl Iterator<Item = u8>) -> Option<u8> {
    it.next()
}
pub trait BytesExt: Iterator<Item = u8> {
    fn next_u16_be(&mut self) -> Option<u16> {
        let arr = [self.next()?, self.next()?];
        Some(u16::from_be_bytes(arr))
    }
}
impl<T: Iterator<Item = u8>> BytesExt for T {}

fn k(mut bytes: impl Iterator<Item = u8>) -> Result<u16, u8> {
    let a = bytes.next_u16_be().ok_or(3u8)?;
    Ok(a)
}
fn m(x: u32) -> u32 { x.count_ones() }
fn n(x: u16, y: u16) -> u16 { let (s, c) = x.overflowing_add(y); s + c as u16 }
}
fn main() {}

use vstd::prelude::*;
verus! {
pub struct ByteCursor { pub data: Vec<u8>, pub pos: usize }
impl ByteCursor {
    pub open spec fn wf(&self) -> bool { self.pos <= self.data@.len() }
    pub fn next(&mut self) -> (r: Option<u8>)
        requires old(self).wf()
        ensures final(self).wf(), final(self).data == old(self).data,
            old(self).pos < old(self).data@.len() ==> r == Some(old(self).data@[old(self).pos as int]) && final(self).pos == old(self).pos + 1,
            old(self).pos >= old(self).data@.len() ==> r is None && final(self).pos == old(self).pos,
    {
        if self.pos < self.data.len() { let b = self.data[self.pos]; self.pos += 1; Some(b) } else { None }
    }
    // verbatim BytesExt bodies
    fn next_u8(&mut self) -> (r: Option<u8>)
        requires old(self).wf()
        ensures final(self).wf(), final(self).data == old(self).data, final(self).pos >= old(self).pos,
    {
        self.next()
    }
}

#[verifier::external_type_specification]
#[verifier::external_body]
pub struct ExFromUtf8Error(std::string::FromUtf8Error);

pub uninterp spec fn valid_utf8(v: Seq<u8>) -> bool;
pub assume_specification [String::from_utf8] (v: Vec<u8>) -> (r: Result<String, std::string::FromUtf8Error>)
    ensures r is Ok <==> valid_utf8(v@);

#[derive(Debug, PartialEq)]
pub enum MessageType { Discover = 1, Offer, Request, Decline, Ack, Nack, Release }
#[derive(Clone, Copy, PartialEq, Eq)]
#[derive(Debug)]
pub enum ParseError { HeaderTooShort, InvalidDhcpType }

fn try_from(msg_type: u8) -> Result<MessageType, ParseError> {
        if msg_type > 7 {
            Err(ParseError::InvalidDhcpType)
        } else {
            Ok(match msg_type {
                1 => MessageType::Discover,
                2 => MessageType::Offer,
                3 => MessageType::Request,
                4 => MessageType::Decline,
                5 => MessageType::Ack,
                6 => MessageType::Nack,
                7 => MessageType::Release,
                _ => unreachable!(),
            })
        }
}

fn tail(mut bytes: ByteCursor) -> (r: Result<String, ParseError>)
    requires bytes.wf()
{
        const HTS: ParseError = ParseError::HeaderTooShort;
        let msg_type = try_from(bytes.next_u8().ok_or(HTS)?).unwrap();
        let mut server_name = Vec::new();
        let mut current = bytes.next_u8().ok_or(HTS)?;
        while current != b'\0'
            invariant bytes.wf()
            decreases bytes.data@.len() - bytes.pos
        {
            server_name.push(current);
            current = bytes.next_u8().ok_or(HTS)?
        }
        let server_name = String::from_utf8(server_name).unwrap();
        Ok(server_name)
}
}
fn main() {}

use vstd::prelude::*;
use std::collections::BTreeMap;
use std::collections::HashMap;
verus! {
pub assume_specification [std::cmp::Ordering::reverse] (o: std::cmp::Ordering) -> (r: std::cmp::Ordering)
  ensures r == (match o { std::cmp::Ordering::Less => std::cmp::Ordering::Greater, std::cmp::Ordering::Equal => std::cmp::Ordering::Equal, std::cmp::Ordering::Greater => std::cmp::Ordering::Less });
#[derive(Clone, Copy, PartialEq, Eq, PartialOrd, Ord)]
pub struct Mask(pub u32);
#[derive(Clone, Copy, PartialEq, Eq)]
pub struct Net { pub id: u32, pub mask: Mask }
#[derive(Clone, Copy, PartialEq, Eq)]
struct Obm(Net);
impl PartialOrd for Obm {
    fn partial_cmp(&self, other: &Self) -> Option<std::cmp::Ordering> {
        Some(self.cmp(other))
    }
}
impl Ord for Obm {
    fn cmp(&self, other: &Self) -> std::cmp::Ordering {
        match self.0.mask.cmp(&other.0.mask) {
            std::cmp::Ordering::Equal => self.0.id.cmp(&other.0.id),
            other_ord => other_ord.reverse(),
        }
    }
}
pub struct T { table: BTreeMap<Obm, u8> }
impl T {
    fn get(&self, a: u32) -> Option<u8> {
        for (net, value) in self.table.iter() {
            if net.0.id == a & net.0.mask.0 { return Some(*value); }
        }
        None
    }
}
}
fn main() {}

// Kani harness text appended to src/protocols/tcp/tcb.rs in the design-phase scratch copy
#[cfg(kani)]
mod kani_verif {
    use super::*;
    use crate::protocols::tcp::tcp_parsing::Control;

    fn any_state() -> State {
        match kani::any::<u8>() % 9 {
            0 => State::SynSent, 1 => State::SynReceived, 2 => State::Established,
            3 => State::FinWait1, 4 => State::FinWait2, 5 => State::CloseWait,
            6 => State::Closing, 7 => State::LastAck, _ => State::TimeWait,
        }
    }
    fn any_tcb() -> Tcb {
        let id = Endpoints::new(Endpoint::new(Ipv4Address::new([1,1,1,1]), 1), Endpoint::new(Ipv4Address::new([2,2,2,2]), 2));
        Tcb::new(id, 1500, if kani::any() {Initiation::Open} else {Initiation::Listen}, any_state(),
            SendSequenceSpace { una: kani::any(), nxt: kani::any(), wnd: kani::any(), wl1: kani::any(), wl2: kani::any(), iss: kani::any() },
            ReceiveSequenceSpace { irs: kani::any(), nxt: kani::any(), wnd: u16::MAX })
    }
    #[kani::proof]
    #[kani::unwind(4)]
    fn process_segment_no_panic_n2() {
        let mut tcb = any_tcb();
        kani::assume(tcb.state != State::SynSent);
        let hdr = TcpHeader { src_port: 2, dst_port: 1, seq: kani::any(), ack: kani::any(), data_offset: 5,
            ctl: Control::from(kani::any::<u8>() & 0x3f), wnd: kani::any(), urg: 0, checksum: 0 };
        let text = Message::new(vec![7u8, 9u8]);
        kani::assume(!mod_gt(hdr.seq, tcb.rcv.nxt));
        let _ = tcb.process_segment(Segment::new(hdr, text));
    }
}

// Kani harness text appended to src/protocols/tcp/tcb/modular_cmp.rs in the design-phase scratch copy
#[cfg(kani)]
mod kani_verif {
    use super::*;
    #[kani::proof]
    fn mod_lt_spec() {
        let a: u32 = kani::any();
        let d: u32 = kani::any();
        kani::assume(d > 0 && d < (1u32 << 31));
        assert!(mod_lt(a, a.wrapping_add(d)));
        assert!(!mod_lt(a.wrapping_add(d), a));
        assert!(!mod_lt(a, a));
    }
}
#[cfg(kani)]
mod kani_verif2 {
    use super::*;
    #[kani::proof]
    fn bad_claim() {
        let a: u32 = kani::any();
        let b: u32 = kani::any();
        let c: u16 = kani::any();
        assert!(mod_lt(a, b) || mod_lt(b, a) || a == b || c == 7);
    }
}

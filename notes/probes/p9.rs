use vstd::prelude::*;
verus! {
// ---- dependency unit `message`, imported by contract only ----
#[verifier::external_body]
pub struct Message { _p: Vec<u8> }
impl Message {
    pub uninterp spec fn view(&self) -> Seq<u8>;
    #[verifier::external_body]
    pub fn len(&self) -> (r: usize) ensures r == self@.len() { unimplemented!() }
    #[verifier::external_body]
    pub fn is_empty(&self) -> (r: bool) ensures r == (self@.len() == 0) { unimplemented!() }
    #[verifier::external_body]
    pub fn slice_range(&mut self, start: usize, end: usize)
        requires start <= end <= old(self)@.len()
        ensures final(self)@ == old(self)@.subrange(start as int, end as int)
    { unimplemented!() }
    #[verifier::external_body]
    pub fn concatenate(&mut self, other: Message)
        ensures final(self)@ == old(self)@ + other@
    { unimplemented!() }
}
pub struct Rcv { pub irs: u32, pub nxt: u32, pub wnd: u16 }
pub struct Incoming { pub text: Message }
pub struct Tcb { pub rcv: Rcv, pub incoming: Incoming }

impl Tcb {
    pub open spec fn inv(&self) -> bool { self.incoming.text@.len() <= self.rcv.wnd as int }

    // verbatim arithmetic of the text branch of process_segment
    fn text_branch(&mut self, seq: u32, syn: bool, mut text: Message)
        requires old(self).inv(), text@.len() <= 65515,
                 // seq <= rcv.nxt circularly and first unreceived byte inside segment
                 old(self).rcv.nxt.wrapping_sub(seq).wrapping_add(syn as u32) <= text@.len(),
        ensures final(self).inv(),
                final(self).incoming.text@.len() >= old(self).incoming.text@.len(),
    {
        let text_len = text.len() as u32;
        let already_received = self
            .rcv
            .nxt
            .wrapping_sub(seq)
            // SYN occupies the first byte of data
            .wrapping_add(syn as u32);
        let unreceived = text_len - already_received;
        let space_available = self.rcv.wnd as u32 - self.incoming.text.len() as u32;
        let accept = unreceived.min(space_available);
        self.rcv.nxt = self.rcv.nxt.wrapping_add(accept);
        text.slice_range(already_received as usize, (already_received + accept) as usize);
        self.incoming.text.concatenate(text);
    }
}
}
fn main() {}

#!/bin/bash
# developer helper: run every registered quick check on the current tree, validate evidence + manifest
cd "$(dirname "$0")"
python3 -m vx.genmanifest
rc=0
for p in $(python3 -c "import json; print(' '.join(c['property_id'] for c in json.load(open('MANIFEST.json'))['checks']))"); do
  ./check $p --tier ${1:-quick} | tail -1 || rc=1
done
python3-vt vx/validate.py | tail -1
exit $rc

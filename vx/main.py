"""./check <property> [--tier quick|thorough] [--replay <path>]

exit 0: every obligation of the property was discharged on /repo's working tree
exit 1: an obligation failed          -> `VIOLATION property=<id> replay=<path>`
exit 2: undecided (lost anchor, unsupported construct, rlimit, tool failure)
"""
import concurrent.futures as cf
import hashlib
import json
import os
import re
import sys
import time

from . import verus
from .weave import VERIF
from .props import PROPS

EVID = os.path.join(VERIF, "evidence")
REPLAYS = os.path.join(VERIF, "replays")
KNOWN = os.path.join(VERIF, "known-findings.txt")


def load_known():
    """finding: property=<id> obligation=<oid> <text>   (suppresses exactly that obligation)
       fixed: property=<id> <commit> <text>              (suppresses nothing)"""
    res = {}
    if not os.path.exists(KNOWN):
        return res
    for ln in open(KNOWN):
        ln = ln.strip()
        if not ln.startswith("finding:"):
            continue
        m = re.match(r"finding:\s+property=(\S+)\s+obligation=(\S+)\s+(.*)$", ln)
        if m:
            res[(m.group(1), m.group(2))] = m.group(3)
    return res


def main(argv=None):
    argv = argv or sys.argv[1:]
    if not argv:
        print(__doc__)
        return 2
    pid = argv[0]
    tier = os.environ.get("VERIF_TIER", "quick")
    replay = None
    i = 1
    while i < len(argv):
        if argv[i] == "--tier":
            tier = argv[i + 1]
            i += 2
        elif argv[i] == "--replay":
            replay = argv[i + 1]
            i += 2
        else:
            i += 1
    if pid not in PROPS:
        print("unknown or not-applicable property %s" % pid)
        return 2
    seed = int(os.environ.get("VERIF_SEED", "0") or 0)
    if replay:
        from . import replay as rp
        return rp.run(pid, replay)
    return check(pid, tier, seed)


def check(pid, tier, seed):
    t0 = time.time()
    P = PROPS[pid]
    rlimit = 30 if tier == "quick" else 120
    units = P.get("units", [])
    results = {}
    kres = None
    with cf.ThreadPoolExecutor(max_workers=8) as pool:
        futs = {}
        for u in units:
            extra = []
            # VERIF_SEED is deliberately NOT passed to Z3: a proof either goes through or not, and a random solver seed only
            # makes the resource consumption of the big functions (Tcb::process_segment) vary around their rlimit
            futs[pool.submit(verus.run_unit, u, None, rlimit, extra)] = u
        kf = None
        if P.get("kani"):
            from . import kani
            kf = pool.submit(kani.run_group, pid, P["kani"], tier, None, [o for (pp, o) in load_known() if pp == pid])
        for f in cf.as_completed(futs):
            results[futs[f]] = f.result()[0]
        if kf is not None:
            kres = kf.result()

    if tier == "thorough":
        # vacuity pass: with `ensures false` added to every contract, every
        # function under contract must be rejected
        from . import vacuity
        vac = vacuity.run(units, rlimit)
    else:
        vac = None

    known = load_known()
    obligations = []
    failures = []
    undecided = []
    for u in units:
        r = results[u]
        if r.status == "undecided":
            undecided.append("%s: %s" % (u, r.reason))
        for o in r.obligations:
            if pid in o["props"]:
                obligations.append(dict(o, backend="verus", unit=u))
        for f in r.failures:
            if pid in f["props"]:
                failures.append(dict(f, backend="verus", unit=u))
    if kres is not None:
        if kres["status"] == "undecided":
            undecided.append("kani: %s" % kres["reason"])
        for o in kres["obligations"]:
            if pid in o["props"]:
                obligations.append(dict(o, backend="kani"))
        for f in kres["failures"]:
            if pid in f["props"]:
                failures.append(dict(f, backend="kani"))
    if vac:
        for v in vac:
            if v["status"] != "ok":
                undecided.append("vacuity pass %s: %s" % (v["unit"], v["reason"]))

    # one report per obligation (a function can fail several sub-goals)
    merged = {}
    for f in failures:
        if f["obligation"] in merged:
            m = merged[f["obligation"]]
            m["message"] += " | " + f["message"] + (" " + f["repo_loc"] if f.get("repo_loc") else "")
            m["rendered"] += "\n" + f.get("rendered", "")
        else:
            merged[f["obligation"]] = dict(f)
    failures = list(merged.values())
    # ---- arbitration by complete twins -------------------------------------------------------------------------
    # A Verus clause that is rejected while its *complete* Kani twin (same clause, all inputs, bit-precise, on the
    # compiled repository code) is proved in this very run is not a violation of the property: the proof needs
    # maintenance (e.g. the function was rewritten in a way the SMT solver cannot follow).  It is reported UNDECIDED.
    if kres is not None and kres.get("status") != "undecided":
        from . import kani as _k
        hmeta = {}
        for g in P.get("kani", []):
            for h in _k.parse_harnesses(g["unit"]):
                hmeta[h["id"]] = h
        ran = dict((o["id"], o["discharged"]) for o in kres["obligations"])
        kept = []
        for f in failures:
            if f.get("backend") == "verus":
                twins = [h for h in hmeta.values() if f["obligation"] in h["pair"] and h["kind"] == "complete" and h["id"] in ran]
                if twins and all(ran[h["id"]] for h in twins):
                    undecided.append("%s: Verus rejects %s (%s) but its complete Kani twin %s proves the clause on the compiled code for all inputs: proof needs maintenance, not reported as a violation"
                                     % (f.get("unit"), f["obligation"], f["message"].split("|")[0].strip(), ", ".join(h["id"] for h in twins)))
                    for o in obligations:
                        if o["id"] == f["obligation"]:
                            o["discharged"] = False
                    continue
            kept.append(f)
        failures = kept
    # ---- bounded stand-in for units the verifier could not ingest -------------------------------------------------
    # When a repository change takes a function out of the fragment Verus ingests (lost anchor, unsupported construct),
    # the unit is UNDECIDED.  The prepared scenario witnesses paired with that unit's obligations (concrete call sequences
    # on the real objects; each passes on the unchanged tree) are then run on the real code as a BOUNDED stand-in: one that
    # fails there is a concrete failing input for the clause it is paired with and is reported as a violation (labelled
    # bounded-scenario, never counted as proved); if all pass the unit stays undecided (exit 2).
    und_units = [u for u in units if results[u].status == "undecided"]
    scenario_runs = []
    _kn = load_known()
    if und_units and not [f for f in failures if (pid, f["obligation"]) not in _kn] and P.get("kani"):
        from . import kani as _k
        for g in P["kani"]:
            hs = [h for h in _k.parse_harnesses(g["unit"]) if h["kind"] == "witness" and pid in h["props"]
                  and any(pp.split(".")[0] in und_units for pp in h["pair"])]
            if not hs:
                continue
            try:
                with _k.Scratch([g]) as sc:
                    for h in hs:
                        h["crate"] = g.get("crate", "elvis-core")
                        h["features"] = h["features"] or g.get("features", "")
                        failed, out = _k.replay_on_real_code(sc, h, "")
                        scenario_runs.append({"harness": h["harness"], "unit": h["unit"], "failed_on_real_code": failed})
                        if failed:
                            ob = [pp for pp in h["pair"] if pp.split(".")[0] in und_units][0]
                            failures.append({"obligation": ob, "props": [pid], "backend": "bounded-scenario", "unit": ob.split(".")[0],
                                             "message": "unit %s is outside the verifier's reach after this change (%s); BOUNDED stand-in: scenario witness %s (units/%s/kani.rs), which passes on the unchanged tree, fails on the real code"
                                                        % (ob.split(".")[0], results[ob.split(".")[0]].reason[:160], h["harness"], h["unit"]),
                                             "repo_loc": "", "clause": "bounded scenario paired with " + ",".join(h["pair"]),
                                             "rendered": out[-3000:], "replayed": True,
                                             "scenario": {"check": "witness", "description": "prepared call sequence %s fails on the real code" % h["harness"], "hex": "",
                                                          "replay_output": out[-3000:], "replay_failed_on_real_code": True,
                                                          "harness": {k: h[k] for k in ("unit", "harness", "crate", "features")}}})
            except FileNotFoundError:
                pass
        # one report per obligation
        seen = set()
        failures = [f for f in failures if not (f["obligation"] in seen or seen.add(f["obligation"]))]
    violations = []
    known_hits = []
    for f in failures:
        key = (pid, f["obligation"])
        if key in known:
            known_hits.append((f, known[key]))
        else:
            violations.append(f)

    # obligations listed as known findings are expected to fail; they are
    # reported separately and not counted among the obligations to discharge
    kf_ids = set(f["obligation"] for f, _ in known_hits)
    obligations = [o for o in obligations if o["id"] not in kf_ids]
    # ------------------------------------------------------------ evidence
    n_obl = len(obligations)
    n_dis = len([o for o in obligations if o["discharged"]])
    fns = []
    rewrites = []
    trusted = []
    solver = []
    cmds = []
    for u in units:
        r = results[u]
        cmds.append(r.cmd)
        for it in r.items:
            if it.is_fn:
                fns.append({"unit": it.unit, "fn": " / ".join(it.path), "file": it.file, "line": it.repo_line,
                            "sha256": it.sha256, "mode": "imported-by-contract" if (it.imported or it.mode == "sig") else "verified-body"})
        rewrites += r.rewrites
        for t in r.trusted:
            trusted.append("%s: %s" % (u, t["text"]))
        solver.append({"unit": u, "wall_s": round(r.wall_s, 2), "smt_ms": r.smt_ms, "proof_hints_dropped_and_reverified": getattr(r, "dropped_hints", 0),
                       "functions": [{"fn": f.get("function"), "ms": f.get("time"), "rlimit": f.get("rlimit"), "ok": f.get("success")} for f in r.functions]})
    if kres is not None:
        fns += kres.get("functions", [])
        cmds.append(kres.get("cmd", ""))
        trusted += kres.get("trusted", [])
        solver.append({"unit": "kani", "wall_s": kres.get("wall_s"), "harnesses": kres.get("harness_times", [])})
    samples = [{"obligation": o["id"], "backend": o["backend"], "kind": o["kind"], "text": o.get("text", ""), "discharged": o["discharged"]} for o in obligations[:60]]
    ev = {
        "property_id": pid,
        "tier": tier,
        "seed": seed,
        "level": P.get("level", "proof"),
        "coverage": {
            "obligations": n_obl,
            "discharged": n_dis,
            "checker_cmd": " ; ".join(c for c in cmds if c),
            "trusted_base": sorted(set(trusted)),
            "samples": samples,
            "functions_under_contract": fns,
            "declared_rewrites": rewrites,
            "solver": solver,
            "bounded": (kres or {}).get("bounded", []),
            "unexplored_thorough_harnesses": (kres or {}).get("unexplored", []),
            "known_findings_hit": [f["obligation"] for f, _ in known_hits],
            "undecided": undecided,
            "bounded_scenarios_run_for_undecided_units": scenario_runs,
            "vacuity_pass": vac,
            "explanation": P.get("explanation", ""),
        },
        "assumptions": P.get("assumptions", []) + ["usize is 64 bits", "Z3 / CBMC and the Verus / Kani front ends are trusted"],
        "wall_s": round(time.time() - t0, 2),
        "violations": len(violations),
    }
    os.makedirs(EVID, exist_ok=True)
    with open(os.path.join(EVID, "%s.json" % pid), "w") as f:
        json.dump(ev, f, indent=1)

    for f, txt in known_hits:
        print("KNOWN-FINDING: property=%s %s (obligation %s)" % (pid, txt, f["obligation"]))

    rc = 0
    if violations:
        os.makedirs(REPLAYS, exist_ok=True)
        from . import replay as rp
        for f in violations:
            path = rp.write(pid, f, results, kres)
            suffix = "" if f.get("replayed") else " no-failing-input-found"
            print("VIOLATION property=%s replay=%s%s" % (pid, path, suffix))
            print("  obligation %s: %s %s" % (f["obligation"], f["message"], f.get("repo_loc") or ""))
        rc = 1
    elif undecided:
        for u in undecided:
            print("UNDECIDED property=%s %s" % (pid, u))
        rc = 2
    for ux in (kres or {}).get("unexplored", []):
        print("NOT-EXPLORED property=%s thorough-only harness %s gave no verdict within the cap (not counted, not an alarm)" % (pid, ux["harness"]))
    print("%s: %d obligations, %d discharged, %d known findings, %d violations, %.1fs [%s]" % (
        pid, n_obl, n_dis, len(known_hits), len(violations), time.time() - t0, tier))
    return rc


if __name__ == "__main__":
    sys.exit(main())

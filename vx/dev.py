"""developer entry: python3 -m vx.dev <unit> — run one unit and print the result"""
import sys, json
from . import verus
def main():
    unit = sys.argv[1]
    rl = int(sys.argv[2]) if len(sys.argv) > 2 else 30
    res, ex = verus.run_unit(unit, rlimit=rl)
    print("status:", res.status, res.reason)
    print("wall %.1fs smt %dms verified=%d" % (res.wall_s, res.smt_ms, res.verified_count))
    for o in res.obligations:
        print("  [%s] %-60s %s" % ("ok" if o["discharged"] else "FAIL", o["id"], ",".join(o["props"])))
    for f in res.failures:
        print("---- FAIL", f["obligation"], f["message"], f["repo_loc"])
        print(f["rendered"])
    if res.status == "undecided":
        print(res.raw_err[:3500])
    for f in res.functions:
        if f.get("time", 0) > 2000: print("slow:", f)
main()

// Big-endian conversions of core.  Verus cannot attach an assume_specification
// to {u16,u32}::{from,to}_be_bytes (their array length is an unevaluated const
// expression), so calls are routed - by a declared rewrite - through these
// one-line wrappers whose bodies are the real core functions and whose
// contracts are ASSUMED (validated against core by the loop-free Kani
// harnesses h_assume_be_bytes_* over the full domain).
verus! {
pub open spec fn be32(b: [u8; 4]) -> u32 {
    ((b[0] as u32) << 24) | ((b[1] as u32) << 16) | ((b[2] as u32) << 8) | (b[3] as u32)
}
pub open spec fn spec_to_be(x: u32) -> [u8; 4] {
    [(x >> 24) as u8, ((x >> 16) & 0xff) as u8, ((x >> 8) & 0xff) as u8, (x & 0xff) as u8]
}
pub open spec fn be16(b: [u8; 2]) -> u16 {
    ((b[0] as u16) << 8) | (b[1] as u16)
}
pub open spec fn spec_to_be16(x: u16) -> [u8; 2] {
    [(x >> 8) as u8, (x & 0xff) as u8]
}
#[verifier::external_body]
pub fn vx_u32_from_be(b: [u8; 4]) -> (r: u32)
    ensures r == be32(b),
{ u32::from_be_bytes(b) }
#[verifier::external_body]
pub const fn vx_u32_to_be(x: u32) -> (r: [u8; 4])
    ensures r == spec_to_be(x), be32(r) == x,
{ x.to_be_bytes() }
#[verifier::external_body]
pub fn vx_u16_from_be(b: [u8; 2]) -> (r: u16)
    ensures r == be16(b),
{ u16::from_be_bytes(b) }
#[verifier::external_body]
pub const fn vx_u16_to_be(x: u16) -> (r: [u8; 2])
    ensures r == spec_to_be16(x), be16(r) == x,
{ x.to_be_bytes() }

pub proof fn lemma_to_be_roundtrip(x: u32)
    ensures be32(spec_to_be(x)) == x,
{
    let b = spec_to_be(x);
    let (b0, b1, b2, b3) = (b[0], b[1], b[2], b[3]);
    assert(b0 == (x >> 24) as u8 && b1 == ((x >> 16) & 0xff) as u8 && b2 == ((x >> 8) & 0xff) as u8 && b3 == (x & 0xff) as u8);
    assert((((((x >> 24) as u8) as u32) << 24) | (((((x >> 16) & 0xff) as u8) as u32) << 16) | (((((x >> 8) & 0xff) as u8) as u32) << 8) | (((x & 0xff) as u8) as u32)) == x) by (bit_vector);
}
pub proof fn lemma_to_be16_roundtrip(x: u16)
    ensures be16(spec_to_be16(x)) == x,
{
    let b = spec_to_be16(x);
    let (b0, b1) = (b[0], b[1]);
    assert(b0 == (x >> 8) as u8 && b1 == (x & 0xff) as u8);
    assert((((((x >> 8) as u8) as u16) << 8) | (((x & 0xff) as u8) as u16)) == x) by (bit_vector);
}
pub proof fn lemma_be32_inj(a: [u8; 4], b: [u8; 4])
    ensures be32(a) == be32(b) <==> a == b,
{
    let (a0, a1, a2, a3) = (a[0], a[1], a[2], a[3]);
    let (b0, b1, b2, b3) = (b[0], b[1], b[2], b[3]);
    assert((((a0 as u32) << 24) | ((a1 as u32) << 16) | ((a2 as u32) << 8) | (a3 as u32))
        == (((b0 as u32) << 24) | ((b1 as u32) << 16) | ((b2 as u32) << 8) | (b3 as u32))
        ==> a0 == b0 && a1 == b1 && a2 == b2 && a3 == b3) by (bit_vector);
    if be32(a) == be32(b) {
        assert(a =~= b);
    }
}
pub proof fn lemma_be32_inj_all()
    ensures forall|a: [u8; 4], b: [u8; 4]| #![trigger be32(a), be32(b)] be32(a) == be32(b) ==> a == b,
{
    assert forall|a: [u8; 4], b: [u8; 4]| #![trigger be32(a), be32(b)] be32(a) == be32(b) implies a == b by {
        lemma_be32_inj(a, b);
    }
}
} // verus!

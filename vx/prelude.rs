// Shared prelude of every assembled unit (not repository code).
#![allow(unused_imports, dead_code, unused_variables, unused_mut, unused_parens, non_snake_case, unused_assignments, unreachable_code)]
#![feature(allocator_api)]
use vstd::prelude::*;
fn main() {}

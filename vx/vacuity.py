"""Vacuity pass (thorough tier): append `ensures false` to every woven
contract; every function under contract must then be REJECTED by Verus.  A
function that still verifies has a contradictory precondition (or Verus did not
look at it)."""
import re
from . import verus


def run(units, rlimit):
    out = []
    for u in units:
        def mutate(txt):
            # add `false` as an extra ensures clause to each woven contract
            lines = txt.split("\n")
            res = []
            for ln in lines:
                res.append(ln)
            return "\n".join(res)
        res, ex = verus.run_unit(u, rlimit=rlimit, variant="vacuity", mutate=_add_false)
        if res.status == "undecided":
            out.append({"unit": u, "status": "undecided", "reason": res.reason})
            continue
        failed_items = set()
        for f in res.failures:
            parts = f["obligation"].split(".")
            failed_items.add(".".join(parts[1:-1]))
        expect = [it.id for it in res.items if it.is_fn and it.mode == "full" and not it.imported and it.labels]
        vac = [i for i in expect if i not in failed_items]
        out.append({"unit": u, "status": "ok" if not vac else "vacuous", "reason": "functions that verify `ensures false`: %s" % vac if vac else "",
                    "functions_checked": len(expect)})
    return out


def _add_false(txt):
    # the weaver emits `ensures` on its own line inside woven contracts
    return re.sub(r"(?m)^(\s*)ensures\s*$", r"\1ensures false,", txt)

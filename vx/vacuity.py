"""Vacuity pass (thorough tier): `proof { assert(false); }` is woven at the
entry of every verified-body function under contract; Verus must REJECT each
of them.  A function whose probe verifies has a contradictory precondition
(or Verus did not look at it)."""
from . import verus


def run(units, rlimit):
    out = []
    for u in units:
        res, ex = verus._run_unit_once(u, rlimit=rlimit, variant="vacuity")
        if res.status == "undecided" and not res.failures:
            out.append({"unit": u, "status": "undecided", "reason": res.reason})
            continue
        failed_items = set()
        for f in res.failures:
            parts = f["obligation"].split(".")
            failed_items.add(".".join(parts[1:-1]))
        expect = [it.id for it in res.items if getattr(it, "vacuity_probe", False)]
        vac = [i for i in expect if i not in failed_items]
        out.append({"unit": u, "status": "ok" if not vac else "vacuous",
                    "reason": ("functions whose entry is unreachable under their `requires`: %s" % vac) if vac else "",
                    "functions_checked": len(expect)})
    return out

import json, sys, glob, jsonschema
jsonschema.validate(json.load(open('/verif/MANIFEST.json')), json.load(open('/root/.vp/MANIFEST.schema.json')))
sch = json.load(open('/root/.vp/EVIDENCE.schema.json'))
for f in glob.glob('/verif/evidence/*.json'):
    jsonschema.validate(json.load(open(f)), sch)
    print("valid", f)
print("manifest valid")

"""Template expansion: pull the real items out of /repo and weave contracts in.

A unit is one template file `units/<unit>/unit.vx.rs`.  Every line that is not
a directive is copied through.  Directives:

  //@ unit <name> props=C07,C10
  //@ include <path relative to /verif>
  //@ import-unit <name>            expand another unit in contract-only mode
  //@ item <repo-relative file> :: <sel> / <sel> ... [key=value ...]
        keys: props=C01,C02   properties served by this item's obligations
              id=<name>       obligation prefix (default: last selector name)
              mode=full|sig   sig: only signature + contract, external_body
              strip-attrs     strip #[derive]/#[allow]/doc comments (blank lines kept)
  //@ contract                following lines go between signature and body
  //@ loop <n>                following lines go before the n-th loop's `{`
  //@ before <n> `literal`    before the line holding the n-th occurrence
  //@ after <n> `literal`     after the statement holding the n-th occurrence
  //@ afterline <n> `literal` after the line holding the n-th occurrence
  //@ loop-start <n>          at the start of the n-th loop's body
  //@ loop-end <n>            at the end of the n-th loop's body
  //@ finish                  before the closing brace of the fn body (fns returning ())
  //@ start                   right after the body's opening brace
  //@ rewrite `regex` => `replacement` ## reason
  //@ end

A contract line may end in `//# label [C01,C02]`; the label names the
obligation that line carries.
"""
import hashlib
import os
import re

from . import rustlex
from .rustlex import LostAnchor

VERIF = os.path.dirname(os.path.dirname(os.path.abspath(__file__)))
REPO = os.environ.get("VX_REPO", "/repo")


class TemplateError(Exception):
    pass


class Line:
    __slots__ = ("text", "origin")

    def __init__(self, text, origin):
        self.text = text
        self.origin = origin


class Item:
    def __init__(self):
        self.unit = None
        self.id = None
        self.file = None
        self.path = None
        self.props = []
        self.mode = "full"
        self.is_fn = False
        self.sha256 = None
        self.repo_line = None
        self.repo_end_line = None
        self.first = None  # assembled line range (1-based, inclusive)
        self.last = None
        self.labels = []  # (label, props, assembled line)
        self.rewrites = []  # (regex, repl, reason, count)
        self.has_requires = False
        self.fn_name = None
        self.imported = False


LABEL_RX = re.compile(r"//#\s*([\w.\-]+)?\s*(?:\[([^\]]*)\])?\s*$")


def _parse_kv(tokens):
    kv = {}
    flags = set()
    for t in tokens:
        if "=" in t:
            k, v = t.split("=", 1)
            kv[k] = v
        else:
            flags.add(t)
    return kv, flags


def _backtick_args(s):
    return re.findall(r"`((?:[^`\\]|\\.)*)`", s)


class Expander:
    def __init__(self, repo=None, vacuity=False):
        self.vacuity = vacuity
        self.repo = repo or REPO
        self.lines = []
        self.items = []
        self.lemmas = []  # (unit, name, props, first_line, last_line)
        self.unit_props = {}
        self.src_cache = {}
        self.units_seen = []
        self.includes = []
        self._uses = set()
        self._use_names = set()

    # ------------------------------------------------------------------
    def _src(self, rel):
        if rel not in self.src_cache:
            p = os.path.join(self.repo, rel)
            if not os.path.exists(p):
                raise LostAnchor("file %s not found" % rel)
            with open(p, encoding="utf-8") as f:
                s = f.read()
            self.src_cache[rel] = (s, rustlex.mask(s))
        return self.src_cache[rel]

    def emit(self, text, origin):
        for t in text.split("\n"):
            self.lines.append(Line(t, origin))

    # ------------------------------------------------------------------
    def expand_unit(self, unit, imported=False):
        path = os.path.join(VERIF, "units", unit, "unit.vx.rs")
        with open(path, encoding="utf-8") as f:
            tl = f.read().split("\n")
        self.units_seen.append((unit, imported))
        cur_unit = unit
        i = 0
        n = len(tl)
        while i < n:
            line = tl[i]
            s = line.strip()
            if not s.startswith("//@"):
                if imported and re.match(r"\s*(pub\s+)?proof\s+fn\s+vx_reach_", line):
                    pass
                self._passthrough(line, cur_unit, path, i + 1, imported)
                i += 1
                continue
            d = s[3:].strip()
            if d.startswith("unit "):
                toks = d.split()[1:]
                kv, _ = _parse_kv(toks[1:])
                self.unit_props[toks[0]] = kv.get("props", "").split(",") if kv.get("props") else []
                i += 1
            elif d.startswith("opaque-when-imported"):
                # the next spec fn is made opaque when this unit is only imported
                # by contract (importers need it as a predicate, not its body)
                if imported:
                    self.lines.append(Line("#[verifier::opaque]", {"kind": "tmpl", "file": os.path.relpath(path, VERIF), "line": i + 1, "unit": cur_unit, "imported": imported}))
                i += 1
            elif d.startswith("include "):
                inc = d.split(None, 1)[1].strip()
                if inc not in self.includes:
                    self.includes.append(inc)
                    with open(os.path.join(VERIF, inc), encoding="utf-8") as f:
                        for k, l2 in enumerate(f.read().split("\n")):
                            self.lines.append(Line(l2, {"kind": "tmpl", "file": inc, "line": k + 1, "unit": cur_unit}))
                i += 1
            elif d.startswith("import-unit "):
                dep = d.split()[1]
                if dep not in [u for u, _ in self.units_seen]:
                    self.expand_unit(dep, imported=True)
                i += 1
            elif d.startswith("item "):
                j = i + 1
                block = []
                while j < n and tl[j].strip() != "//@ end":
                    block.append(tl[j])
                    j += 1
                if j >= n:
                    raise TemplateError("%s:%d: //@ item without //@ end" % (path, i + 1))
                self._item(d[5:], block, cur_unit, imported, path, i + 1)
                i = j + 1
            else:
                raise TemplateError("%s:%d: unknown directive %r" % (path, i + 1, d))

    def _passthrough(self, line, unit, path, lineno, imported):
        if re.match(r"^use\s+[\w:{}*, ]+;\s*$", line):
            key = re.sub(r"\s+", " ", line.strip())
            if key in self._uses:
                line = "// (duplicate import elided) " + line
            else:
                self._uses.add(key)
                # the same leaf name imported through another path / brace list (units combined by import-unit)
                mb = re.match(r"^use\s+([\w:]+)::\{([\w, ]+)\};\s*$", line)
                ms = re.match(r"^use\s+([\w:]+)::(\w+);\s*$", line)
                if mb:
                    names = [x.strip() for x in mb.group(2).split(",") if x.strip()]
                    keep = [x for x in names if x not in self._use_names or x == "self"]
                    self._use_names.update(names)
                    if len(keep) != len(names):
                        line = ("use %s::{%s};" % (mb.group(1), ", ".join(keep))) if keep else "// (duplicate import elided) " + line
                elif ms:
                    if ms.group(2) in self._use_names:
                        line = "// (duplicate import elided) " + line
                    self._use_names.add(ms.group(2))
        org = {"kind": "tmpl", "file": os.path.relpath(path, VERIF), "line": lineno, "unit": unit, "imported": imported}
        if imported and re.match(r"\s*(?:pub\s+)?(?:broadcast\s+)?proof\s+fn\s+\w+", line):
            # a lemma of an imported unit is proved in its own unit; here it is imported by contract
            self.lines.append(Line("#[verifier::external_body]", dict(org, kind="import")))
        self.lines.append(Line(line, org))
        m = re.match(r"\s*(?:pub\s+)?(?:broadcast\s+)?proof\s+fn\s+(\w+)", line)
        if m and not imported and len(self.lines) >= 2 and "external_body" in self.lines[-2].text:
            m = None   # an assumed axiom (external_body proof fn) is an assumption, not an obligation
        if m:
            lm = LABEL_RX.search(line)
            props = None
            if lm and lm.group(2):
                props = [p.strip() for p in lm.group(2).split(",") if p.strip()]
            self.lemmas.append({"unit": unit, "name": m.group(1), "props": props, "line": len(self.lines), "imported": imported})

    # ------------------------------------------------------------------
    def _item(self, header, block, unit, imported, tpath, tline):
        m = re.match(r"(\S+)\s*::\s*(.*)$", header)
        if not m:
            raise TemplateError("%s:%d: bad item header" % (tpath, tline))
        rel = m.group(1)
        rest = m.group(2)
        # split options (tokens with = or known flags) from the selector path
        parts = rest.split()
        opts = []
        while parts and ("=" in parts[-1] and not parts[-1].startswith("=")) or (parts and parts[-1] in ("strip-attrs",)):
            opts.insert(0, parts.pop())
        selpath = [p.strip() for p in " ".join(parts).split(" / ")]
        kv, flags = _parse_kv(opts)
        it = Item()
        it.unit = unit
        it.file = rel
        it.path = selpath
        it.imported = imported
        it.props = [p for p in kv.get("props", "").split(",") if p] or list(self.unit_props.get(unit, []))
        it.mode = kv.get("mode", "full")
        if imported and selpath[-1].startswith("fn "):
            it.mode = "sig"
        last = re.sub(r"#\d+$", "", selpath[-1]).strip()
        it.is_fn = last.startswith("fn ")
        nm = last.split(" ", 1)[1] if " " in last else last
        it.fn_name = nm if it.is_fn else None
        it.id = kv.get("id", nm.replace(" ", "_"))

        src, msk = self._src(rel)
        try:
            s, e, bo = rustlex.locate(src, selpath, msk)
        except LostAnchor as ex:
            raise LostAnchor("%s :: %s: %s" % (rel, " / ".join(selpath), ex))
        text = src[s:e]
        it.sha256 = hashlib.sha256(text.encode()).hexdigest()
        it.repo_line = src.count("\n", 0, s) + 1
        it.repo_end_line = src.count("\n", 0, e) + 1

        # parse sub-directives
        subs = []  # (kind, args, [lines])
        cur = None
        for bl in block:
            bs = bl.strip()
            if bs.startswith("//@"):
                d = bs[3:].strip()
                kind = d.split()[0]
                cur = [kind, d[len(kind):].strip(), []]
                subs.append(cur)
            else:
                if cur is None:
                    if bs:
                        raise TemplateError("%s:%d: text before sub-directive in item %s" % (tpath, tline, it.id))
                    continue
                cur[2].append(bl)

        # 1. strip attributes / doc comments (nothing executable)
        if "strip-attrs" in flags:
            text = _strip_attrs(text)
        # 2. declared rewrites
        for kind, args, body in subs:
            if kind != "rewrite":
                continue
            bt = _backtick_args(args.split("##", 1)[0])
            if len(bt) != 2:
                raise TemplateError("%s:%d: rewrite needs `regex` => `repl`" % (tpath, tline))
            reason = args.split("##", 1)[1].strip() if "##" in args else ""
            rx = re.compile(bt[0], re.S)
            cnt = [0]

            def sub(mo, repl=bt[1]):
                cnt[0] += 1
                new = mo.expand(repl.replace("\\n", "\n"))
                dn = mo.group(0).count("\n") - new.count("\n")
                if dn < 0:
                    raise TemplateError("rewrite %r adds lines" % bt[0])
                return new + "\n" * dn
            text = rx.sub(sub, text)
            # a rewrite that no longer matches is not an error by itself: the
            # construct it was written for is gone, so Verus sees the text as it
            # is (and either decides it or fails to ingest it => undecided)
            it.rewrites.append({"regex": bt[0], "replacement": bt[1], "reason": reason, "matches": cnt[0]})

        if imported and not it.is_fn and last.startswith("impl ") and " for " in last:
            # a trait impl of an imported unit is verified in its own unit; here its functions are imported by contract
            # (the *SpecImpl next to it is the contract): bodies are not verified again
            text = re.sub(r"(^|\n)([ \t]*)((?:pub\s+)?fn\s)", r"\1\2#[verifier::external_body] \3", text)
        tm = rustlex.mask(text)
        inserts = []  # (offset, order, text, origin-kind)
        if it.is_fn:
            arrow, rs, re_, body_open, _ = rustlex.fn_signature_parts(text, tm)
        else:
            arrow = rs = re_ = None
            body_open = None
        order = 0
        sig_only_contract = []
        for kind, args, body in subs:
            order += 1
            btxt = "\n".join(body).rstrip("\n")
            if kind == "rewrite":
                continue
            if not it.is_fn and kind not in ("before", "after", "afterline"):
                raise TemplateError("%s: %s only valid on fn items" % (it.id, kind))
            if kind == "contract":
                inserts.append((body_open, order, "\n" + btxt + "\n", "contract"))
                sig_only_contract.append(btxt)
                if re.search(r"^\s*requires\b", btxt, re.M):
                    it.has_requires = True
            elif kind == "start":
                inserts.append((body_open + 1, order, "\n" + btxt, "proof"))
            elif kind == "finish":
                # before the function body's closing brace (only for fns without a tail expression)
                close = rustlex.match_close(tm, body_open)
                off = text.rfind("\n", 0, close) + 1
                inserts.append((off, order, btxt + "\n", "proof"))
            elif kind == "loop-start":
                k = int(args.split()[0])
                loops = rustlex.find_loops(text, tm, body_open)
                if k < 1 or k > len(loops):
                    raise LostAnchor("%s: loop %d not found (%d loops)" % (it.id, k, len(loops)))
                inserts.append((loops[k - 1][1] + 1, order, "\n" + btxt, "proof"))
            elif kind == "loop-end":
                k = int(args.split()[0])
                loops = rustlex.find_loops(text, tm, body_open)
                if k < 1 or k > len(loops):
                    raise LostAnchor("%s: loop %d not found (%d loops)" % (it.id, k, len(loops)))
                close = rustlex.match_close(tm, loops[k - 1][1])
                off = text.rfind("\n", 0, close) + 1
                if text[off:close].strip():
                    off = close  # closing brace shares its line with code
                    inserts.append((off, order, "\n" + btxt + "\n", "proof"))
                else:
                    inserts.append((off, order, btxt + "\n", "proof"))
            elif kind == "loop":
                k = int(args.split()[0])
                loops = rustlex.find_loops(text, tm, body_open)
                if k < 1 or k > len(loops):
                    raise LostAnchor("%s: loop %d not found (%d loops)" % (it.id, k, len(loops)))
                inserts.append((loops[k - 1][1], order, "\n" + btxt + "\n", "loop%d" % k))
            elif kind in ("before", "after", "afterline"):
                k = int(args.split()[0])
                bt = _backtick_args(args)
                if not bt:
                    raise TemplateError("%s: %s needs `literal`" % (it.id, kind))
                lit = bt[0]
                pos = -1
                startat = (body_open or 0)
                for _ in range(k):
                    pos = text.find(lit, startat if pos < 0 else pos + 1)
                    if pos < 0:
                        raise LostAnchor("%s: anchor `%s` occurrence %d not found" % (it.id, lit, k))
                if kind == "before":
                    off = text.rfind("\n", 0, pos) + 1
                    inserts.append((off, order, btxt + "\n", "proof"))
                elif kind == "afterline":
                    nl = text.find("\n", pos)
                    if nl < 0:
                        nl = len(text) - 1
                    inserts.append((nl + 1, order, btxt + "\n", "proof"))
                else:
                    # end of the statement: next ';' at the nesting depth of pos
                    d = 0
                    q = pos
                    while q < len(tm):
                        ch = tm[q]
                        if ch in "([{":
                            d += 1
                        elif ch in ")]}":
                            d -= 1
                            if d < 0:
                                break
                        elif ch == ";" and d == 0:
                            break
                        q += 1
                    nl = text.find("\n", q)
                    if nl < 0:
                        nl = len(text)
                    inserts.append((nl + 1, order, btxt + "\n", "proof"))
            else:
                raise TemplateError("%s: unknown sub-directive %s" % (it.id, kind))

        if self.vacuity and it.is_fn and it.mode == "full" and not imported and sig_only_contract:
            # vacuity pass: `assert(false)` at the entry of every function under
            # contract must be REJECTED (a contradictory `requires` would make it pass)
            inserts.append((body_open + 1, 0, "\n        proof { assert(false); } // vx-vacuity-probe", "proof"))
            it.vacuity_probe = True
        ret_named = False
        if it.is_fn and arrow is not None and (sig_only_contract or it.mode == "sig"):
            rty = text[rs:re_].strip()
            if not re.match(r"^\(\s*\w+\s*:", rty):
                # name the result
                inserts.append((rs, -1, " (r: ", "sig"))
                # position after the type (trim trailing whitespace)
                tend = rs + len(text[rs:re_].rstrip())
                inserts.append((tend, -1, ")", "sig"))
                ret_named = True

        first_line = len(self.lines) + 1
        if it.mode == "sig":
            if not it.is_fn:
                raise TemplateError("mode=sig on non-fn item %s" % it.id)
            sig = text[:body_open]
            # apply the sig-level inserts (ret naming) only
            sig_ins = sorted([x for x in inserts if x[3] == "sig"], key=lambda x: (x[0], x[1]))
            out = ""
            p = 0
            for off, _, t, _k in sig_ins:
                out += sig[p:off] + t
                p = off
            out += sig[p:]
            self.emit("#[verifier::external_body]", {"kind": "import", "item": it.id, "unit": unit})
            self._emit_repo(out.rstrip(), it, it.repo_line)
            for c in sig_only_contract:
                self._emit_contract(c, it)
            if arrow is not None and re.search(r"\bimpl\b", text[rs:re_]):
                # `-> impl Trait`: rustc needs a body to infer the type; the real
                # body is kept (external_body: Verus does not look inside)
                self._emit_repo(text[body_open:], it, it.repo_line + text[:body_open].count("\n"))
            else:
                self.emit("{ unimplemented!() }", {"kind": "import", "item": it.id, "unit": unit})
        else:
            inserts.sort(key=lambda x: (x[0], x[1]))
            p = 0
            cur_line = it.repo_line
            pending = ""
            for off, _, t, k in inserts:
                seg = text[p:off]
                pending += seg
                if k == "sig":
                    pending += t
                    p = off
                    continue
                # flush pending repo text
                nl_count = pending.count("\n")
                if pending.endswith("\n"):
                    self._emit_repo(pending[:-1], it, cur_line)
                    cur_line += nl_count
                    pending = ""
                    tt = t
                    if tt.startswith("\n"):
                        tt = tt[1:]
                    if tt.endswith("\n"):
                        tt = tt[:-1]
                    self._emit_contract(tt, it, k)
                else:
                    # insertion in the middle of a line
                    self._emit_repo(pending, it, cur_line)
                    cur_line += nl_count
                    pending = ""
                    tt = t.strip("\n")
                    self._emit_contract(tt, it, k)
                p = off
            pending += text[p:]
            self._emit_repo(pending, it, cur_line)
        it.first = first_line
        it.last = len(self.lines)
        self.items.append(it)

    def _emit_repo(self, text, it, start_line):
        for k, t in enumerate(text.split("\n")):
            self.lines.append(Line(t, {"kind": "repo", "file": it.file, "line": start_line + k, "item": it.id, "unit": it.unit}))

    def _emit_contract(self, text, it, where="contract"):
        for t in text.split("\n"):
            lm = LABEL_RX.search(t)
            label = None
            props = None
            if lm and (lm.group(1) or lm.group(2)):
                label = lm.group(1)
                if lm.group(2):
                    props = [p.strip() for p in lm.group(2).split(",") if p.strip()]
            self.lines.append(Line(t, {"kind": "contract", "item": it.id, "unit": it.unit, "where": where, "label": label, "props": props}))
            if label:
                it.labels.append({"label": label, "props": props or it.props, "line": len(self.lines), "text": t.split("//#")[0].strip()})

    # ------------------------------------------------------------------
    def text(self):
        return "\n".join(l.text for l in self.lines) + "\n"


def _strip_attrs(text):
    """remove doc comments and #[derive]/#[allow]/#[must_use]/#[inline]
    attributes; each removed line is replaced by an empty line so that line
    numbers are preserved."""
    out = []
    skip_multi = False
    for ln in text.split("\n"):
        s = ln.strip()
        if skip_multi:
            out.append("")
            if s.endswith(")]"):
                skip_multi = False
            continue
        if s.startswith("///") or s.startswith("//!"):
            out.append("")
        elif re.match(r"#\[(derive|allow|must_use|inline|doc|cfg_attr|non_exhaustive|repr|error|from)\b", s):
            if s.endswith("]"):
                out.append("")
            else:
                skip_multi = True
                out.append("")
        else:
            out.append(ln)
    return "\n".join(out)

// Shared: ASSUMED specification of std::collections::BinaryHeap (vstd has none).
verus! {
// ---------------------------------------------------------------------------
// ASSUMED specification of std::collections::BinaryHeap (vstd has none).
// Abstraction: the elements in the order successive pops would return them.
// ---------------------------------------------------------------------------
#[verifier::external_type_specification]
#[verifier::external_body]
#[verifier::accept_recursive_types(T)]
#[verifier::accept_recursive_types(A)]
pub struct ExBinaryHeap<T, A: std::alloc::Allocator>(BinaryHeap<T, A>);

pub uninterp spec fn heap_seq<T, A: std::alloc::Allocator>(h: BinaryHeap<T, A>) -> Seq<T>;

/// pop order is non-increasing w.r.t. the element order
pub open spec fn heap_sorted<T: Ord>(s: Seq<T>) -> bool {
    forall|i: int, j: int| 0 <= i < j < s.len() ==> OrdSpec::cmp_spec(&s[i], &s[j]) != Ordering::Less
}

pub assume_specification<T> [BinaryHeap::<T>::new] () -> (r: BinaryHeap<T>)
    ensures heap_seq(r) == Seq::<T>::empty();
pub assume_specification<T: Ord, A: std::alloc::Allocator> [BinaryHeap::<T, A>::push] (h: &mut BinaryHeap<T, A>, item: T)
    ensures
        heap_seq(*final(h)).to_multiset() == heap_seq(*old(h)).to_multiset().insert(item),
        heap_seq(*final(h)).len() == heap_seq(*old(h)).len() + 1,
        // (a consequence of the multiset clause, stated for convenience)
        forall|i: int| 0 <= i < heap_seq(*final(h)).len() ==> (#[trigger] heap_seq(*final(h))[i]) == item || heap_seq(*old(h)).contains(heap_seq(*final(h))[i]),
        heap_sorted(heap_seq(*final(h)));
pub assume_specification<T: Ord, A: std::alloc::Allocator> [BinaryHeap::<T, A>::pop] (h: &mut BinaryHeap<T, A>) -> (r: Option<T>)
    ensures
        heap_seq(*old(h)).len() == 0 ==> r is None && heap_seq(*final(h)) == heap_seq(*old(h)),
        heap_seq(*old(h)).len() > 0 ==> r == Some(heap_seq(*old(h))[0]) && heap_seq(*final(h)) == heap_seq(*old(h)).subrange(1, heap_seq(*old(h)).len() as int);

pub assume_specification<T, A: std::alloc::Allocator> [BinaryHeap::<T, A>::peek] (h: &BinaryHeap<T, A>) -> (r: Option<&T>)
    ensures
        heap_seq(*h).len() == 0 ==> r is None,
        heap_seq(*h).len() > 0 ==> r == Some(&heap_seq(*h)[0]);
} // verus!

"""python3 -m vx.drill <unit> — mutation drill (not a registered command).
units/<unit>/mutants.txt: blocks separated by a line `----`, each block:
  line 1: repo-relative file
  line 2..: OLD text, a line `====`, NEW text
Each mutant is applied to a scratch copy of /repo/sim and the unit is re-verified;
the drill reports which obligations fail (a surviving mutant = weak contract)."""
import os, shutil, subprocess, sys
from . import verus

def main():
    unit = sys.argv[1]
    only = int(sys.argv[2]) if len(sys.argv) > 2 else None
    path = os.path.join(verus.VERIF, "units", unit, "mutants.txt")
    blocks = open(path).read().split("\n----\n")
    scratch = "/var/tmp/vx-drill-%d" % os.getpid()
    os.makedirs(scratch + "/sim", exist_ok=True)
    try:
        for k, b in enumerate(blocks):
            if not b.strip():
                continue
            if only is not None and k != only:
                continue
            lines = b.strip("\n").split("\n")
            f = lines[0].strip()
            rest = "\n".join(lines[1:])
            old, new = rest.split("\n====\n")
            subprocess.run(["rsync", "-a", "--delete", "--exclude", "target", "--exclude", "perf.data*", "/repo/sim/", scratch + "/sim/"], check=True)
            p = os.path.join(scratch, f)
            s = open(p).read()
            if s.count(old) != 1:
                print("mutant %d: OLD text occurs %d times in %s" % (k, s.count(old), f))
                continue
            open(p, "w").write(s.replace(old, new))
            res, _ = verus.run_unit(unit, repo=scratch, variant="drill")
            fails = sorted(set(x["obligation"] for x in res.failures))
            tag = "KILLED" if fails else ("UNDECIDED " + res.reason[:200] if res.status == "undecided" else "SURVIVED")
            print("mutant %d [%s] %s: %r -> %r\n      %s" % (k, tag, f, old.strip()[:60], new.strip()[:60], fails))
    finally:
        shutil.rmtree(scratch, ignore_errors=True)
main()

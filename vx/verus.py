"""Run Verus on an assembled unit and map its diagnostics back to obligations."""
import json
import os
import re
import subprocess
import time

from .weave import Expander, VERIF, LostAnchor, TemplateError

BUILD = os.path.join(VERIF, "build")

UNDECIDED_PAT = re.compile(r"rlimit|resource limit|timed? ?out|could not|unsupported|not supported|internal error|panicked", re.I)


class UnitResult:
    def __init__(self, unit):
        self.hint_spans = []
        self.dropped_hints = 0
        self.unit = unit
        self.status = "ok"  # ok | failed | undecided
        self.reason = ""
        self.obligations = []  # dicts: id, props, kind, discharged(bool), text
        self.failures = []  # dicts: obligation, message, rendered, repo_loc
        self.items = []
        self.lemmas = []
        self.functions = []  # verus function-breakdown
        self.wall_s = 0.0
        self.smt_ms = 0
        self.rewrites = []
        self.trusted = []
        self.cmd = ""
        self.verified_count = 0
        self.raw_err = ""
        self.file = ""


def assemble(unit, repo=None, vacuity=False):
    ex = Expander(repo, vacuity=vacuity)
    ex.expand_unit(unit)
    return ex


def scan_trusted(ex):
    """mechanical scan for every assumption-introducing construct"""
    found = []
    for idx, l in enumerate(ex.lines):
        t = l.text
        code = t.split("//")[0]
        for kw in ("assume_specification", "external_body", "external_type_specification", "external_fn_specification",
                   "admit(", "assume(", "SpecImpl", "#[verifier::external", "axiom", "#[verifier::trusted", "no_decreases", "exec_allows_no_decreases_clause", "assume_termination"):
            if kw in code:
                if kw == "#[verifier::external" and "external_body" in code:
                    continue
                if kw == "axiom" and "broadcast use" in code:
                    continue
                found.append({"construct": kw, "line": idx + 1, "text": t.strip()[:200], "origin": l.origin.get("kind")})
    return found


def _run_unit_once(unit, repo=None, rlimit=30, extra_args=None, variant=None, mutate=None, timeout=900):
    """variant: None (normal) | 'vacuity' (append `ensures false` to every
    contract)"""
    res = UnitResult(unit)
    t0 = time.time()
    try:
        ex = assemble(unit, repo, vacuity=(variant == "vacuity"))
    except LostAnchor as e:
        res.status = "undecided"
        res.reason = "lost anchor: %s" % e
        return res, None
    except TemplateError as e:
        res.status = "undecided"
        res.reason = "template error: %s" % e
        return res, None
    os.makedirs(BUILD, exist_ok=True)
    # canary: a lemma that must fail
    ex.emit("verus! { proof fn vx_canary_%s() ensures false {} }" % unit, {"kind": "canary", "unit": unit})
    canary_line = len(ex.lines)
    txt = ex.text()
    if mutate:
        txt = mutate(txt)
    fn = os.path.join(BUILD, "%s%s.rs" % (unit, ("_" + variant) if variant else ""))
    with open(fn, "w") as f:
        f.write(txt)
    res.file = fn
    cmd = ["verus", fn, "--output-json", "--time", "--multiple-errors", "50", "--rlimit", str(rlimit), "--error-format=json", "--num-threads", "8"]
    if extra_args:
        cmd += extra_args
    res.cmd = " ".join(cmd)
    try:
        p = subprocess.run(cmd, capture_output=True, text=True, timeout=timeout, cwd=BUILD)
    except subprocess.TimeoutExpired:
        res.status = "undecided"
        res.reason = "verus timed out after %ds" % timeout
        return res, ex
    res.wall_s = time.time() - t0
    res.raw_err = p.stderr
    try:
        out = json.loads(p.stdout)
    except Exception:
        res.status = "undecided"
        res.reason = "verus produced no JSON (rc=%d): %s" % (p.returncode, p.stderr[-2000:])
        return res, ex
    diags = []
    for ln in p.stderr.split("\n"):
        ln = ln.strip()
        if ln.startswith("{"):
            try:
                diags.append(json.loads(ln))
            except Exception:
                pass
    vr = out.get("verification-results", {})
    res.verified_count = vr.get("verified", 0)
    try:
        for mt in out["times-ms"]["smt"]["smt-run-module-times"]:
            for fb in mt.get("function-breakdown", []):
                res.functions.append(fb)
        res.smt_ms = out["times-ms"]["smt"]["total"]
    except Exception:
        pass
    errors = [d for d in diags if d.get("level") == "error" and not d.get("message", "").startswith("aborting due to")]
    if vr.get("encountered-vir-error") or (not res.functions and errors):
        res.status = "undecided"
        res.reason = "verus could not ingest the unit: " + "; ".join(d.get("message", "") for d in errors[:5])
        res.raw_err = "\n".join(d.get("rendered", "") for d in errors[:10])
        return res, ex

    res.items = ex.items
    res.lemmas = ex.lemmas
    res.trusted = scan_trusted(ex)
    for it in ex.items:
        for rw in it.rewrites:
            res.rewrites.append(dict(rw, item=it.id, file=it.file))

    # ---------- obligations ----------
    obl = {}

    def add(oid, props, kind, text=""):
        obl[oid] = {"id": oid, "props": props, "kind": kind, "discharged": True, "text": text}

    for it in ex.items:
        if it.imported:
            continue
        if (it.is_fn or it.path[-1].startswith("impl ")) and it.mode == "full":
            add("%s.%s.safety" % (it.unit, it.id), it.props, "safety",
                "%s:%d %s: no panic / overflow / failed precondition / non-termination; unlabelled clauses" % (it.file, it.repo_line, " / ".join(it.path)))
            for lb in it.labels:
                add("%s.%s.%s" % (it.unit, it.id, lb["label"]), lb["props"], "clause", lb["text"])
    for lm in ex.lemmas:
        if lm["imported"] or lm["name"].startswith("vx_canary"):
            continue
        props = lm["props"] if lm["props"] is not None else ex.unit_props.get(lm["unit"], [])
        add("%s.lemma.%s" % (lm["unit"], lm["name"]), props, "lemma", "proof fn %s" % lm["name"])

    # ---------- attribute diagnostics ----------
    canary_failed = False
    lines = ex.lines

    def org(line):
        if 1 <= line <= len(lines):
            return lines[line - 1].origin
        return {"kind": "?"}

    def item_at(line):
        for it in ex.items:
            if it.first <= line <= it.last:
                return it
        return None

    def lemma_at(line):
        best = None
        for lm in ex.lemmas:
            if lm["line"] <= line:
                if best is None or lm["line"] > best["line"]:
                    best = lm
        return best

    for d in errors:
        msg = d.get("message", "")
        spans = d.get("spans", [])
        sl = []
        def _callsite(sp):
            # a span inside a macro expansion (assert!, unreachable!, vec!): walk out to the call site
            for _ in range(8):
                if os.path.basename(sp.get("file_name", "")) == os.path.basename(fn):
                    return sp
                exp = sp.get("expansion")
                if not exp or not exp.get("span"):
                    return None
                sp = dict(exp["span"], is_primary=sp.get("is_primary"), label=sp.get("label"))
            return None
        for sp0 in spans:
            sp = _callsite(sp0)
            if sp is None:
                continue  # a span inside vstd / core: its line numbers mean nothing here
            a, b = sp.get("line_start"), sp.get("line_end") or sp.get("line_start")
            # a multi-line clause: every line of the span (the label sits on its last line)
            for ln_ in range(a, min(b, a + 40) + 1):
                sl.append((ln_, sp.get("is_primary"), sp.get("label") or ""))
        if any(org(l).get("kind") == "canary" for l, _, _ in sl):
            canary_failed = True
            continue
        # a failed *proof hint* (an `assert(..)` woven from the template into a fn body, not a clause of the contract, not a
        # loop invariant, not an assert! of the repository): remember its span; run_unit() re-verifies without it
        if msg.strip() == "assertion failed":
            for sp0 in spans:
                sp = _callsite(sp0)
                if sp is None or not sp.get("is_primary"):
                    continue
                o = org(sp.get("line_start"))
                if o.get("kind") == "contract" and o.get("where") == "proof":
                    res.hint_spans.append((sp["line_start"], sp["column_start"], sp["line_end"], sp["column_end"]))
        if UNDECIDED_PAT.search(msg) and "precondition" not in msg and "postcondition" not in msg:
            res.status = "undecided"
            res.reason = "verifier gave up: %s" % msg
            res.raw_err = d.get("rendered", "")
            continue
        # owner: the item / lemma in which the failing code lies
        owner = None
        label = None
        label_props = None
        repo_loc = None
        # prefer spans that are not "failed precondition" clauses of a callee
        cands = []
        for l, prim, lab in sl:
            if "failed precondition" in lab:
                continue
            cands.append((l, prim, lab))
        if not cands:
            cands = sl
        for l, prim, lab in sorted(cands, key=lambda x: not x[1]):
            it = item_at(l)
            if it is not None and not it.imported:
                owner = it
                break
        for l, prim, lab in sl:
            o = org(l)
            if o.get("kind") == "contract" and o.get("label") and owner is not None and o.get("item") == owner.id and "failed precondition" not in lab:
                label = o["label"]
                label_props = o.get("props")
            if o.get("kind") == "repo" and repo_loc is None:
                repo_loc = "%s:%d" % (o["file"], o["line"])
        if owner is not None:
            if label:
                oid = "%s.%s.%s" % (owner.unit, owner.id, label)
            else:
                oid = "%s.%s.safety" % (owner.unit, owner.id)
        else:
            # a lemma or template code
            pl = [l for l, prim, _ in sl if prim] or [l for l, _, _ in sl]
            lm = lemma_at(pl[0]) if pl else None
            if lm is not None and org(pl[0]).get("kind") == "tmpl":
                oid = "%s.lemma.%s" % (lm["unit"], lm["name"])
            else:
                oid = "%s.unattributed" % unit
        if oid not in obl:
            obl[oid] = {"id": oid, "props": ex.unit_props.get(unit, []), "kind": "unattributed", "discharged": True, "text": ""}
        obl[oid]["discharged"] = False
        res.failures.append({"obligation": oid, "props": obl[oid]["props"], "message": msg, "repo_loc": repo_loc,
                             "rendered": d.get("rendered", ""), "clause": obl[oid].get("text", "")})

    if not canary_failed and res.status != "undecided":
        res.status = "undecided"
        res.reason = "must-fail canary `ensures false` was NOT rejected: the unit's context is inconsistent or Verus did not run"
    res.obligations = list(obl.values())
    if res.status == "ok" and res.failures:
        res.status = "failed"
    # vacuity: every extracted fn must show up in verus' per-function breakdown
    if res.status == "ok":
        names = [f.get("function", "").split("::")[-1] for f in res.functions]
        missing = [it.fn_name for it in ex.items if it.is_fn and it.mode == "full" and not it.imported and it.fn_name not in names]
        # functions with trivially-true obligations may be absent from the SMT
        # breakdown; only complain when nothing at all was verified
        if not names or vr.get("verified", 0) == 0:
            res.status = "undecided"
            res.reason = "verus verified zero functions"
        res.missing_in_breakdown = missing
    return res, ex


def run_unit(unit, repo=None, rlimit=30, extra_args=None, variant=None, mutate=None, timeout=900):
    """Verify a unit.  When the only thing Verus rejects inside a function are *proof hints* woven from the template
    (auxiliary `assert`s that help the solver), the verdict on the contract is still open: Verus assumes a failed
    assertion and goes on, so the clauses after it were checked under a false fact.  The unit is therefore verified
    again with exactly those hints neutralised (`assert(true || (..))`): a hint that merely became unnecessary or
    stale after a harmless edit then costs nothing, and a semantic change is reported against the clause of the contract
    that really fails instead of against the hint."""
    res, ex = _run_unit_once(unit, repo, rlimit, extra_args, variant, mutate, timeout)
    if variant == "vacuity":
        return res, ex   # the probes of the vacuity pass are meant to fail
    dropped = []
    for _round in range(4):
        if res.status != "failed" or not res.hint_spans:
            break
        spans = sorted(set(res.hint_spans) | set(dropped), reverse=True)

        def mut(txt, spans=spans):
            if mutate:
                txt = mutate(txt)
            ls = txt.split("\n")
            for (l1, c1, l2, c2) in spans:
                if not (1 <= l1 <= len(ls) and 1 <= l2 <= len(ls)):
                    continue
                if l1 != l2:
                    # multi-line expression: wrap from (l1,c1) to (l2,c2)
                    ls[l2 - 1] = ls[l2 - 1][:c2 - 1] + "))" + ls[l2 - 1][c2 - 1:]
                    ls[l1 - 1] = ls[l1 - 1][:c1 - 1] + "(true || (" + ls[l1 - 1][c1 - 1:]
                else:
                    t = ls[l1 - 1]
                    ls[l1 - 1] = t[:c1 - 1] + "(true || (" + t[c1 - 1:c2 - 1] + "))" + t[c2 - 1:]
            return "\n".join(ls)

        res2, ex2 = _run_unit_once(unit, repo, rlimit, extra_args, (variant + "_nohint") if variant else "nohint", mut, timeout)
        if res2.status == "undecided":
            break   # keep the first verdict
        dropped = spans
        res2.dropped_hints = len(spans)
        res2.wall_s = (res.wall_s or 0) + (res2.wall_s or 0)
        res, ex = res2, ex2
    return res, ex

"""Kani route: contracts / harnesses on the real crate in a scratch copy.

The scratch copy is /repo/sim's *working tree* (rsync, no target dir) plus one
added line per unit:
    #[cfg(any(kani, vx_replay))] #[path = "/verif/units/<u>/kani.rs"] mod vx_kani_<u>;
appended to the module file that owns the private items.  Nothing is edited or
deleted, the compiled function bodies are the repository's.
"""
import os
import re
import shutil
import subprocess
import time

from .weave import VERIF

SCRATCH_ROOT = "/var/tmp"
KANI_TARGET = os.path.join(VERIF, "build", "kani-target")
REPLAY_TARGET = os.path.join(VERIF, "build", "replay-target")
REPO = os.environ.get("VX_REPO", "/repo")

HDR_RX = re.compile(r"^//#\s*(.*)$")


def parse_harnesses(unit):
    """read units/<unit>/kani.rs: `//# id=.. props=.. kind=.. pair=..` before each harness fn"""
    path = os.path.join(VERIF, "units", unit, "kani.rs")
    res = []
    meta = None
    for ln in open(path):
        m = HDR_RX.match(ln.strip())
        if m and "id=" in m.group(1):
            meta = dict(kv.split("=", 1) for kv in m.group(1).split() if "=" in kv)
            continue
        fm = re.match(r"\s*(?:pub\s+)?fn\s+(h_\w+)\s*\(", ln)
        if fm and meta is not None:
            res.append({
                "unit": unit,
                "harness": fm.group(1),
                "id": "%s.kani.%s" % (unit, meta.get("id", fm.group(1))),
                "props": [p for p in meta.get("props", "").split(",") if p],
                "kind": meta.get("kind", "complete"),
                "bound": meta.get("bound", ""),
                "pair": [p for p in meta.get("pair", "").split(",") if p],
                "tier": meta.get("tier", "quick"),
                "features": meta.get("features", ""),
                "known": meta.get("known", ""),
                "fns": [x for x in meta.get("fns", "").split("+") if x],
            })
            meta = None
    return res


class Scratch:
    def __init__(self, groups):
        self.groups = groups
        self.dir = None

    def __enter__(self):
        self.dir = os.path.join(SCRATCH_ROOT, "vx-scratch-%d-%d" % (os.getpid(), int(time.time() * 1000) % 1000000))
        os.makedirs(self.dir)
        subprocess.run(["rsync", "-a", "--exclude", "target", "--exclude", "perf.data*", "--exclude", "flamegraph.svg",
                        "--exclude", "profile.perf", os.path.join(REPO, "sim") + "/", os.path.join(self.dir, "sim") + "/"], check=True)
        for g in self.groups:
            f = os.path.join(self.dir, "sim", g["inject"])
            if not os.path.exists(f):
                raise FileNotFoundError("lost anchor: %s" % g["inject"])
            with open(f, "a") as fh:
                fh.write('\n#[cfg(any(kani, vx_replay))] #[path = "%s"] mod vx_kani_%s;\n' % (
                    os.path.join(VERIF, "units", g["unit"], "kani.rs"), g["unit"]))
        return self

    def __exit__(self, *a):
        if self.dir and os.path.isdir(self.dir):
            shutil.rmtree(self.dir, ignore_errors=True)

    def crate_dir(self, crate):
        return os.path.join(self.dir, "sim", crate)


def _env():
    e = dict(os.environ)
    e["CARGO_NET_OFFLINE"] = "true"
    e["CARGO_TARGET_DIR"] = KANI_TARGET
    e.pop("RUSTFLAGS", None)
    return e


MEM_KB = 24 * 1024 * 1024


def _run_kani(cwd, harnesses, extra, timeout, log):
    cmd = ["cargo", "kani"]
    for h in harnesses:
        cmd += ["--harness", h]
    cmd += extra
    shell = "ulimit -v %d; exec %s" % (MEM_KB * max(1, min(8, len(harnesses))), " ".join("'%s'" % c for c in cmd))
    # own process group, so that a timeout kills cargo-kani AND every cbmc it spawned (orphans kept running for hours otherwise)
    proc = subprocess.Popen(["bash", "-c", shell], cwd=cwd, env=_env(), stdout=subprocess.PIPE, stderr=subprocess.PIPE, text=True, start_new_session=True)
    try:
        so, se = proc.communicate(timeout=timeout)
        out = so + "\n" + se
        rc = proc.returncode
    except subprocess.TimeoutExpired:
        import signal
        try:
            os.killpg(proc.pid, signal.SIGKILL)
        except ProcessLookupError:
            pass
        so, se = proc.communicate()
        out = (so or "") + "\n" + (se or "") + "\nTIMEOUT"
        rc = -9
    with open(log, "w") as f:
        f.write(out)
    return rc, out, " ".join(cmd)


def parse_results(out, wanted):
    """returns {harness: {'status': 'ok'|'failed'|'unknown', 'detail': str, 'time': float}}"""
    res = {h: {"status": "unknown", "detail": "", "time": None, "covers": None} for h in wanted}
    # thread-tagged (with -j) or sequential output
    cur = {}
    blocks = {}
    last_h = None
    tid = None
    for ln in out.split("\n"):
        m = re.match(r"(?:Thread (\d+): )?Checking harness (\S+?)\.\.\.", ln)
        if m:
            t = m.group(1) or "0"
            h = m.group(2).split("::")[-1]
            cur[t] = h
            blocks.setdefault(h, [])
            last_h = h
            tid = t if m.group(1) else None
            continue
        m = re.match(r"Thread (\d+):\s*$", ln)
        if m:
            last_h = cur.get(m.group(1))
            continue
        if last_h:
            blocks[last_h].append(ln)
            if ln.startswith("Verification Time:") and tid is None:
                pass
    for h, bl in blocks.items():
        if h not in res:
            continue
        txt = "\n".join(bl)
        if "VERIFICATION:- SUCCESSFUL" in txt:
            res[h]["status"] = "ok"
        elif "VERIFICATION:- FAILED" in txt:
            res[h]["status"] = "failed"
            fm = re.search(r"Failed Checks:.*?(?=\nVERIFICATION)", txt, re.S)
            res[h]["detail"] = fm.group(0).strip() if fm else txt[-1500:]
        tm = re.search(r"Verification Time: ([\d.]+)s", txt)
        if tm:
            res[h]["time"] = float(tm.group(1))
        cm = re.search(r"\*\* (\d+) of (\d+) cover properties satisfied", txt)
        if cm:
            res[h]["covers"] = (int(cm.group(1)), int(cm.group(2)))
        if "unwinding assertion" in res[h]["detail"] and res[h]["status"] == "failed":
            only_unwind = all("unwinding assertion" in l for l in res[h]["detail"].split("\n") if l.startswith("Failed Checks:"))
            if only_unwind:
                res[h]["status"] = "unknown"
                res[h]["detail"] = "unwinding bound too small: " + res[h]["detail"]
    return res


def run_group(pid, groups, tier, only=None, known_ids=()):
    """run all harnesses serving property `pid`"""
    t0 = time.time()
    res = {"status": "ok", "reason": "", "obligations": [], "failures": [], "trusted": [], "bounded": [], "harness_times": [], "cmd": ""}
    hs = []
    scen = []
    for g in groups:
        for h in parse_harnesses(g["unit"]):
            if pid not in h["props"]:
                continue
            if h["tier"] == "thorough" and tier != "thorough":
                continue
            if h["kind"] == "witness" and not (only and h["harness"] in only):
                continue
            if only and h["harness"] not in only:
                continue
            h["crate"] = g.get("crate", "elvis-core")
            h["features"] = h["features"] or g.get("features", "")
            if h["kind"] == "scenario":
                scen.append(h)
            else:
                hs.append(h)
    if not hs and not scen:
        return res
    os.makedirs(os.path.join(VERIF, "build"), exist_ok=True)
    try:
        with Scratch(groups) as sc:
            # group by (crate, features)
            buckets = {}
            for h in hs:
                buckets.setdefault((h["crate"], h["features"]), []).append(h)
            # kind=scenario: BOUNDED scenarios for clauses no contract expresses (two-endpoint composition, bounded liveness);
            # plain tests on the repository's code (its own toolchain), listed under `bounded`, never counted as proved
            for h in scen:
                ts = time.time()
                failed, out = replay_on_real_code(sc, h, "", run_timeout=300)
                ob = {"id": h["id"], "props": h["props"], "kind": "bounded-scenario", "discharged": not failed,
                      "text": "scenario %s (bounded: %s)" % (h["harness"], h["bound"])}
                if "replay timed out" in out or "error: could not compile" in out or "error[E" in out:
                    res["status"] = "undecided"
                    res["reason"] = "scenario %s could not be built / run: %s" % (h["harness"], out[-300:])
                    continue
                res["obligations"].append(ob)
                res["bounded"].append({"harness": h["harness"], "bound": h["bound"]})
                res["harness_times"].append({"harness": h["harness"], "s": round(time.time() - ts, 1), "status": "failed" if failed else "ok"})
                res["cmd"] = (res["cmd"] + " ; " if res["cmd"] else "") + "RUSTFLAGS='--cfg vx_replay' cargo test --offline --lib -p %s vx_kani_%s::%s" % (h["crate"], h["unit"], h["harness"])
                if failed:
                    res["failures"].append({"obligation": h["id"], "props": h["props"], "message": "bounded scenario fails on the real code: " + _panic_text(out)[:500],
                                            "rendered": out[-3000:], "repo_loc": None, "clause": ob["text"], "harness": h, "replayed": True,
                                            "cex": [{"check": "scenario", "description": "bounded scenario %s" % h["harness"], "hex": "", "replay_output": out[-3000:], "replay_failed_on_real_code": True}]})
            for (crate, feats), bh in buckets.items():
                names = [h["harness"] for h in bh]
                extra = ["-Z", "function-contracts", "-Z", "stubbing", "--output-format=terse", "-j", "8"]
                if feats:
                    extra += ["--features", feats]
                log = os.path.join(VERIF, "build", "kani-%s-%s%s.log" % (pid, crate, ("-" + feats) if feats else ""))
                rc, out, cmd = _run_kani(sc.crate_dir(crate), names, extra, 1500 if tier == "quick" else 3600, log)
                res["cmd"] = (res["cmd"] + " ; " if res["cmd"] else "") + cmd
                pr = parse_results(out, names)
                if "error: could not compile" in out or "error[E" in out:
                    res["status"] = "undecided"
                    em = re.findall(r"error(?:\[E\d+\])?:.*", out)
                    res["reason"] = "kani build failed: " + "; ".join(em[:4])
                for h in bh:
                    r = pr[h["harness"]]
                    if r["status"] == "unknown" and h["tier"] == "thorough" and "error" not in out.lower().split("timeout")[0][-2000:]:
                        # a thorough-only harness that did not finish inside the cap: not explored (listed as such), neither
                        # a violation nor counted as discharged; the quick-tier obligations decide the exit code
                        res.setdefault("unexplored", []).append({"harness": h["harness"], "id": h["id"], "reason": "no verdict within the time / memory cap"})
                        res["harness_times"].append({"harness": h["harness"], "s": r["time"], "status": "unexplored"})
                        continue
                    ob = {"id": h["id"], "props": h["props"], "kind": "kani-" + h["kind"], "discharged": r["status"] == "ok",
                          "text": "harness %s (%s%s)" % (h["harness"], h["kind"], (", bound: " + h["bound"]) if h["bound"] else "")}
                    res["obligations"].append(ob)
                    res["harness_times"].append({"harness": h["harness"], "s": r["time"], "status": r["status"]})
                    for fnn in h.get("fns", []):
                        res.setdefault("functions", []).append({"unit": h["unit"], "fn": fnn, "harness": h["harness"], "mode": "kani-" + h["kind"] + "-harness"})
                    if h["kind"] == "bounded":
                        res["bounded"].append({"harness": h["harness"], "bound": h["bound"]})
                    if r["covers"] and r["covers"][0] != r["covers"][1]:
                        res["status"] = "undecided"
                        res["reason"] = "harness %s: cover not satisfied (vacuous assumption?)" % h["harness"]
                    if r["status"] == "failed":
                        fail = {"obligation": h["id"], "props": h["props"], "message": "kani: " + r["detail"].split("\n")[0],
                                "rendered": r["detail"], "repo_loc": None, "clause": ob["text"], "harness": h, "replayed": False}
                        if h["id"] in known_ids:
                            fail["cex"] = []
                            res["failures"].append(fail)
                            continue
                        # counterexample + replay on the real code
                        cex = concrete_playback(sc, h)
                        fail["cex"] = cex
                        if cex:
                            for c in cex:
                                ok, rout = replay_on_real_code(sc, h, c["hex"])
                                c["replay_output"] = rout[-3000:]
                                c["replay_failed_on_real_code"] = ok
                                if ok:
                                    fail["replayed"] = True
                                    break
                        res["failures"].append(fail)
                    elif r["status"] == "unknown":
                        res["status"] = "undecided"
                        res["reason"] = "harness %s gave no verdict (timeout / memory cap / unwinding): %s" % (h["harness"], r["detail"][:300])
    except FileNotFoundError as e:
        res["status"] = "undecided"
        res["reason"] = str(e)
    res["wall_s"] = round(time.time() - t0, 1)
    res["trusted"].append("kani: CBMC bit-precise semantics of the compiled MIR; harness-side reference computations in units/*/kani.rs are part of the specification")
    return res


def concrete_playback(sc, h, timeout=900):
    extra = ["-Z", "function-contracts", "-Z", "stubbing", "-Z", "concrete-playback", "--concrete-playback=print"]
    if h.get("features"):
        extra += ["--features", h["features"]]
    log = os.path.join(VERIF, "build", "kani-cex-%s.log" % h["harness"])
    rc, out, cmd = _run_kani(sc.crate_dir(h["crate"]), [h["harness"]], extra, timeout, log)
    tests = []
    for m in re.finditer(r"/// Check for `(\w+)`: (.*?)\n.*?let concrete_vals: Vec<Vec<u8>> = vec!\[(.*?)\];\s*\n\s*kani::concrete_playback_run", out, re.S):
        kind, desc, body = m.group(1), m.group(2), m.group(3)
        vals = []
        for vm in re.finditer(r"vec!\[([\d,\s]*)\]", body):
            vals.append([int(x) for x in vm.group(1).replace(" ", "").split(",") if x])
        hexs = "".join("%02x" % b for v in vals for b in v)
        tests.append({"check": kind, "description": desc.strip(), "concrete_vals": vals, "hex": hexs})
    tests.sort(key=lambda t: t["check"] == "cover")
    return tests


def _panic_text(out):
    ls = out.split("\n")
    keep = []
    for i, l in enumerate(ls):
        if "panicked at" in l:
            keep += [x.strip() for x in ls[i:i + 4] if x.strip() and not x.startswith("note:")]
    return " ".join(keep)


def replay_on_real_code(sc, h, hexvals, timeout=1800, run_timeout=None):
    """run the same harness body as a plain #[test] with the repository's own
    toolchain; True when it fails (= violation confirmed on the real code)"""
    env = dict(os.environ)
    env["CARGO_TARGET_DIR"] = REPLAY_TARGET
    env["RUSTFLAGS"] = "--cfg vx_replay"
    env["VX_REPLAY_VALS"] = hexvals
    env["CARGO_NET_OFFLINE"] = "true"
    cmd = ["cargo", "test", "--offline", "--lib", "-p", h["crate"]]
    if h.get("features"):
        cmd += ["--features", h["features"]]
    if run_timeout:
        # build first (long timeout), so that run_timeout bounds the test itself
        try:
            subprocess.run(cmd + ["--no-run"], cwd=os.path.join(sc.dir, "sim"), env=env, capture_output=True, text=True, timeout=timeout)
        except subprocess.TimeoutExpired:
            return False, "replay timed out"
        timeout = run_timeout
    cmd += ["vx_kani_%s::%s" % (h["unit"], h["harness"]), "--", "--nocapture", "--test-threads", "1"]
    try:
        p = subprocess.run(cmd, cwd=os.path.join(sc.dir, "sim"), env=env, capture_output=True, text=True, timeout=timeout)
    except subprocess.TimeoutExpired:
        return False, "replay timed out"
    out = p.stdout + "\n" + p.stderr
    out = "\n".join(l for l in out.split("\n") if not l.startswith("warning") and not re.match(r"^\s*(\||-->|=|\d+ \|)", l) and l.strip())
    failed = ("test result: FAILED" in out) or ("panicked at" in out and "FAILED" in out)
    ran = re.search(r"running 1 test", out) is not None
    if "assumption not met" in out:
        return False, out
    return (failed and ran), out

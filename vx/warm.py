"""pre-build the dependency graph of elvis-core for Kani and for replay (target dirs under /verif/build)"""
import os, subprocess
from . import kani
from .props import PROPS
def main():
    groups = []
    for P in PROPS.values():
        for g in P.get("kani", []):
            if g not in groups:
                groups.append(g)
    if not groups:
        return
    with kani.Scratch(groups[:1]) as sc:
        h = kani.parse_harnesses(groups[0]["unit"])[0]
        kani._run_kani(sc.crate_dir("elvis-core"), [h["harness"]], ["--output-format=terse"], 1800, os.path.join(kani.VERIF, "build", "warm.log"))
    # the replay / scenario target (plain tests under --cfg vx_replay, repository toolchain): the bounded scenarios of the
    # TCP checks run in every check, so their dependency build is paid here
    tcb = [g for g in groups if g["unit"] == "tcb"]
    if tcb:
        with kani.Scratch(tcb) as sc:
            env = dict(os.environ, CARGO_TARGET_DIR=kani.REPLAY_TARGET, RUSTFLAGS="--cfg vx_replay", CARGO_NET_OFFLINE="true")
            subprocess.run(["cargo", "test", "--offline", "--lib", "-p", "elvis-core", "--no-run"], cwd=os.path.join(sc.dir, "sim"), env=env, capture_output=True, text=True, timeout=1800)
main()

"""pre-build the dependency graph of elvis-core for Kani and for replay (target dirs under /verif/build)"""
import os, subprocess
from . import kani
from .props import PROPS
def main():
    groups = []
    for P in PROPS.values():
        for g in P.get("kani", []):
            if g not in groups:
                groups.append(g)
    if not groups:
        return
    with kani.Scratch(groups[:1]) as sc:
        h = kani.parse_harnesses(groups[0]["unit"])[0]
        kani._run_kani(sc.crate_dir("elvis-core"), [h["harness"]], ["--output-format=terse"], 1800, os.path.join(kani.VERIF, "build", "warm.log"))
main()

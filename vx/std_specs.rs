// Assumed specifications of core/std functions that vstd does not cover.
// Each is an ASSUMPTION (listed in every evidence file that uses it).
verus! {
pub assume_specification<T, E, F> [core::result::Result::<T, E>::or] (a: Result<T, E>, b: Result<T, F>) -> (r: Result<T, F>)
    where E: core::marker::Destruct, F: core::marker::Destruct, T: core::marker::Destruct,
    ensures r == (match a { Ok(v) => Ok::<T, F>(v), Err(_) => b });

pub assume_specification<Idx> [core::ops::RangeInclusive::<Idx>::start] (r: &core::ops::RangeInclusive<Idx>) -> (s: &Idx)
    ensures *s == r@.start;
pub assume_specification<Idx> [core::ops::RangeInclusive::<Idx>::end] (r: &core::ops::RangeInclusive<Idx>) -> (s: &Idx)
    ensures *s == r@.end;
} // verus!

// Shared by every units/<unit>/kani.rs (not repository code).
//
// Under `cfg(kani)` the harness inputs are symbolic (`kani::any()`); under
// `cfg(vx_replay)` exactly the same harness body runs as a plain `#[test]` on
// the repository's own toolchain and reads the concrete values Kani printed
// (`--concrete-playback=print`) from the environment variable VX_REPLAY_VALS
// (hex bytes, little endian, in `kani::any()` call order).
#![allow(dead_code, unused_macros, unused_imports)]

#[cfg(vx_replay)]
pub mod feed {
    use std::cell::RefCell;
    thread_local! {
        static BYTES: RefCell<(Vec<u8>, usize)> = RefCell::new((load(), 0));
    }
    fn load() -> Vec<u8> {
        let s = std::env::var("VX_REPLAY_VALS").unwrap_or_default();
        let s: Vec<u8> = s.bytes().filter(|c| c.is_ascii_hexdigit()).collect();
        s.chunks(2)
            .map(|p| u8::from_str_radix(std::str::from_utf8(p).unwrap(), 16).unwrap())
            .collect()
    }
    pub fn take(n: usize) -> Vec<u8> {
        BYTES.with(|b| {
            let mut b = b.borrow_mut();
            let (ref v, ref mut pos) = *b;
            let mut out = vec![0u8; n];
            for i in 0..n {
                if *pos < v.len() {
                    out[i] = v[*pos];
                    *pos += 1;
                }
            }
            out
        })
    }
}

pub trait VxAny: Sized {
    fn vx_any() -> Self;
}

macro_rules! vx_int {
    ($($t:ty),*) => {$(
        impl VxAny for $t {
            #[cfg(kani)]
            fn vx_any() -> Self { kani::any() }
            #[cfg(vx_replay)]
            fn vx_any() -> Self {
                let b = feed::take(std::mem::size_of::<$t>());
                let mut a = [0u8; std::mem::size_of::<$t>()];
                a.copy_from_slice(&b);
                <$t>::from_le_bytes(a)
            }
        }
    )*};
}
vx_int!(u8, u16, u32, u64, usize, i8, i16, i32, i64);

impl VxAny for bool {
    #[cfg(kani)]
    fn vx_any() -> Self { kani::any() }
    #[cfg(vx_replay)]
    fn vx_any() -> Self { feed::take(1)[0] != 0 }
}

impl<const N: usize> VxAny for [u8; N] {
    #[cfg(kani)]
    fn vx_any() -> Self { kani::any() }
    #[cfg(vx_replay)]
    fn vx_any() -> Self {
        let b = feed::take(N);
        let mut a = [0u8; N];
        a.copy_from_slice(&b);
        a
    }
}

pub fn any<T: VxAny>() -> T { T::vx_any() }

#[cfg(kani)]
macro_rules! vx_assume { ($c:expr) => { kani::assume($c) }; }
#[cfg(vx_replay)]
macro_rules! vx_assume { ($c:expr) => { if !($c) { println!("vx_replay: assumption not met, input outside the harness domain"); return; } }; }
#[cfg(kani)]
macro_rules! vx_cover { ($c:expr) => { kani::cover!($c) }; }
#[cfg(vx_replay)]
macro_rules! vx_cover { ($c:expr) => { let _ = $c; }; }
pub(crate) use vx_assume;
pub(crate) use vx_cover;

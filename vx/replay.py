"""Replay files: what failed, the verifier's output, and (where a concrete
counterexample exists) the input that fails on the real code."""
import json
import os
import re
import time

from .weave import VERIF
from .props import PROPS

REPLAYS = os.path.join(VERIF, "replays")


def _safe(s):
    return re.sub(r"[^\w.\-]", "_", s)


def write(pid, f, results, kres):
    """f: failure dict (from verus or kani).  Tries to attach a concrete
    counterexample from the paired Kani harness; sets f['replayed']."""
    from . import kani
    P = PROPS[pid]
    doc = {
        "property": pid,
        "obligation": f["obligation"],
        "backend": f.get("backend"),
        "clause": f.get("clause"),
        "message": f["message"],
        "repo_location": f.get("repo_loc"),
        "verifier_output": f.get("rendered", ""),
        "created": time.strftime("%Y-%m-%dT%H:%M:%S"),
        "counterexample": None,
        "replayed_on_real_code": False,
    }
    if f.get("backend") == "bounded-scenario":
        doc["counterexample"] = {k: v for k, v in f["scenario"].items() if k != "harness"}
        doc["harness"] = f["scenario"]["harness"]
        doc["replayed_on_real_code"] = True
        doc["bounded"] = "scenario witness (one concrete call sequence); the unit itself is undecided"
    elif f.get("backend") == "kani":
        cex = f.get("cex") or []
        for c in cex:
            if c.get("replay_failed_on_real_code"):
                doc["counterexample"] = c
                doc["replayed_on_real_code"] = True
                doc["harness"] = {k: f["harness"][k] for k in ("unit", "harness", "crate", "features")}
                break
        if not doc["replayed_on_real_code"] and cex:
            doc["counterexample"] = cex[0]
            doc["harness"] = {k: f["harness"][k] for k in ("unit", "harness", "crate", "features")}
    else:
        # verus failure: look for a paired Kani harness
        paired = None
        if kres is not None:
            for kf in kres.get("failures", []):
                if f["obligation"] in kf["harness"].get("pair", []):
                    paired = kf
                    break
        if paired is None and P.get("kani"):
            hs = []
            for g in P["kani"]:
                for h in kani.parse_harnesses(g["unit"]):
                    if f["obligation"] not in h["pair"]:
                        continue
                    if h["kind"] == "witness":
                        # a prepared concrete call sequence (plain #[test] under --cfg vx_replay): run it on the real code
                        h["crate"] = g.get("crate", "elvis-core")
                        h["features"] = h["features"] or g.get("features", "")
                        if doc["replayed_on_real_code"]:
                            continue
                        try:
                            with kani.Scratch([g]) as sc:
                                failed, out = kani.replay_on_real_code(sc, h, "")
                        except FileNotFoundError:
                            failed, out = False, ""
                        if failed:
                            doc["counterexample"] = {"check": "witness", "description": "prepared call sequence %s (units/%s/kani.rs) fails on the real code" % (h["harness"], h["unit"]),
                                                     "hex": "", "replay_output": out[-3000:], "replay_failed_on_real_code": True}
                            doc["replayed_on_real_code"] = True
                            doc["harness"] = {k: h[k] for k in ("unit", "harness", "crate", "features")}
                    else:
                        hs.append(h["harness"])
            if hs and not doc["replayed_on_real_code"]:
                r = kani.run_group(pid, P["kani"], "thorough", only=hs)
                for kf in r.get("failures", []):
                    paired = kf
                    break
        if paired is not None:
            for c in paired.get("cex") or []:
                if c.get("replay_failed_on_real_code"):
                    doc["counterexample"] = c
                    doc["replayed_on_real_code"] = True
                    doc["harness"] = {k: paired["harness"][k] for k in ("unit", "harness", "crate", "features")}
                    doc["paired_kani_failure"] = paired["rendered"]
                    break
    f["replayed"] = doc["replayed_on_real_code"]
    if not doc["replayed_on_real_code"]:
        doc["note"] = "no-failing-input-found: the deductive verifier gives no model; the obligation named above was discharged on the unchanged tree and is rejected now"
    os.makedirs(REPLAYS, exist_ok=True)
    path = os.path.join(REPLAYS, "%s-%s.json" % (pid, _safe(f["obligation"])))
    with open(path, "w") as fh:
        json.dump(doc, fh, indent=1)
    return path


def run(pid, path):
    """./check <pid> --replay <path>: re-run exactly the failing step"""
    from . import kani, verus
    doc = json.load(open(path))
    P = PROPS[pid]
    if doc.get("replayed_on_real_code") and doc.get("harness"):
        h = doc["harness"]
        groups = [g for g in P.get("kani", []) if g["unit"] == h["unit"]]
        with kani.Scratch(groups) as sc:
            failed, out = kani.replay_on_real_code(sc, h, doc["counterexample"]["hex"])
        print(out[-3000:])
        if failed:
            print("VIOLATION property=%s replay=%s" % (pid, path))
            return 1
        print("replay: the recorded input no longer fails")
        return 0
    # verus obligation: re-verify the owning unit and look the obligation up
    unit = doc["obligation"].split(".")[0]
    if doc.get("backend") == "kani":
        h = None
        for g in P.get("kani", []):
            for hh in kani.parse_harnesses(g["unit"]):
                if hh["id"] == doc["obligation"]:
                    h = hh
        if h is None:
            print("replay: harness for %s not found" % doc["obligation"])
            return 2
        r = kani.run_group(pid, P["kani"], "thorough", only=[h["harness"]])
        bad = [f for f in r["failures"] if f["obligation"] == doc["obligation"]]
        if bad:
            print(bad[0]["rendered"])
            print("VIOLATION property=%s replay=%s%s" % (pid, path, "" if bad[0].get("replayed") else " no-failing-input-found"))
            return 1
        print("replay: obligation %s is discharged now" % doc["obligation"])
        return 0 if r["status"] == "ok" else 2
    res, _ = verus.run_unit(unit)
    if res.status == "undecided":
        print("UNDECIDED %s" % res.reason)
        return 2
    bad = [f for f in res.failures if f["obligation"] == doc["obligation"]]
    if bad:
        print(bad[0]["rendered"])
        print("VIOLATION property=%s replay=%s no-failing-input-found" % (pid, path))
        return 1
    print("replay: obligation %s is discharged now" % doc["obligation"])
    return 0

"""python3 -m vx.witness <unit> <inject-file> [harness...] — run the kind=witness harnesses of a unit on the real code"""
import sys
from . import kani
def main():
    unit, inject = sys.argv[1], sys.argv[2]
    only = sys.argv[3:]
    crate = "elvis" if inject.startswith("elvis/") else "elvis-core"
    g = {"unit": unit, "inject": inject, "crate": crate}
    with kani.Scratch([g]) as sc:
        for h in kani.parse_harnesses(unit):
            if h["kind"] not in ("witness", "scenario") or (only and h["harness"] not in only):
                continue
            h["crate"] = crate
            failed, out = kani.replay_on_real_code(sc, h, "")
            print("=====", h["harness"], "FAILS on the real code" if failed else "passes")
            print("\n".join(l for l in out.split("\n") if "panicked" in l or "octets" in l or "seed" in l or "assertion" in l or "left:" in l or "right:" in l or "test result" in l or "error" in l.lower())[:1500])
main()

"""python3 -m vx.genmanifest — writes MANIFEST.json from vx/props.py + vx/na.py"""
import json, os
from .props import PROPS
from .na import NOT_APPLICABLE
from .weave import VERIF

def main():
    checks = []
    for pid in sorted(PROPS):
        P = PROPS[pid]
        checks.append({
            "property_id": pid,
            "quick_cmd": "./check %s --tier quick" % pid,
            "thorough_cmd": "./check %s --tier thorough" % pid,
            "evidence_file": "evidence/%s.json" % pid,
            "replay_cmd_template": "./check %s --replay {path}" % pid,
            "engine": "vx",
            "level_claimed": {"category": P.get("level", "proof"), "text": P["level_text"], "design_ref": P.get("design_ref", "DESIGN.md §5 " + pid)},
            "level_note": P["level_note"],
            "technique": P["technique"],
        })
    m = {
        "version": 1,
        "setup_cmd": "./setup.sh",
        "hooks": {
            "guard": "kani / vx_replay (cfg flags set only inside the scratch copy the checks make; no hook is committed to /repo)",
            "enable": "checks rsync /repo/sim's working tree to /var/tmp, append `#[cfg(any(kani, vx_replay))] #[path=/verif/units/<u>/kani.rs] mod vx_kani_<u>;` to the owning module file (add-only) and run cargo kani / RUSTFLAGS='--cfg vx_replay' cargo test there; Verus units are extracted from /repo's working tree on every run",
            "baseline_off_cmd": "cd /repo/sim && cargo nextest run --workspace --no-fail-fast --offline || cargo test --workspace --no-fail-fast --offline",
            "source_commits": [],
            "add_only": True,
        },
        "engines": [{"name": "vx", "path": "vx/", "serves_properties": sorted(PROPS), "kind_free_text": "contract weaving on mechanically extracted real functions + Verus; Kani function harnesses on the real crate; replay of Kani counterexamples on the real code"}],
        "checks": checks,
        "not_applicable": [{"property_id": k, "reason": v} for k, v in sorted(NOT_APPLICABLE.items()) if k not in PROPS],
        "notes": "exit 0 = all obligations discharged; exit 1 = VIOLATION; exit 2 = undecided (lost anchor, unsupported construct, rlimit, tool failure) and is never reported as a violation. See DESIGN.md.",
    }
    with open(os.path.join(VERIF, "MANIFEST.json"), "w") as f:
        json.dump(m, f, indent=1)
        f.write("\n")
main()

"""Property -> units / harness groups.  (The properties themselves are given in
/verif/properties.jsonl and are not edited here.)"""

K_MODCMP = {"unit": "modcmp", "inject": "elvis-core/src/protocols/tcp/tcb/modular_cmp.rs", "crate": "elvis-core"}

PROPS = {
    "C12": {
        "units": ["modcmp"],
        "kani": [K_MODCMP],
        "level": "proof",
        "technique": "Verus contracts on the extracted modular_cmp.rs functions + Kani full-domain harnesses on the real crate",
        "level_text": "Every comparison primitive (mod_lt/leq/gt/geq/mod_bounded, ModCmp::offset) carries an exact postcondition against the mathematical circular order, discharged by Verus for all 2^32 x 2^32 (x 2^32) arguments and re-proved bit-precisely by loop-free Kani harnesses on the compiled crate; translation invariance is a lemma over those contracts.",
        "level_note": "Trusted: Verus/Z3, Kani/CBMC; vstd's specification of u32::wrapping_add/wrapping_sub. The lifting of translation invariance to whole connections rests on the TCB unit (see evidence for which TCB functions carry exact contracts).",
        "assumptions": ["vstd specs of u32::wrapping_add / wrapping_sub"],
        "explanation": "comparison primitives against the mathematical circular order (Verus, all u32 pairs; Kani full-domain twin) and translation invariance lemmas",
    },
}

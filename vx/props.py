"""Property -> units / harness groups.  (The properties themselves are given in
/verif/properties.jsonl and are not edited here.)"""

K_MODCMP = {"unit": "modcmp", "inject": "elvis-core/src/protocols/tcp/tcb/modular_cmp.rs", "crate": "elvis-core"}

K_SUBNET = {"unit": "subnet", "inject": "elvis-core/src/protocols/arp/subnetting.rs", "crate": "elvis-core"}

K_IPTABLE = {"unit": "iptable", "inject": "elvis-core/src/ip_table.rs", "crate": "elvis-core"}

K_MESSAGE = {"unit": "message", "inject": "elvis-core/src/message/slice_range.rs", "crate": "elvis-core"}

K_IPV4HDR = {"unit": "ipv4hdr", "inject": "elvis-core/src/protocols/ipv4/ipv4_parsing.rs", "crate": "elvis-core"}
K_UDPHDR = {"unit": "udphdr", "inject": "elvis-core/src/protocols/udp/udp_parsing.rs", "crate": "elvis-core"}
K_TCPHDR = {"unit": "tcphdr", "inject": "elvis-core/src/protocols/tcp/tcp_parsing.rs", "crate": "elvis-core"}
K_ARP = {"unit": "arp", "inject": "elvis-core/src/protocols/arp/arp_parsing.rs", "crate": "elvis-core"}

K_CHECKSUM = {"unit": "checksum", "inject": "elvis-core/src/protocols/utility.rs", "crate": "elvis-core"}

K_SEGORD = {"unit": "segord", "inject": "elvis-core/src/protocols/tcp/tcb/segment.rs", "crate": "elvis-core"}
K_TCB = {"unit": "tcb", "inject": "elvis-core/src/protocols/tcp/tcb.rs", "crate": "elvis-core"}

TCB_SCEN = " BOUNDED, never counted as proved (DESIGN.md 3.5/3.6): the two-endpoint scenario h_s_two_endpoints (300 pseudo-random histories over a lossy / duplicating / reordering then loss-free network; prefix property, bounded liveness, release after close, send-window check, ISN-relative trace comparison) runs as a plain test on the real Tcb in every check; when a repository change takes a function out of the fragment Verus ingests, the scenario witnesses paired with the unit are run on the real code and one that fails is reported as a violation with that concrete input. "
TCB_NOTE = ("Trusted: Verus/Z3; Message imported by contract (verified in unit message), comparison primitives imported by contract (verified in unit modcmp); "
            "ASSUMED specs: BinaryHeap (new/push/pop/peek), Duration arithmetic wrappers, mem::take/Default (derive(Default) on Message), VecDeque::{get,front,front_mut}, "
            "core::{to,from}_be_bytes wrappers; declared rewrites listed in the evidence (generic Message::slice wrapper inlined, `mut self` builders, empty array iterator, Duration operators). ")

K_BITVEC = {"unit": "bitvec", "inject": "elvis-core/src/protocols/ipv4/reassembly/bitvec.rs", "crate": "elvis-core"}
K_SOCKRECV = {"unit": "sockrecv", "inject": "elvis-core/src/protocols/socket_api/socket.rs", "crate": "elvis-core"}
K_BUFID = {"unit": "bufid", "inject": "elvis-core/src/protocols/ipv4/reassembly/buf_id.rs", "crate": "elvis-core"}
K_DHCP = {"unit": "dhcp", "inject": "elvis-core/src/protocols/dhcp/dhcp_parsing.rs", "crate": "elvis-core"}
K_DNS = {"unit": "dns", "inject": "elvis-core/src/protocols/dns/dns_parsing.rs", "crate": "elvis-core"}
K_FRAG = {"unit": "frag", "inject": "elvis-core/src/protocols/ipv4/fragmentation.rs", "crate": "elvis-core"}
K_REASMMAP = {"unit": "reasmmap", "inject": "elvis-core/src/protocols/ipv4/reassembly.rs", "crate": "elvis-core"}
K_IPGEN = {"unit": "ipgen", "inject": "elvis/src/ip_generator.rs", "crate": "elvis"}
K_ROUTER = {"unit": "router", "inject": "elvis/src/applications/arp_router.rs", "crate": "elvis"}

PROPS = {
    "C02": {
        "units": ["sockrecv", "tcb", "modcmp", "message"],
        "kani": [K_SOCKRECV, K_SEGORD, K_TCB],
        "level": "proof",
        "technique": "Verus contract on the buffer arithmetic of the extracted Socket::recv (loop closed by an inductive invariant) over a ghost queue of pending messages; concrete witnesses replayed on the real async function",
        "level_text": "READ-SIDE SENTENCE ('a read that asks for at most n bytes never returns more than n, and successive reads never lose, duplicate or reorder bytes'): Socket::recv is verified, for every request size, every stored remainder and every queue of pending messages (unbounded number and sizes, arbitrary chunk layouts), to return at most `bytes` bytes and to satisfy  returned ++ pending_after == pending_before, where pending = stored remainder ++ concatenation of the queued messages in delivery order. By induction over calls the concatenation of successive reads is a prefix of what the socket was handed, in order, with nothing lost or duplicated; Socket::recv_msg is verified against the same ghost stream (it takes exactly the stored remainder, else the head message). Hand-over side: SocketSession::receive appends an accepted message at the end of what the socket will be handed (the channel when the socket exists, else the parked queue), and SocketSession::receive_stored_messages - the replay done by accept() - moves the parked messages into the channel in arrival order, each once. Of the first sentence of C02 (what the peer's socket is handed equals what was written) the per-call TCP pieces are included from the TCB unit (the clauses tagged C02: send() appends in order, segments() tiles the submitted text into consecutively numbered segments, the retransmission queue keeps every unacknowledged segment, the receive side appends exactly the text that continues the stream and hands the buffer out once, the reorder heap pops in circular sequence order); their composition across the network, Socket::send's task spawning, TcpSession's instruction queue and tokio schedules are NOT decided.",
        "level_note": "Trusted: Verus/Z3; Message imported by contract (verified in unit message; Message::iter() 'yields exactly the view' is that unit's assumption). The extraction keeps the function body but applies declared rewrites that remove everything asynchronous: `async`, the session/listening check, yield_now, the shutdown subscription; `select!{shutdown, recv}` and `try_recv()` are routed to assumed-contract queue functions (a delivered message is the head of the ghost queue), Vec::extend(iter) to an assumed-contract append; struct Socket is reduced to the three fields recv uses. Hence concurrency (a message arriving or shutdown firing during the call) is modelled only as the nondeterministic outcome of those two functions. Termination of the receive loop is not verified. SocketSession's RwLocks are removed by declared rewrites (&self / Arc<Self> -> &mut self, lock guards -> plain borrows; tokio Sender -> assumed-contract VxSender log), so lock order and concurrent callers (a message arriving between `upstream = Some` and the replay) are not modelled; the failure path of the replay (channel refuses a message: the code drops it and accept() unwraps) carries no clause. Socket::accept itself, Socket::send (tokio::spawn per write), TcpSession ordering and datagram isolation are not under contract. BOUNDED stand-in, never counted as proved (DESIGN.md 3.5): when a repository change takes a function out of the fragment Verus ingests (unit undecided), the model-differential scenario of the unit (the socket scenario witnesses of unit sockrecv and the TCB scenarios) is run on the real code; a failure is reported as a violation with that concrete input, otherwise the check stays undecided (exit 2).",
        "assumptions": ["tokio mpsc delivers queued messages in FIFO order (assumed contract of vx_recv_blocking / vx_try_recv)", "Vec::extend appends exactly what the iterator yields", "cross-stack delivery (first sentence of C02) undecided"],
        "explanation": "bounded reads over the socket's pending byte stream",
    },
    "C15": {
        "units": ["ipgen", "subnet"],
        "kani": [K_IPGEN, K_SUBNET],
        "level": "proof",
        "technique": "Verus contracts on the extracted ip_generator.rs functions against the set-of-available-addresses view (loops closed by inductive invariants), on top of the subnet arithmetic contracts",
        "level_text": "Every IpGenerator operation is verified against the abstraction free(g) = set of addresses covered by some available range: block_range/block_subnet remove exactly the blocked addresses, return_* add exactly the returned ones, fetch_net returns only an aligned network of the requested mask all of whose addresses were available and removes exactly those (so nothing is handed out twice while held), reports None only when no available range holds an aligned network of that size, fetch_ip likewise; constructors new/new_sub/new_sub_no_ends/all/none offer exactly the stated pool. Uniqueness of held addresses over any history of block/fetch/return follows by induction from these per-call equations.",
        "level_note": "Trusted: Verus/Z3 and the subnet unit's assumptions (imported by contract). ASSUMED: BTreeSet::retain specification; vx_ranges (iterating a BTreeSet yields exactly its elements: vstd's iter specification is unusable for a user-defined key); vstd's opaque key_obeys_cmp_spec::<IpRange>() with derive(Ord) on IpRange taken as lexicographic. Declared rewrites: closures annotated with postconditions, `impl From<Ipv4Net> for IpRange` verified as a free function with the precondition net.wf(), iterator adapters -> index loops. NOT decided: the DHCP lease clause (DhcpServer::demux over UDP sessions and locks: async stack); is_available, block_reserved_ips, into_*_iter are not under contract. BOUNDED stand-in, never counted as proved (DESIGN.md 3.5): when a repository change takes a function out of the fragment Verus ingests (unit undecided), the model-differential scenario of the unit (h_w_ipgen_model: 3000 fetch/return/block histories on a /26 pool vs the set of available addresses) is run on the real code; a failure is reported as a violation with that concrete input, otherwise the check stays undecided (exit 2).",
        "assumptions": ["Ipv4Net / Ipv4Mask values satisfy their type invariant wf()", "BTreeSet iteration yields exactly the set's elements"],
        "explanation": "address generator as a set of available addresses",
    },
    "C17": {
        "units": ["tcb", "modcmp", "message"],
        "kani": [K_TCB, K_TCPHDR],
        "level": "proof",
        "technique": "Verus contracts on the extracted tcb.rs functions (inductive per-call step over the TCB invariant), witnesses replayed on the real code",
        "level_text": "Inductive step for arbitrary segments: for every TCB satisfying the invariant and every syntactically valid segment, Tcb::process_segment (the real 330-line function, all nine states, all 64 flag combinations, all sequence/ack/window values) does not panic (every assert!, unwrap, subtraction, cast and slice bound is a discharged obligation), preserves the invariant, never advances SND.NXT, takes the send window only from the peer's advertisement, is inert for segments outside the receive window (RFC 9293 Table 6 as an exact contract on is_seq_ok) and ignores segments with neither SYN nor RST in SYN-SENT.",
        "level_note": TCB_NOTE + TCB_SCEN + "Whole-history clause follows by induction over calls (each call is an arbitrary segment). See evidence for which API functions are under contract.",
        "assumptions": ["segments are syntactically valid: text <= 65515 octets, data offset 5", "segment_arrives hands process_segment only segments not ahead of RCV.NXT (checked in its own contract when under contract)"],
        "explanation": "TCP endpoint robustness as a per-call inductive step",
    },
    "C03": {
        "units": ["tcb", "modcmp", "message"],
        "kani": [K_TCPHDR, K_TCB],
        "level": "proof",
        "technique": "Verus contracts on the extracted tcb.rs functions: RFC 9293 Figure 5 transition relation as a postcondition of every state-changing function",
        "level_text": "Every state-changing TCB function carries the postcondition that (old state, new state, control bits) is an edge (or a two-step edge a single segment can take) of the RFC 9293 state diagram; the TCB is released only by the final ACK in LAST-ACK or by a reset; acceptable text is delivered in ESTABLISHED / FIN-WAIT-1 / FIN-WAIT-2 as far as the buffer has room (data before a close is not lost).",
        "level_note": TCB_NOTE + TCB_SCEN + "NOT decided here (the scenario is no proof): the two-endpoint clause (each side's RCV.NXT equals what the peer has sent), liveness of release under a fair network, Tcp::demux/open/listen session-table behaviour (DashMap/Arc<dyn>/tokio).",
        "assumptions": ["segments are syntactically valid"],
        "explanation": "connection state machine against RFC 9293 Figure 5",
    },
    "C01": {
        "units": ["tcb", "modcmp", "message"],
        "kani": [K_TCPHDR, K_SEGORD, K_TCB],
        "level": "proof",
        "technique": "Verus contracts on the extracted tcb.rs functions: per-call stream-continuity contract on the receive path",
        "level_text": "Receive-side safety as a per-call contract on process_segment: bytes already buffered for the application are never altered; what is appended is exactly the part of the segment text that continues the stream at RCV.NXT; RCV.NXT advances by exactly that many octets (plus one for a consumed FIN); the buffer never exceeds the advertised window; acceptable in-order text is taken as far as there is room. By induction over calls the delivered stream is the concatenation of in-sequence segment texts.",
        "level_note": TCB_NOTE + TCB_SCEN + "NOT decided here (the scenario is no proof): liveness (bounded retransmission rounds, both ends fall silent), the sender-side ghost-stream invariant (every emitted data segment is consistent with the submitted stream) unless the evidence lists Tcb::segments/send under contract with it, and the two-endpoint composition (IRS = peer ISS).",
        "assumptions": ["segments are syntactically valid", "peer segments are consistent with the peer's stream (composition assumption)"],
        "explanation": "TCP receive-path stream continuity",
    },
    "C11": {
        "units": ["reasm", "reasmmap", "message"],
        "kani": [K_BITVEC, K_BUFID, K_REASMMAP],
        "level": "proof",
        "technique": "Verus contracts on the extracted reassembly/{bitvec,fragment,segment}.rs functions; BinaryHeap by assumed specification",
        "level_text": "Per-call reassembly contract on Segment::receive_packet for all fragments and all prior states satisfying the representation invariant: exactly the blocks FO..FO+ceil(len/8) are marked, the final fragment fixes the total length, a datagram is returned exactly when the final fragment has been seen and every block is covered, the returned header is the offset-0 header with total length restored and MF cleared, an incomplete arrival bumps the epoch that guards expiry; PAYLOAD: relative to the datagram d whose slices the buffer holds (ghost parameter), for any arrival order and any exact repetitions of fragments, the pieces stay block-disjoint slices of d and the returned payload equals d byte for byte (tiling lemma over the heap's pop order, permutation lemma for push); BitVec get/set/set_range/range_complete/complete against the set-of-bits view (loops closed by invariants); Fragment order verified. ISOLATION (unit reasmmap): Reassembly::receive_packet, for any table of buffers each holding slices of the datagram its key stands for, leaves every buffer with another key untouched (fragments of different datagrams never mix), keeps that table invariant, passes an unfragmented datagram through and flushes its key, returns for a completed datagram exactly the datagram its key stands for and frees the buffer, and otherwise reports the key and epoch for the expiry timer; BufId::from_header is the RFC 791 (source, destination, protocol, identification) tuple.",
        "level_note": "Trusted: Verus/Z3; ASSUMED specification of std BinaryHeap (new/push/pop: multiset + pop order non-increasing), Ordering::reverse; Message imported by contract (verified in unit message). Declared rewrites: closure in BitVec::complete -> loop, Message::new(vec![]) -> new_inner(Chunk::new(..)), &u8 auto-deref made explicit. NOT under contract: fragments that overlap received blocks only partially (excluded by the precondition: an arriving fragment is a slice of d that is entirely new or an exact repetition), Reassembly::maybe_cull_segment (Entry API match) and timer expiry (tokio). In unit reasmmap the FxHashMap<BufId, Segment> is replaced by an opaque map with ASSUMED std semantics for remove and entry(..).or_insert(..) (declared rewrites); hashing is not modelled (BufId Eq/Hash agreement: Kani harness bufid, equality only). Preconditions: fragments as a conforming fragmenter emits them (ihl = 5, total_length = 20 + |payload|, FO*8 + |payload| + 20 <= 65535), epoch < 65535. BOUNDED stand-in, never counted as proved (DESIGN.md 3.5): when a repository change takes a function out of the fragment Verus ingests (unit undecided), the model-differential scenario of the unit (the reassembly scenario witnesses of units reasm / reasmmap) is run on the real code; a failure is reported as a violation with that concrete input, otherwise the check stays undecided (exit 2).",
        "assumptions": ["BinaryHeap behaves as a max-priority queue (assumed spec)", "fragment headers satisfy frag_hdr_ok"],
        "explanation": "reassembly bookkeeping per RFC 791 p.28 steps (8)-(17)",
    },
    "C18": {
        "units": ["checksum", "udpck", "tcpck", "ipck", "subnet"],
        "kani": [K_CHECKSUM, K_IPV4HDR, K_TCPHDR, K_UDPHDR],
        "level": "proof",
        "technique": "Verus contracts on the extracted compute_checksum variants of Checksum (unbounded payload loop) + RFC 1071 algebra lemmas; Kani complete harnesses on the real crate built with --features compute_checksum",
        "level_text": "The accumulator functions (add_u16/add_u8/add_u32/accumulate_remainder/as_u16, compute_checksum variants) are verified against one's-complement addition with end-around carry for every payload length (loop invariant over an arbitrary byte iterator); lemmas: commutative monoid, the emitted field always verifies, a changed sum is always rejected. UDP (unit udpck, unbounded payload): build_udp_header emits the RFC 768 checksum of pseudo header + header + payload (odd lengths zero padded), UdpHeader::from_bytes_ipv4 accepts exactly the datagrams whose field is that checksum and whose length agrees; lemma: every emitted datagram verifies and is accepted. TCP (unit tcpck, unbounded text): TcpHeaderBuilder::build emits the RFC 1071 checksum over pseudo header, the nine header words and the text; TcpHeader::serialize emits the RFC 9293 layout; TcpHeader::from_bytes accepts exactly the complete option-less segments whose field is that checksum (either representation of zero); lemma: every emitted segment verifies and is accepted. On the compiled crate with the feature on, CBMC proves for all field values that every emitted IPv4 header verifies under RFC 1071 against an independent 32-bit reference, that conforming headers are accepted and non-verifying ones rejected.",
        "level_note": "Trusted: Verus/Z3, Kani/CBMC; assumed spec u16::overflowing_add (validated by Kani); vstd's prophetic iterator spec for Iterator::next; termination of the payload loop not verified. TCP (header-only segments; accept/reject harnesses over all fields, the emit harness BOUNDED to four values each of SEQ and ACK because CBMC gave no verdict in 90 min with both symbolic) and UDP (payload of 0..=3 octets, BOUNDED, all contents) emit/verify over the pseudo header are Kani harnesses against a 32-bit RFC 1071 reference; the unbounded statements are the Verus units udpck / tcpck; for longer payloads the composition is carried by the accumulator contracts + monoid lemmas, not by a whole-codec proof; a Kani twin of the payload loop is bounded (<= 5 bytes) and labelled so.",
        "assumptions": ["compute_checksum build configuration", "payload iterators are finite"],
        "explanation": "RFC 1071 checksum algebra and IPv4 header emit/verify",
    },
    "C14": {
        "units": ["dhcp", "dns"],
        "kani": [K_IPV4HDR, K_UDPHDR, K_TCPHDR, K_ARP, K_DHCP, K_DNS],
        "level": "proof",
        "technique": "Kani full-domain harnesses on the real fixed-size decoders (panic-freedom = every unwrap/index/arith check CBMC generates); Verus on the extracted DHCP decoder and BytesExt readers over an arbitrary byte iterator",
        "level_text": "Decoder clause: for every byte string (all lengths 0..=N+4 of symbolic bytes, symbolic packet_len) the IPv4/UDP/TCP/ARP decoders return a value or an error - CBMC proves every panic site (unwrap, index, arithmetic overflow) unreachable; truncations are always rejected; accepted inputs re-encode without panic. DHCP: DhcpMessage::from_bytes and MessageType::try_from are verified by Verus for an arbitrary (unbounded) byte iterator: every unwrap / unreachable! / `?` is a discharged obligation, a truncated fixed part is rejected, the fixed fields sit at their offsets.",
        "level_note": "Trusted: Kani/CBMC, Verus/Z3; vstd's prophetic iterator specification; String::from_utf8 assumed total; BytesExt::next_ipv4addr by assumed contract. DNS: DnsMessage::from_bytes and DnsQuestion::query_name verified likewise. NOT decided: the NDL text parser (nom/&str: outside Verus, CBMC does not scale), and 'a frame that fails to decode is dropped at that layer' (demux glue over DashMap/Arc<dyn Protocol>/tokio). BOUNDED stand-in, never counted as proved (DESIGN.md 3.5): when a repository change takes a function out of the fragment Verus ingests (unit undecided), the model-differential scenario of the unit (h_w_dhcp_decode_model: truncations / corruptions of well-formed DHCP packets and 20000 pseudo-random strings) is run on the real code; a failure is reported as a violation with that concrete input, otherwise the check stays undecided (exit 2).",
        "assumptions": ["decoders read at most the fixed header from the iterator in the default feature set (accumulate_remainder is a no-op)"],
        "explanation": "decoder panic-freedom",
    },
    "C08": {
        "units": ["dhcp", "dns", "ipck", "subnet", "checksum"],
        "kani": [K_IPV4HDR, K_UDPHDR, K_TCPHDR, K_ARP, K_DHCP, K_DNS],
        "level": "proof",
        "technique": "Kani full-domain harnesses (loop-free => complete) on the real codec functions: decode/re-encode, encode/decode, RFC wire layout",
        "level_text": "IPv4, UDP, TCP and ARP codecs: for every fixed-size header byte string the decoder accepts, re-encoding reproduces the bytes; for every value the public builders can produce, decoding the encoding returns it; the encoder output equals the RFC 791/768/9293/826 layout written out byte by byte in the harness. DHCP and DNS (variable length, Verus): encoders emit exactly the wire-format specification (dhcp_enc / dns_enc), an accepted input's decoded value re-encodes to the consumed bytes, and decoding anything that starts with the encoding of a representable value x returns x, for unbounded names / RDATA. CBMC explores all inputs (no bound: the code is loop-free in the default feature set; the 2-iteration next_n loop is fully unwound with unwinding assertions).",
        "level_note": "Trusted: Kani/CBMC; the harness-side RFC layouts in units/*/kani.rs are the specification (an 'independent implementation' such as etherparse is not linked). Default feature set (checksum field transmitted as zero); the compute_checksum configuration is C18. DNS/DHCP (Verus, unbounded): String modelled by uninterpreted sbytes/utf8_ok with two assumed std axioms; ghost parameter x and the rebinding of the mut iterator parameter are declared rewrites; BytesExt::next_ipv4addr assumed (validated by a complete Kani harness); Vec::extend(str::as_bytes()) routed to an assumed-contract wrapper. BOUNDED stand-in, never counted as proved (DESIGN.md 3.5): when a repository change takes a function out of the fragment Verus ingests (unit undecided), the model-differential scenario of the unit (h_w_dhcp_decode_model: truncations / corruptions of well-formed DHCP packets and 20000 pseudo-random strings) is run on the real code; a failure is reported as a violation with that concrete input, otherwise the check stays undecided (exit 2).",
        "assumptions": ["'representable header value' = what the public builders/constructors can produce with IHL = data offset = 5"],
        "explanation": "codec round trips and wire formats",
    },
    "C10": {
        "units": ["frag", "message"],
        "kani": [K_FRAG, K_MESSAGE],
        "level": "proof",
        "technique": "Verus contracts on the extracted fragmentation.rs functions (recursive procedure, termination proved) on top of the Message::cut contract",
        "level_text": "fragment() and the recursive Fragmentation::fragment are verified for all headers, payloads (unbounded chunk layouts) and MTUs >= 68 against the recursive specification frags_ok: every piece fits the MTU, pieces are consecutive slices of the payload at the 8-byte-aligned offsets recorded in their headers, MF is set on all but the piece that ends the datagram and that piece carries the datagram's own MF (which is the re-fragmentation clause), all other header fields are preserved; pass-through and DF-discard cases exact; every u16 operation proved free of overflow; termination by decreases |body|.",
        "level_note": "Trusted: Verus/Z3 and the message unit's assumptions (Message::cut is verified there, imported here by contract). Precondition hdr_ok: ihl == 5, total_length == 20 + |payload| (decoder/builders establish both), fragment_offset*8 + |payload| <= 65535. Flag bits above DF/MF are not part of the comparison (the flag byte is 2 bits wide by construction).",
        "assumptions": ["headers satisfy hdr_ok (ihl = 5, total_length consistent with the payload)"],
        "explanation": "fragmentation as a faithful partition",
    },
    "C07": {
        "units": ["message"],
        "kani": [K_MESSAGE],
        "level": "proof",
        "technique": "Verus contracts on the extracted message.rs / chunk.rs / slice_range.rs functions against the byte-sequence view; Kani full-domain harness for the range conversions",
        "level_text": "Every mutating Message operation (new_inner, header_inner, concatenate, slice_inner, cut, remove_front) and Chunk::{new,as_slice,len,is_empty} is verified, for all chunk layouts and all arguments, to act on the denoted byte sequence exactly like the corresponding Vec/slice operation, and to preserve the representation invariant; loops are closed by inductive invariants (unbounded).",
        "level_note": "Trusted: Verus/Z3; assumed specs VecDeque::{front,front_mut}, derive(Clone) on Chunk (vx_chunk_clone); declared rewrites iter_mut->index loop and drain(i..)->truncate(i) in slice_inner. NOT under contract: the generic wrappers new/header/slice (impl Into<..>), the observers iter()/to_vec()/PartialEq/Display (flat_map adapter chain: 'iter() yields exactly the view' is an assumption), From<&str>/From<String>/array From impls of Chunk. Independence of messages sharing storage follows from ownership: no function in the unit has &mut access to Chunk::bytes (Arc<Vec<u8>>), and every contract determines the new view of self / the result only. BOUNDED stand-in, never counted as proved (DESIGN.md 3.5): when a repository change takes a function out of the fragment Verus ingests (unit undecided), the model-differential scenario of the unit (h_w_message_model: 4000 pseudo-random operation histories over messages sharing buffers vs Vec<u8>) is run on the real code; a failure is reported as a violation with that concrete input, otherwise the check stays undecided (exit 2).",
        "assumptions": ["Message::iter()/to_vec()/== observe exactly the view (not verified: iterator adapter chain)", "no code mutates through Arc<Vec<u8>> (no Arc::get_mut/make_mut in the crate)"],
        "explanation": "Message operations vs plain byte vectors",
    },
    "C09": {
        "units": ["subnet", "iptable"],
        "kani": [K_SUBNET, K_IPTABLE],
        "level": "proof",
        "technique": "Verus contracts (bit-vector) on the extracted subnetting.rs / ipv4_address.rs / ip_table.rs functions + Kani full-domain harnesses on the real crate",
        "level_text": "Route lookup: IpTable::get_recipient is verified (Verus, real loop over BTreeMap::iter with vstd's BTreeMap specification) to return the value of the longest-mask network containing the address, None iff none; add/remove/add_direct/remove_direct are Map insert/remove on the abstract view (so order of insertion is irrelevant and adding twice replaces); Obm::cmp is verified against mask-descending-then-id order and shown to be a lawful total order. Mask/network arithmetic: every function of Ipv4Mask / Ipv4Net / Ipv4Address carries a postcondition against the interval [id, broadcast] semantics, discharged by Verus for all inputs and re-proved by loop-free Kani harnesses on the compiled crate.",
        "level_note": "Trusted: Verus/Z3, Kani/CBMC; assumed specs of u32::{to,from}_be_bytes, count_ones, Result::or, RangeInclusive::{start,end,==}, derive(PartialEq/Ord) on the [u8;4]/u32 newtypes (each validated by a Kani h_assume_* harness against real core). vstd's opaque key_obeys_cmp_spec::<Obm>() is assumed (its content - Obm::cmp equals a lawful total order - is proved); IpTable::iter()'s one-line map adapter is inlined by a declared rewrite. add_cidr/remove_cidr/default_gateway and the FromIterator impls are not under contract. CIDR text parsing (std::net::Ipv4Addr::from_str) is not decided. `impl From<(Ipv4Address,Ipv4Mask)> for Ipv4Net` is not under contract. BOUNDED stand-in, never counted as proved (DESIGN.md 3.5): when a repository change takes a function out of the fragment Verus ingests (unit undecided), the model-differential scenario of the unit (h_w_iptable_model: 3000 add/remove/lookup histories vs a linear-scan longest-prefix model) is run on the real code; a failure is reported as a violation with that concrete input, otherwise the check stays undecided (exit 2).",
        "assumptions": ["Ipv4Mask values are only built by from_bitcount/try_from (private field) so mask.wf() is a type invariant", "CIDR text clause undecided"],
        "explanation": "subnet arithmetic contracts; routing-table clause see ip_table obligations",
    },
    "C16": {
        "units": ["router", "ipck", "iptable", "subnet", "message", "checksum"],
        "kani": [K_ROUTER],
        "level": "proof",
        "technique": "Verus contract on the extracted synchronous part of ArpRouter::demux (per-hop forwarding step) on top of the contracts of Ipv4Header::serialize, IpTable::get_recipient and Message::header_inner; the bound on the number of hops is a lemma over that contract",
        "level_text": "PER-HOP CLAUSES of C16, for every header, payload (unbounded, any chunk layout), routing table and router configuration satisfying the configuration invariant: ArpRouter::demux (the real synchronous body) never forwards a datagram that arrives with time-to-live 0 or 1; what it forwards carries the arriving header with the time-to-live decremented by exactly one, every other field as received (checksum recomputed), in front of the unchanged payload; the next hop is the gateway of the longest-prefix route for the destination (the destination itself for a directly attached subnet), on that route's tap slot, from the router's own address on that slot; without a route nothing is forwarded; one call hands on at most one datagram. No panic (TTL arithmetic, slot index, serialisation) for any input. Lemma: since every forwarding strictly decreases the TTL and TTL <= 1 is never forwarded, a datagram with initial TTL t is forwarded by at most t-1 routers on any route, loops included ('dropped after at most its initial time-to-live hops').",
        "level_note": "Trusted: Verus/Z3; Ipv4Header::serialize / Ipv4HeaderBuilder::build verified in unit ipck (compute_checksum configuration; in the default configuration the checksum field is 0 and no other byte differs), IpTable::get_recipient in unit iptable, Message::header_inner in unit message - all imported by contract. Declared rewrites (listed in the evidence) REMOVE everything that is not sequential: the parameters Arc<dyn Session> / Arc<Machine>, Control (TypeId map; replaced by an opaque value whose only observable is the stored Ipv4Header, assumed-contract accessor), and the asynchronous tail tokio::spawn(arp.resolve(..) then send_pci(..)) which is replaced by returning what it is given. NOT decided: that ARP resolves the next hop, that the frame reaches the wire and the destination host ('delivered to the destination and to no other host'), multi-hop composition over a topology other than the TTL bound, that the networks fall silent, the outgoing MTU (the router does not re-fragment), Ipv4::demux/Ipv4Session::receive in front of the router (DashMap / Arc<dyn Protocol>).",
        "assumptions": ["the header in the context is one the IPv4 decoder produced (total_length >= 20, fragment offset <= 0x1fff)", "every route names a tap slot the router has a local address for (configuration invariant)", "ARP / PCI hand-over not modelled"],
        "explanation": "router per-hop forwarding step and TTL bound",
    },
    "C12": {
        "units": ["modcmp", "tcb", "message"],
        "kani": [K_MODCMP, K_SEGORD, K_TCB],
        "level": "proof",
        "technique": "Verus contracts on the extracted modular_cmp.rs functions + Kani full-domain harnesses on the real crate",
        "level_text": "Every comparison primitive (mod_lt/leq/gt/geq/mod_bounded, ModCmp::offset) carries an exact postcondition against the mathematical circular order, discharged by Verus for all 2^32 x 2^32 (x 2^32) arguments and re-proved bit-precisely by loop-free Kani harnesses on the compiled crate; translation invariance is a lemma over those contracts. Connection level: the TCB contracts that determine the observables (text delivered and the movement of RCV.NXT, SND.UNA, SND.NXT, acceptability per RFC 9293 Table 6, the window-update rule, what the retransmission queue keeps, the numbering of new segments, the ISS/IRS bookkeeping of open and listen) are stated exclusively through circular distances and add32/sub32 relative to the TCB's own variables, so they are translation-invariant by form: any body that satisfies them behaves identically under a shift of either ISN on those observables, and a change that compares or subtracts absolute sequence numbers (saturating_sub, <, max) fails the clause for the inputs that straddle the wrap.",
        "level_note": "Trusted: Verus/Z3, Kani/CBMC; vstd's specification of u32::wrapping_add/wrapping_sub. The lifting of translation invariance to whole connections rests on the TCB unit (see evidence for which TCB functions carry exact contracts). BOUNDED stand-in, never counted as proved (DESIGN.md 3.5): when a repository change takes a function out of the fragment Verus ingests (unit undecided), the model-differential scenario of the unit (the TCB scenarios incl. the ISN-relative trace comparison of h_s_two_endpoints, which runs in every check) is run on the real code; a failure is reported as a violation with that concrete input, otherwise the check stays undecided (exit 2).",
        "assumptions": ["vstd specs of u32::wrapping_add / wrapping_sub"],
        "explanation": "comparison primitives against the mathematical circular order (Verus, all u32 pairs; Kani full-domain twin) and translation invariance lemmas",
    },
}

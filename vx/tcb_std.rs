// Shared by the tcb / sockrecv units: ASSUMED specifications of std items that
// vstd does not cover.  Every item here is an assumption listed in the evidence.
verus! {
/// nanoseconds of a Duration (abstract view)
pub uninterp spec fn dur_ns(d: Duration) -> nat;

pub assume_specification [Duration::from_secs] (s: u64) -> (r: Duration)
    ensures dur_ns(r) == s * 1_000_000_000;
pub assume_specification [Duration::from_millis] (ms: u64) -> (r: Duration)
    ensures dur_ns(r) == ms * 1_000_000;

// Operators on Duration: vstd's operator specs cannot be instantiated for a
// std type (orphan rule), so the operator applications are routed - by declared
// rewrites - through these wrappers whose bodies are the real operators.
#[verifier::external_body]
pub fn vx_dur_gt(a: Duration, b: Duration) -> (r: bool)
    ensures r == (dur_ns(a) > dur_ns(b)),
{ a > b }
#[verifier::external_body]
pub fn vx_dur_sub(a: Duration, b: Duration) -> (r: Duration)
    requires dur_ns(a) >= dur_ns(b),   // Duration - Duration panics on underflow
    ensures dur_ns(r) == dur_ns(a) - dur_ns(b),
{ a - b }
#[verifier::external_body]
pub fn vx_dur_mul(a: Duration, k: u32) -> (r: Duration)
    requires dur_ns(a) * k < 18_446_744_073_000_000_000,   // Duration * u32 panics on overflow
    ensures dur_ns(r) == dur_ns(a) * k,
{ a * k }

/// derive(Default) / Default::default(): the value mem::take leaves behind
pub uninterp spec fn is_default<T>(x: T) -> bool;
pub assume_specification<T: Default> [core::mem::take::<T>] (dest: &mut T) -> (r: T)
    ensures r == *old(dest), is_default(*final(dest));

pub assume_specification<T, A: std::alloc::Allocator> [VecDeque::<T, A>::get] (v: &VecDeque<T, A>, i: usize) -> (r: Option<&T>)
    ensures i < v@.len() ==> r == Some(&v@[i as int]), i >= v@.len() ==> r is None, v@.len() <= usize::MAX;
} // verus!

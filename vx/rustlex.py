"""Minimal Rust lexer used to locate items in the real source text.

Nothing here interprets Rust; it only knows enough lexical structure
(comments, string/char literals, lifetimes, raw strings, brackets) to find
an item by name and to match its braces, so that the item's text can be
copied verbatim.
"""
import re


class LostAnchor(Exception):
    pass


def mask(src: str) -> str:
    """Return a string of the same length as `src` in which the contents of
    comments, string literals and char literals are replaced by spaces
    (newlines are kept).  Structural searches run on the mask, text is copied
    from the original."""
    out = list(src)
    n = len(src)
    i = 0

    def blank(a, b):
        for k in range(a, b):
            if out[k] != "\n":
                out[k] = " "

    while i < n:
        c = src[i]
        if c == "/" and i + 1 < n and src[i + 1] == "/":
            j = src.find("\n", i)
            if j < 0:
                j = n
            blank(i, j)
            i = j
        elif c == "/" and i + 1 < n and src[i + 1] == "*":
            depth = 1
            j = i + 2
            while j < n and depth > 0:
                if src.startswith("/*", j):
                    depth += 1
                    j += 2
                elif src.startswith("*/", j):
                    depth -= 1
                    j += 2
                else:
                    j += 1
            blank(i, j)
            i = j
        elif c == '"' or (c == "b" and src.startswith('b"', i)):
            j = i + (2 if c == "b" else 1)
            while j < n and src[j] != '"':
                if src[j] == "\\":
                    j += 1
                j += 1
            blank(i + 1, j)
            i = j + 1
        elif c in "rb" and re.match(r'b?r#*"', src[i:i + 12]) and (i == 0 or not (src[i - 1].isalnum() or src[i - 1] == "_")):
            m = re.match(r'b?r(#*)"', src[i:i + 12])
            hashes = m.group(1)
            close = '"' + hashes
            j = src.find(close, i + m.end())
            if j < 0:
                j = n
            blank(i + 1, j)
            i = j + len(close)
        elif c == "'":
            # char literal or lifetime
            m = re.match(r"'(\\.[^']*|[^'\\])'", src[i:i + 12])
            if m:
                blank(i + 1, i + m.end() - 1)
                i += m.end()
            else:
                i += 1
        else:
            i += 1
    return "".join(out)


OPEN = "([{"
CLOSE = ")]}"


def match_close(msk: str, i: int) -> int:
    """`msk[i]` is an opening bracket; return the index of its partner."""
    depth = 0
    n = len(msk)
    j = i
    while j < n:
        ch = msk[j]
        if ch in OPEN:
            depth += 1
        elif ch in CLOSE:
            depth -= 1
            if depth == 0:
                return j
        j += 1
    raise LostAnchor("unbalanced bracket at offset %d" % i)


def depth_map(msk: str, lo: int, hi: int):
    """brace depth (only {}) of each offset in [lo,hi) relative to lo."""
    d = 0
    res = {}
    for k in range(lo, hi):
        ch = msk[k]
        if ch == "}":
            d -= 1
        res[k] = d
        if ch == "{":
            d += 1
    return res


def _norm(s: str) -> str:
    return re.sub(r"\s+", " ", s.strip())


def _item_header_regex(sel: str):
    """sel is e.g. 'fn cut', 'struct Message', 'enum ModCmp', 'const X',
    'impl Message', 'impl Ord for Segment', 'trait BytesExt', 'mod foo',
    'type X', 'static X', 'use ...'."""
    kind, _, name = sel.partition(" ")
    name = name.strip()
    vis = r"(?:pub(?:\s*\([^)]*\))?\s+)?"
    if kind == "fn":
        return re.compile(r"(?<![\w])" + vis + r"(?:(?:const|async|unsafe|extern\s+\"[^\"]*\")\s+)*fn\s+" + re.escape(name) + r"\b")
    if kind in ("struct", "enum", "trait", "mod", "type", "union"):
        return re.compile(r"(?<![\w])" + vis + r"(?:unsafe\s+)?" + kind + r"\s+" + re.escape(name) + r"\b")
    if kind in ("const", "static"):
        return re.compile(r"(?<![\w])" + vis + kind + r"\s+(?:mut\s+)?" + re.escape(name) + r"\b")
    if kind == "impl":
        return re.compile(r"(?<![\w])(?:unsafe\s+)?impl\b")
    if kind == "use":
        return re.compile(r"(?<![\w])" + vis + r"use\s+" + re.escape(name))
    raise LostAnchor("unknown selector kind %r" % sel)


def _impl_header(msk: str, src: str, start: int):
    """given offset of `impl`, return (normalised header text, offset of '{')."""
    j = start
    n = len(msk)
    pd = 0
    while j < n:
        ch = msk[j]
        if ch in "([":
            pd += 1
        elif ch in ")]":
            pd -= 1
        elif ch == "{" and pd == 0:
            break
        elif ch == ";" and pd == 0:
            return None, j
        j += 1
    hdr = src[start:j]
    hdr = re.sub(r"^(unsafe\s+)?impl\b", "", hdr.strip())
    # drop a where clause
    hdr = re.split(r"\bwhere\b", hdr)[0]
    return _norm(hdr), j


def _strip_generics_prefix(h: str) -> str:
    """'<T: X> Foo<T>' -> 'Foo<T>'"""
    h = h.strip()
    if h.startswith("<"):
        d = 0
        for k, ch in enumerate(h):
            if ch == "<":
                d += 1
            elif ch == ">":
                d -= 1
                if d == 0:
                    return h[k + 1:].strip()
    return h


def find_in(src: str, msk: str, lo: int, hi: int, sel: str, nth: int = 1):
    """Find the nth item matching `sel` whose header starts at brace depth 0
    relative to the region [lo,hi).  Returns (item_start, item_end, body_open)
    where item_start includes preceding attributes / doc comments,
    item_end is one past the closing brace or semicolon, and body_open is the
    offset of the opening brace (or None)."""
    rx = _item_header_regex(sel)
    kind = sel.split(" ", 1)[0]
    want = _norm(sel.split(" ", 1)[1]) if " " in sel else ""
    dm = depth_map(msk, lo, hi)
    count = 0
    for m in rx.finditer(msk, lo, hi):
        if dm.get(m.start(), 1) != 0:
            continue
        # parens depth 0 as well (not inside a signature)
        seg = msk[lo:m.start()]
        if seg.count("(") != seg.count(")"):
            continue
        body_open = None
        if kind == "impl":
            hdr, bo = _impl_header(msk, src, m.start())
            if hdr is None:
                continue
            if _norm(hdr) != want and _norm(_strip_generics_prefix(hdr)) != want:
                continue
            body_open = bo
        count += 1
        if count != nth:
            continue
        start = m.start()
        if body_open is None:
            # scan to '{' or ';' at paren depth 0
            j = m.end()
            pd = 0
            ad = 0
            while j < hi:
                ch = msk[j]
                if ch in "([":
                    pd += 1
                elif ch in ")]":
                    pd -= 1
                elif ch == "<" and kind != "fn":
                    pass
                elif ch == "{" and pd == 0:
                    body_open = j
                    break
                elif ch == ";" and pd == 0:
                    break
                j += 1
            if body_open is None:
                # `;`-terminated item, possibly with `= expr;` containing braces
                if kind in ("const", "static", "type", "use", "struct"):
                    end = j + 1
                    return _with_attrs(src, msk, lo, start), end, None
                raise LostAnchor("no body for %s" % sel)
            if kind in ("const", "static", "use"):
                # braces belong to the initialiser / use group: scan on to ';'
                k = match_close(msk, body_open)
                e = msk.find(";", k)
                return _with_attrs(src, msk, lo, start), e + 1, None
        end = match_close(msk, body_open) + 1
        if kind == "struct":
            pass
        return _with_attrs(src, msk, lo, start), end, body_open
    raise LostAnchor("item %r (occurrence %d) not found" % (sel, nth))


def _with_attrs(src: str, msk: str, lo: int, start: int) -> int:
    """extend `start` backwards over attributes and doc comments that directly
    precede the item."""
    # move to beginning of line
    ls = src.rfind("\n", 0, start) + 1
    if src[ls:start].strip():
        return start  # something else on the same line before the item
    cur = ls
    while cur > lo:
        pl = src.rfind("\n", 0, cur - 1) + 1
        line = src[pl:cur - 1].strip() if cur > 0 else ""
        if line.startswith("///") or line.startswith("#[") or line.startswith("//!"):
            cur = pl
            continue
        # multi-line attribute ending with ")]"
        if line.endswith(")]") and not line.startswith("#["):
            # search upwards for the '#[' that opens it
            q = pl
            found = False
            for _ in range(12):
                if q <= lo:
                    break
                q2 = src.rfind("\n", 0, q - 1) + 1
                l2 = src[q2:q - 1].strip()
                if l2.startswith("#["):
                    cur = q2
                    found = True
                    break
                q = q2
            if found:
                continue
        break
    return cur


def locate(src: str, path, msk=None):
    """path: list of selectors, outermost first, each optionally suffixed
    with '#n' for the n-th match.  Returns (start, end, body_open)."""
    if msk is None:
        msk = mask(src)
    lo, hi = 0, len(src)
    res = None
    for idx, sel in enumerate(path):
        nth = 1
        mm = re.match(r"^(.*)#(\d+)$", sel)
        if mm:
            sel, nth = mm.group(1).strip(), int(mm.group(2))
        res = find_in(src, msk, lo, hi, sel, nth)
        s, e, bo = res
        if idx + 1 < len(path):
            if bo is None:
                raise LostAnchor("%r has no body to descend into" % sel)
            lo, hi = bo + 1, e - 1
    return res


def fn_signature_parts(text: str, msk: str):
    """For the text of one fn item: offsets (ret_arrow, ret_start, ret_end,
    body_open).  ret_* are None when the function returns ()."""
    m = re.search(r"\bfn\s+\w+", msk)
    if not m:
        raise LostAnchor("not a fn item")
    j = m.end()
    n = len(msk)
    # generics
    while j < n and msk[j].isspace():
        j += 1
    if j < n and msk[j] == "<":
        d = 0
        while j < n:
            if msk[j] == "<":
                d += 1
            elif msk[j] == ">" and msk[j - 1] != "-":
                d -= 1
                if d == 0:
                    j += 1
                    break
            j += 1
    while j < n and msk[j] != "(":
        j += 1
    close = match_close(msk, j)
    k = close + 1
    # body '{' at bracket depth 0
    pd = 0
    body = None
    arrow = None
    where_at = None
    q = k
    while q < n:
        ch = msk[q]
        if ch in "([":
            pd += 1
        elif ch in ")]":
            pd -= 1
        elif ch == "{" and pd == 0:
            body = q
            break
        elif msk.startswith("->", q) and pd == 0 and arrow is None:
            arrow = q
        elif pd == 0 and where_at is None and re.match(r"\bwhere\b", msk[q:q + 6]) and (q == 0 or not (msk[q - 1].isalnum() or msk[q - 1] == "_")):
            where_at = q
        q += 1
    if body is None:
        raise LostAnchor("fn without body")
    if arrow is None:
        return None, None, None, body, close
    rs = arrow + 2
    re_ = where_at if where_at is not None else body
    return arrow, rs, re_, body, close


LOOP_RX = re.compile(r"(?<![\w.])(while|for|loop)\b")


def find_loops(text: str, msk: str, body_open: int):
    """offsets (kw_start, brace_open) of loops in textual order inside a fn body."""
    res = []
    for m in LOOP_RX.finditer(msk, body_open):
        kw = m.group(1)
        j = m.end()
        if kw == "for":
            # `for<'a>` HRTB
            t = msk[j:j + 4].lstrip()
            if t.startswith("<"):
                continue
        pd = 0
        n = len(msk)
        bo = None
        while j < n:
            ch = msk[j]
            if ch in "([":
                pd += 1
            elif ch in ")]":
                pd -= 1
            elif ch == "{" and pd == 0:
                bo = j
                break
            elif ch == ";" and pd == 0:
                break
            j += 1
        if bo is not None:
            res.append((m.start(), bo))
    return res

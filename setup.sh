#!/bin/bash
# Offline setup: nothing to download; warm the Verus and Kani caches so that
# the first check does not pay for the dependency build.
cd "$(dirname "$0")"
mkdir -p build evidence
export CARGO_NET_OFFLINE=true
python3 -m vx.warm || true
exit 0

//@ unit reasm props=C11
//@ include vx/prelude.rs
use std::collections::BinaryHeap;
use core::cmp::Ordering;
use vstd::std_specs::cmp::*;
//@ import-unit message
//@ include vx/heap_spec.rs
verus! {

// ---------------------------------------------------------------------------
// reassembly/bitvec.rs — abstraction: the set of bit positions that are high
// ---------------------------------------------------------------------------
//@ item sim/elvis-core/src/protocols/ipv4/reassembly/bitvec.rs :: struct BitVec strip-attrs
//@ rewrite `(\n\s*)bits: Vec<u8>,` => `\1pub bits: Vec<u8>,` ## visibility only
//@ end

impl BitVec {
    /// bit `i` is high
    #[verifier::opaque]
    pub open spec fn bit(&self, i: int) -> bool {
        0 <= i && i / 8 < self.bits@.len() && ((self.bits@[i / 8] >> ((i % 8) as u8)) & 1u8) == 1u8
    }

//@ item sim/elvis-core/src/protocols/ipv4/reassembly/bitvec.rs :: impl BitVec / fn new id=BitVec.new
//@ rewrite `Default::default\(\)` => `BitVec { bits: Vec::new() }` ## derive(Default): an empty Vec (Verus has no spec for the derived Default)
//@ contract
    ensures forall|i: int| !r.bit(i),   //# starts_empty [C11]
//@ start
        proof { reveal(BitVec::bit); }
//@ end

//@ item sim/elvis-core/src/protocols/ipv4/reassembly/bitvec.rs :: impl BitVec / fn get id=BitVec.get
//@ rewrite `\(\(byte >> \(bit % 8\)\) & 1\) == 1` => `((*byte >> (bit % 8)) & 1) == 1` ## explicit deref of the &u8 operand (Verus crashes on `&u8 >> u16`; auto-deref semantics unchanged)
//@ contract
    ensures r == self.bit(bit as int),   //# reads_bit [C11]
//@ start
        proof { reveal(BitVec::bit); }
//@ end

//@ item sim/elvis-core/src/protocols/ipv4/reassembly/bitvec.rs :: impl BitVec / fn set id=BitVec.set
//@ contract
    ensures forall|j: int| final(self).bit(j) == (old(self).bit(j) || j == bit),   //# sets_exactly_that_bit [C11]
//@ after 1 `self.bits[byte] |= 1 << (bit % 8);`
        proof {
            reveal(BitVec::bit);
            let k = (bit % 8) as u8;
            let x0 = if byte < old(self).bits@.len() { old(self).bits@[byte as int] } else { 0u8 };
            assert(self.bits@[byte as int] == x0 | (1u8 << k));
            assert forall|j: int| self.bit(j) == (old(self).bit(j) || j == bit) by {
                if 0 <= j && j / 8 == byte {
                    let m = (j % 8) as u8;
                    assert(k < 8 && m < 8 ==> ((((x0 | (1u8 << k)) >> m) & 1u8) == 1u8) == (m == k || ((x0 >> m) & 1u8) == 1u8)) by (bit_vector);
                    assert((0u8 >> m) & 1u8 == 0u8) by (bit_vector);
                } else if 0 <= j && j / 8 < self.bits@.len() && j / 8 >= old(self).bits@.len() {
                    let m = (j % 8) as u8;
                    assert((0u8 >> m) & 1u8 == 0u8) by (bit_vector);
                }
            }
        }
//@ end

//@ item sim/elvis-core/src/protocols/ipv4/reassembly/bitvec.rs :: impl BitVec / fn set_range id=BitVec.set_range
//@ contract
    ensures forall|j: int| final(self).bit(j) == (old(self).bit(j) || (start <= j < end)),   //# sets_exactly_the_range [C11]
//@ loop 1
            invariant
                forall|j: int| self.bit(j) == (old(self).bit(j) || (start < end && start <= j < i)),
//@ end

//@ item sim/elvis-core/src/protocols/ipv4/reassembly/bitvec.rs :: impl BitVec / fn complete id=BitVec.complete
//@ rewrite `\(0\.\.len\)\.all\(\|i\| self\.get\(i\)\)` => `{ let mut vx_all = true; for i in 0..len invariant vx_all == (forall|j: int| 0 <= j < i ==> self.bit(j)), { if !self.get(i) { vx_all = false; } } vx_all }` ## closure passed to Iterator::all is outside Verus: expressed as the equivalent loop without the short-circuit
//@ contract
    ensures r == (forall|j: int| 0 <= j < len ==> self.bit(j)),   //# all_low_bits_set [C11]
//@ end
}


// ---------------------------------------------------------------------------
// header types (ipv4_parsing.rs) needed by the reassembly code
// ---------------------------------------------------------------------------
//@ item sim/elvis-core/src/protocols/ipv4/ipv4_address.rs :: struct Ipv4Address strip-attrs
//@ rewrite `pub struct Ipv4Address\(\[u8; 4\]\);` => `#[derive(Clone, Copy)] pub struct Ipv4Address(pub [u8; 4]);` ## visibility only; other derives dropped (not used here)
//@ end
//@ item sim/elvis-core/src/protocols/ipv4/ipv4_parsing.rs :: struct TypeOfService strip-attrs
//@ rewrite `pub struct TypeOfService\(u8\);` => `#[derive(Clone, Copy)] pub struct TypeOfService(pub u8);` ## visibility only; other derives dropped
//@ end
//@ item sim/elvis-core/src/protocols/ipv4/ipv4_parsing.rs :: struct ControlFlags strip-attrs
//@ rewrite `pub struct ControlFlags\(u8\);` => `#[derive(Clone, Copy)] pub struct ControlFlags(pub u8);` ## visibility only; other derives dropped
//@ end
//@ item sim/elvis-core/src/protocols/ipv4/ipv4_parsing.rs :: struct Ipv4Header strip-attrs
//@ rewrite `pub struct Ipv4Header \{` => `#[derive(Clone, Copy)] pub struct Ipv4Header {` ## derives other than Clone, Copy dropped (not used here)
//@ end
impl ControlFlags {
    pub open spec fn mf(&self) -> bool { self.0 & 0b01 != 0 }
//@ item sim/elvis-core/src/protocols/ipv4/ipv4_parsing.rs :: impl ControlFlags / fn is_last_fragment id=ControlFlags.is_last_fragment mode=sig
//@ contract
    ensures r == !self.mf(),
//@ end
//@ item sim/elvis-core/src/protocols/ipv4/ipv4_parsing.rs :: impl ControlFlags / fn set_is_last_fragment id=ControlFlags.set_is_last_fragment mode=sig
//@ contract
    ensures
        final(self).mf() == !value,
        final(self).0 == (old(self).0 & 0b10) | (if value { 0u8 } else { 1u8 }),
//@ end
}

// ---------------------------------------------------------------------------
// reassembly/fragment.rs
// ---------------------------------------------------------------------------
//@ item sim/elvis-core/src/protocols/ipv4/reassembly/fragment.rs :: struct Fragment strip-attrs
//@ rewrite `(\n\s*)message: Message,` => `\1pub message: Message,` ## visibility only
//@ rewrite `(\n\s*)offset: u16,` => `\1pub offset: u16,` ## visibility only
//@ end
impl Fragment {
//@ item sim/elvis-core/src/protocols/ipv4/reassembly/fragment.rs :: impl Fragment / fn new id=Fragment.new
//@ contract
    ensures r.message == message, r.offset == offset,
//@ end
//@ item sim/elvis-core/src/protocols/ipv4/reassembly/fragment.rs :: impl Fragment / fn into_message id=Fragment.into_message
//@ contract
    ensures r == self.message,
//@ end
}
pub assume_specification [core::cmp::Ordering::reverse] (o: Ordering) -> (r: Ordering)
    ensures r == (match o { Ordering::Less => Ordering::Greater, Ordering::Equal => Ordering::Equal, Ordering::Greater => Ordering::Less });

/// pieces with smaller offsets are "greater", so that the max-heap pops them first
pub open spec fn frag_cmp(a: Fragment, b: Fragment) -> Ordering {
    if a.offset < b.offset { Ordering::Greater } else if a.offset > b.offset { Ordering::Less } else { Ordering::Equal }
}
impl PartialEqSpecImpl for Fragment {
    open spec fn obeys_eq_spec() -> bool { true }
    open spec fn eq_spec(&self, other: &Self) -> bool { self.offset == other.offset }
}
impl PartialOrdSpecImpl for Fragment {
    open spec fn obeys_partial_cmp_spec() -> bool { true }
    open spec fn partial_cmp_spec(&self, other: &Self) -> Option<Ordering> { Some(frag_cmp(*self, *other)) }
}
impl OrdSpecImpl for Fragment {
    open spec fn obeys_cmp_spec() -> bool { true }
    open spec fn cmp_spec(&self, other: &Self) -> Ordering { frag_cmp(*self, *other) }
}
//@ item sim/elvis-core/src/protocols/ipv4/reassembly/fragment.rs :: impl PartialEq for Fragment id=Fragment.eq
//@ end
//@ item sim/elvis-core/src/protocols/ipv4/reassembly/fragment.rs :: impl Eq for Fragment id=Fragment.Eq
//@ end
//@ item sim/elvis-core/src/protocols/ipv4/reassembly/fragment.rs :: impl PartialOrd for Fragment id=Fragment.partial_cmp
//@ end
//@ item sim/elvis-core/src/protocols/ipv4/reassembly/fragment.rs :: impl Ord for Fragment id=Fragment.cmp
//@ end


// ---------------------------------------------------------------------------
// reassembly/segment.rs
// ---------------------------------------------------------------------------
//@ item sim/elvis-core/src/protocols/ipv4/reassembly/segment.rs :: const TLB
//@ end
//@ item sim/elvis-core/src/protocols/ipv4/reassembly/segment.rs :: type Epoch
//@ end
//@ item sim/elvis-core/src/protocols/ipv4/reassembly/segment.rs :: struct Segment strip-attrs
//@ rewrite `(\n\s*)header: Option<Ipv4Header>,` => `\1pub header: Option<Ipv4Header>,` ## visibility only
//@ rewrite `(\n\s*)fragment_blocks: BitVec,` => `\1pub fragment_blocks: BitVec,` ## visibility only
//@ rewrite `(\n\s*)fragments: BinaryHeap<Fragment>,` => `\1pub fragments: BinaryHeap<Fragment>,` ## visibility only
//@ rewrite `(\n\s*)total_data_length: u16,` => `\1pub total_data_length: u16,` ## visibility only
//@ end

/// number of 8-octet blocks a fragment with `len` data octets occupies
pub open spec fn nblocks(len: int) -> int { (len + 7) / 8 }

/// an arriving fragment as produced by a conforming fragmenter for a datagram of at most 65515 data octets
pub open spec fn frag_hdr_ok(h: Ipv4Header, body: Seq<u8>) -> bool {
    h.ihl == 5 && h.total_length as int == 20 + body.len() && h.fragment_offset as int * 8 + body.len() + 20 <= 65535
}

pub open spec fn blocks_covered(b: BitVec, tdl: int) -> bool {
    forall|j: int| 0 <= j < nblocks(tdl) ==> b.bit(j)
}

impl Segment {
    /// representation invariant: whoever marked block 0 also stored the header,
    /// and every recorded piece is a well-formed message
    pub open spec fn wf(&self) -> bool {
        &&& (self.fragment_blocks.bit(0) ==> self.header is Some)
        &&& (self.header matches Some(h) ==> h.ihl == 5 && h.fragment_offset == 0)
        &&& forall|i: int| 0 <= i < heap_seq(self.fragments).len() ==> (#[trigger] heap_seq(self.fragments)[i]).message.wf() && heap_seq(self.fragments)[i].message@.len() <= 65535
        &&& heap_seq(self.fragments).len() <= self.epoch
        &&& self.total_data_length as int + 20 <= 65535
    }
    /// all blocks of a datagram of `tdl` octets have been received
    pub open spec fn covered(&self, tdl: int) -> bool { blocks_covered(self.fragment_blocks, tdl) }

//@ item sim/elvis-core/src/protocols/ipv4/reassembly/segment.rs :: impl Segment / fn new id=Segment.new
//@ rewrite `fragments: Default::default\(\),` => `fragments: BinaryHeap::new(),` ## Default for BinaryHeap is BinaryHeap::new() (std)
//@ contract
    ensures
        r.wf(), r.header is None, r.total_data_length == 0, r.epoch == 0, r.timeout_seconds == 15,
        forall|j: int| !r.fragment_blocks.bit(j),
        heap_seq(r.fragments).len() == 0,   //# starts_empty [C11]
//@ end

//@ item sim/elvis-core/src/protocols/ipv4/reassembly/segment.rs :: impl Segment / fn receive_packet id=Segment.receive_packet
//@ rewrite `Message::new\(vec!\[\]\)` => `Message::new_inner(Chunk::new(Vec::new()))` ## Message::new(impl Into<Chunk>) is the generic wrapper `Self::new_inner(body.into())` with `From<Vec<u8>> for Chunk = Chunk::new`; inlined because generic Into is outside the verified fragment
//@ contract
    requires
        old(self).wf(), body.wf(), frag_hdr_ok(header, body@),
        old(self).epoch < 65535,
    ensures
        final(self).wf(),
        // (9) exactly the blocks FO .. FO + ceil(len/8) are newly marked
        forall|j: int| final(self).fragment_blocks.bit(j) == (old(self).fragment_blocks.bit(j)
            || (header.fragment_offset <= j < header.fragment_offset + nblocks(body@.len() as int))),   //# marks_exactly_the_fragments_blocks [C11]
        // (10) the final fragment fixes the total data length
        final(self).total_data_length == (if !header.flags.mf() { (body@.len() + header.fragment_offset * 8) as u16 } else { old(self).total_data_length }),   //# final_fragment_sets_total_length [C11]
        // (12)(13) a datagram is returned exactly when the final fragment has been seen and every block is covered
        (r is Some) == (final(self).total_data_length != 0 && final(self).covered(final(self).total_data_length as int)),   //# returns_iff_complete [C11]
        // (14) the returned header is the offset-0 header with the total length restored and MF cleared
        r matches Some(hm) ==> (final(self).header matches Some(h0) && hm.0.total_length == final(self).total_data_length + 20
            && !hm.0.flags.mf() && hm.0.fragment_offset == 0 && hm.0.identification == h0.identification && hm.0.source == h0.source
            && hm.0.destination == h0.destination && hm.0.protocol == h0.protocol && hm.0.time_to_live == h0.time_to_live
            && hm.0.type_of_service == h0.type_of_service && hm.1.wf()),   //# returns_first_header_restored [C11]
        // (17) an incomplete arrival advances the epoch, which guards the expiry callback
        r is None ==> final(self).epoch == old(self).epoch + 1 && final(self).timeout_seconds >= old(self).timeout_seconds
            && final(self).timeout_seconds >= header.time_to_live,   //# incomplete_arrival_bumps_epoch [C11]
        r is Some ==> final(self).epoch == old(self).epoch,
//@ after 1 `.push(Fragment::new(body, header.fragment_offset));`
        proof {
            let s0 = heap_seq(old(self).fragments);
            let s1 = heap_seq(self.fragments);
            let f = Fragment { message: body, offset: header.fragment_offset };
            assert forall|i: int| 0 <= i < s1.len() implies (#[trigger] s1[i]).message.wf() && s1[i].message@.len() <= 65535 by {
                if s1[i] != f {
                    assert(s0.contains(s1[i]));
                    let k = choose|k: int| 0 <= k < s0.len() && s0[k] == s1[i];
                    assert(s0[k].message.wf());
                }
            }
        }
//@ before 1 `while let Some(piece) = self.fragments.pop()`
                let ghost pre = *self;
//@ loop 1
                invariant
                    self.fragment_blocks == pre.fragment_blocks, self.total_data_length == pre.total_data_length,
                    self.header == pre.header, self.epoch == pre.epoch, self.timeout_seconds == pre.timeout_seconds,
                    message.wf(),
                    forall|i: int| 0 <= i < heap_seq(self.fragments).len() ==> (#[trigger] heap_seq(self.fragments)[i]).message.wf() && heap_seq(self.fragments)[i].message@.len() <= 65535,
                    heap_seq(self.fragments).len() <= 65536,
                    message@.len() + 65535 * heap_seq(self.fragments).len() <= 65535 * 65537,
                ensures
                    self.fragment_blocks == pre.fragment_blocks, self.total_data_length == pre.total_data_length,
                    self.header == pre.header, self.epoch == pre.epoch, self.timeout_seconds == pre.timeout_seconds,
                    message.wf(),
                    heap_seq(self.fragments).len() == 0,
                decreases heap_seq(self.fragments).len(),
//@ before 1 `if self.total_data_length != 0`
        proof {
            let tdl = self.total_data_length;
            assert(((tdl + 7) / 8) as int == nblocks(tdl as int));
        }
//@ end
}

} // verus!

//@ unit reasm props=C11
//@ include vx/prelude.rs
use std::collections::BinaryHeap;
use core::cmp::Ordering;
use vstd::std_specs::cmp::*;
//@ import-unit message
//@ include vx/heap_spec.rs
verus! {

// ---------------------------------------------------------------------------
// reassembly/bitvec.rs — abstraction: the set of bit positions that are high
// ---------------------------------------------------------------------------
//@ item sim/elvis-core/src/protocols/ipv4/reassembly/bitvec.rs :: struct BitVec strip-attrs
//@ rewrite `(\n\s*)bits: Vec<u8>,` => `\1pub bits: Vec<u8>,` ## visibility only
//@ end

impl BitVec {
    /// bit `i` is high
    #[verifier::opaque]
    pub open spec fn bit(&self, i: int) -> bool {
        0 <= i && i / 8 < self.bits@.len() && ((self.bits@[i / 8] >> ((i % 8) as u8)) & 1u8) == 1u8
    }

//@ item sim/elvis-core/src/protocols/ipv4/reassembly/bitvec.rs :: impl BitVec / fn new id=BitVec.new
//@ rewrite `Default::default\(\)` => `BitVec { bits: Vec::new() }` ## derive(Default): an empty Vec (Verus has no spec for the derived Default)
//@ contract
    ensures forall|i: int| !r.bit(i),   //# starts_empty [C11]
//@ start
        proof { reveal(BitVec::bit); }
//@ end

//@ item sim/elvis-core/src/protocols/ipv4/reassembly/bitvec.rs :: impl BitVec / fn get id=BitVec.get
//@ rewrite `\(\(byte >> \(bit % 8\)\) & 1\) == 1` => `((*byte >> (bit % 8)) & 1) == 1` ## explicit deref of the &u8 operand (Verus crashes on `&u8 >> u16`; auto-deref semantics unchanged)
//@ contract
    ensures r == self.bit(bit as int),   //# reads_bit [C11]
//@ start
        proof { reveal(BitVec::bit); }
//@ end

//@ item sim/elvis-core/src/protocols/ipv4/reassembly/bitvec.rs :: impl BitVec / fn set id=BitVec.set
//@ contract
    ensures forall|j: int| final(self).bit(j) == (old(self).bit(j) || j == bit),   //# sets_exactly_that_bit [C11]
//@ after 1 `self.bits[byte] |= 1 << (bit % 8);`
        proof {
            reveal(BitVec::bit);
            let k = (bit % 8) as u8;
            let x0 = if byte < old(self).bits@.len() { old(self).bits@[byte as int] } else { 0u8 };
            assert(self.bits@[byte as int] == x0 | (1u8 << k));
            assert forall|j: int| self.bit(j) == (old(self).bit(j) || j == bit) by {
                if 0 <= j && j / 8 == byte {
                    let m = (j % 8) as u8;
                    assert(k < 8 && m < 8 ==> ((((x0 | (1u8 << k)) >> m) & 1u8) == 1u8) == (m == k || ((x0 >> m) & 1u8) == 1u8)) by (bit_vector);
                    assert((0u8 >> m) & 1u8 == 0u8) by (bit_vector);
                } else if 0 <= j && j / 8 < self.bits@.len() && j / 8 >= old(self).bits@.len() {
                    let m = (j % 8) as u8;
                    assert((0u8 >> m) & 1u8 == 0u8) by (bit_vector);
                }
            }
        }
//@ end

//@ item sim/elvis-core/src/protocols/ipv4/reassembly/bitvec.rs :: impl BitVec / fn set_range id=BitVec.set_range
//@ contract
    ensures forall|j: int| final(self).bit(j) == (old(self).bit(j) || (start <= j < end)),   //# sets_exactly_the_range [C11]
//@ loop 1
            invariant
                forall|j: int| self.bit(j) == (old(self).bit(j) || (start < end && start <= j < i)),
//@ end

//@ item sim/elvis-core/src/protocols/ipv4/reassembly/bitvec.rs :: impl BitVec / fn range_complete id=BitVec.range_complete
//@ rewrite `\(start\.\.end\)\.all\(\|i\| self\.get\(i\)\)` => `{ let mut vx_all = true; for i in start..end invariant vx_all == (forall|j: int| start <= j < i && start < end ==> self.bit(j)), { if !self.get(i) { vx_all = false; } } vx_all }` ## closure passed to Iterator::all is outside Verus: expressed as the equivalent loop without the short-circuit
//@ contract
    ensures r == (forall|j: int| start <= j < end ==> self.bit(j)),   //# all_bits_of_the_range_set [C11]
//@ end

//@ item sim/elvis-core/src/protocols/ipv4/reassembly/bitvec.rs :: impl BitVec / fn complete id=BitVec.complete
//@ rewrite `\(0\.\.len\)\.all\(\|i\| self\.get\(i\)\)` => `{ let mut vx_all = true; for i in 0..len invariant vx_all == (forall|j: int| 0 <= j < i ==> self.bit(j)), { if !self.get(i) { vx_all = false; } } vx_all }` ## closure passed to Iterator::all is outside Verus: expressed as the equivalent loop without the short-circuit
//@ contract
    ensures r == (forall|j: int| 0 <= j < len ==> self.bit(j)),   //# all_low_bits_set [C11]
//@ end
}


// ---------------------------------------------------------------------------
// header types (ipv4_parsing.rs) needed by the reassembly code
// ---------------------------------------------------------------------------
//@ item sim/elvis-core/src/protocols/ipv4/ipv4_address.rs :: struct Ipv4Address strip-attrs
//@ rewrite `pub struct Ipv4Address\(\[u8; 4\]\);` => `#[derive(Clone, Copy)] pub struct Ipv4Address(pub [u8; 4]);` ## visibility only; other derives dropped (not used here)
//@ end
//@ item sim/elvis-core/src/protocols/ipv4/ipv4_parsing.rs :: struct TypeOfService strip-attrs
//@ rewrite `pub struct TypeOfService\(u8\);` => `#[derive(Clone, Copy)] pub struct TypeOfService(pub u8);` ## visibility only; other derives dropped
//@ end
//@ item sim/elvis-core/src/protocols/ipv4/ipv4_parsing.rs :: struct ControlFlags strip-attrs
//@ rewrite `pub struct ControlFlags\(u8\);` => `#[derive(Clone, Copy)] pub struct ControlFlags(pub u8);` ## visibility only; other derives dropped
//@ end
//@ item sim/elvis-core/src/protocols/ipv4/ipv4_parsing.rs :: struct Ipv4Header strip-attrs
//@ rewrite `pub struct Ipv4Header \{` => `#[derive(Clone, Copy)] pub struct Ipv4Header {` ## derives other than Clone, Copy dropped (not used here)
//@ end
impl ControlFlags {
    pub open spec fn mf(&self) -> bool { self.0 & 0b01 != 0 }
//@ item sim/elvis-core/src/protocols/ipv4/ipv4_parsing.rs :: impl ControlFlags / fn is_last_fragment id=ControlFlags.is_last_fragment mode=sig
//@ contract
    ensures r == !self.mf(),
//@ end
//@ item sim/elvis-core/src/protocols/ipv4/ipv4_parsing.rs :: impl ControlFlags / fn set_is_last_fragment id=ControlFlags.set_is_last_fragment mode=sig
//@ contract
    ensures
        final(self).mf() == !value,
        final(self).0 == (old(self).0 & 0b10) | (if value { 0u8 } else { 1u8 }),
//@ end
}

// ---------------------------------------------------------------------------
// reassembly/fragment.rs
// ---------------------------------------------------------------------------
//@ item sim/elvis-core/src/protocols/ipv4/reassembly/fragment.rs :: struct Fragment strip-attrs
//@ rewrite `(\n\s*)message: Message,` => `\1pub message: Message,` ## visibility only
//@ rewrite `(\n\s*)offset: u16,` => `\1pub offset: u16,` ## visibility only
//@ end
impl Fragment {
//@ item sim/elvis-core/src/protocols/ipv4/reassembly/fragment.rs :: impl Fragment / fn new id=Fragment.new
//@ contract
    ensures r.message == message, r.offset == offset,
//@ end
//@ item sim/elvis-core/src/protocols/ipv4/reassembly/fragment.rs :: impl Fragment / fn into_message id=Fragment.into_message
//@ contract
    ensures r == self.message,
//@ end
}
pub assume_specification [core::cmp::Ordering::reverse] (o: Ordering) -> (r: Ordering)
    ensures r == (match o { Ordering::Less => Ordering::Greater, Ordering::Equal => Ordering::Equal, Ordering::Greater => Ordering::Less });

/// pieces with smaller offsets are "greater", so that the max-heap pops them first
pub open spec fn frag_cmp(a: Fragment, b: Fragment) -> Ordering {
    if a.offset < b.offset { Ordering::Greater } else if a.offset > b.offset { Ordering::Less } else { Ordering::Equal }
}
impl PartialEqSpecImpl for Fragment {
    open spec fn obeys_eq_spec() -> bool { true }
    open spec fn eq_spec(&self, other: &Self) -> bool { self.offset == other.offset }
}
impl PartialOrdSpecImpl for Fragment {
    open spec fn obeys_partial_cmp_spec() -> bool { true }
    open spec fn partial_cmp_spec(&self, other: &Self) -> Option<Ordering> { Some(frag_cmp(*self, *other)) }
}
impl OrdSpecImpl for Fragment {
    open spec fn obeys_cmp_spec() -> bool { true }
    open spec fn cmp_spec(&self, other: &Self) -> Ordering { frag_cmp(*self, *other) }
}
//@ item sim/elvis-core/src/protocols/ipv4/reassembly/fragment.rs :: impl PartialEq for Fragment id=Fragment.eq
//@ end
//@ item sim/elvis-core/src/protocols/ipv4/reassembly/fragment.rs :: impl Eq for Fragment id=Fragment.Eq
//@ end
//@ item sim/elvis-core/src/protocols/ipv4/reassembly/fragment.rs :: impl PartialOrd for Fragment id=Fragment.partial_cmp
//@ end
//@ item sim/elvis-core/src/protocols/ipv4/reassembly/fragment.rs :: impl Ord for Fragment id=Fragment.cmp
//@ end


// ---------------------------------------------------------------------------
// reassembly/segment.rs
// ---------------------------------------------------------------------------
//@ item sim/elvis-core/src/protocols/ipv4/reassembly/segment.rs :: const TLB
//@ end
//@ item sim/elvis-core/src/protocols/ipv4/reassembly/segment.rs :: type Epoch
//@ end
//@ item sim/elvis-core/src/protocols/ipv4/reassembly/segment.rs :: struct Segment strip-attrs
//@ rewrite `(\n\s*)header: Option<Ipv4Header>,` => `\1pub header: Option<Ipv4Header>,` ## visibility only
//@ rewrite `(\n\s*)fragment_blocks: BitVec,` => `\1pub fragment_blocks: BitVec,` ## visibility only
//@ rewrite `(\n\s*)fragments: BinaryHeap<Fragment>,` => `\1pub fragments: BinaryHeap<Fragment>,` ## visibility only
//@ rewrite `(\n\s*)total_data_length: u16,` => `\1pub total_data_length: u16,` ## visibility only
//@ end

/// number of 8-octet blocks a fragment with `len` data octets occupies
pub open spec fn nblocks(len: int) -> int { (len + 7) / 8 }

/// an arriving fragment as produced by a conforming fragmenter for a datagram of at most 65515 data octets
pub open spec fn frag_hdr_ok(h: Ipv4Header, body: Seq<u8>) -> bool {
    h.ihl == 5 && h.total_length as int == 20 + body.len() && h.fragment_offset as int * 8 + body.len() + 20 <= 65535
}

pub open spec fn blocks_covered(b: BitVec, tdl: int) -> bool {
    forall|j: int| 0 <= j < nblocks(tdl) ==> b.bit(j)
}

// ---------------------------------------------------------------------------
// Payload level: the recorded pieces are block-disjoint slices of one datagram `d`
// ---------------------------------------------------------------------------
/// first block after the piece
pub open spec fn pc_end(p: Fragment) -> int { p.offset + nblocks(p.message@.len() as int) }

/// the piece is a non-empty slice of `d` at 8*offset; only a piece that ends the datagram may have a length that is not a multiple of 8
pub open spec fn pc_ok(p: Fragment, d: Seq<u8>) -> bool {
    &&& p.message.wf() && 0 < p.message@.len() <= 65535
    &&& 8 * p.offset + p.message@.len() <= d.len()
    &&& p.message@ == d.subrange(8 * p.offset as int, 8 * p.offset + p.message@.len())
    &&& (8 * p.offset + p.message@.len() < d.len() ==> p.message@.len() % 8 == 0)
}

pub open spec fn pc_disjoint(a: Fragment, b: Fragment) -> bool { pc_end(a) <= b.offset || pc_end(b) <= a.offset }

pub open spec fn covers(s: Seq<Fragment>, k: int) -> bool {
    exists|i: int| 0 <= i < s.len() && (#[trigger] s[i]).offset <= k < pc_end(s[i])
}

pub open spec fn pieces_inv(s: Seq<Fragment>, b: BitVec, d: Seq<u8>) -> bool {
    &&& forall|i: int| 0 <= i < s.len() ==> pc_ok(#[trigger] s[i], d)
    &&& forall|i: int, j: int| 0 <= i < s.len() && 0 <= j < s.len() && i != j ==> pc_disjoint(#[trigger] s[i], #[trigger] s[j])
    &&& forall|k: int| #![trigger b.bit(k)] b.bit(k) <==> covers(s, k)
}

/// concatenation of the pieces in sequence order
pub open spec fn cat(s: Seq<Fragment>) -> Seq<u8>
    decreases s.len(),
{
    if s.len() == 0 { Seq::empty() } else { s[0].message@ + cat(s.subrange(1, s.len() as int)) }
}

pub open spec fn by_offset(s: Seq<Fragment>) -> bool {
    forall|i: int, j: int| 0 <= i < j < s.len() ==> (#[trigger] s[i]).offset <= (#[trigger] s[j]).offset
}

/// pieces sorted by offset, pairwise block-disjoint, each a slice of d, together covering every block of d,
/// tile d: the concatenation of s[k..] is d from the byte where piece k starts
pub proof fn lemma_tiling(s: Seq<Fragment>, d: Seq<u8>, k: int, pos: int)
    requires
        by_offset(s), 0 <= k <= s.len(),
        forall|i: int| 0 <= i < s.len() ==> pc_ok(#[trigger] s[i], d),
        forall|i: int, j: int| 0 <= i < s.len() && 0 <= j < s.len() && i != j ==> pc_disjoint(#[trigger] s[i], #[trigger] s[j]),
        forall|b: int| 0 <= b < nblocks(d.len() as int) ==> covers(s, b),
        // everything before piece k ends where piece k has to start
        k == 0 || 8 * s[k - 1].offset + s[k - 1].message@.len() == pos,
        k == 0 ==> pos == 0,
        forall|i: int| 0 <= i < k ==> pc_end(#[trigger] s[i]) <= nblocks(pos),
        0 <= pos <= d.len(),
    ensures
        cat(s.subrange(k, s.len() as int)) == d.subrange(pos, d.len() as int),
    decreases s.len() - k,
{
    let rest = s.subrange(k, s.len() as int);
    if k == s.len() {
        // nothing left: pos must be the end of the datagram, else the block at pos is not covered
        if pos < d.len() {
            if k > 0 { assert(pos % 8 == 0); }
            let b = pos / 8;
            assert(0 <= b < nblocks(d.len() as int));
            assert(covers(s, b));
            let i = choose|i: int| 0 <= i < s.len() && (#[trigger] s[i]).offset <= b < pc_end(s[i]);
            assert(pc_end(s[i]) <= nblocks(pos));
            assert(false);
        }
        assert(rest =~= Seq::<Fragment>::empty());
        assert(d.subrange(pos, d.len() as int) =~= Seq::<u8>::empty());
    } else {
        let p = s[k];
        // piece k starts exactly at pos
        if pos == d.len() {
            // a piece after the end of the datagram cannot be a non-empty slice of it
            if k > 0 { assert(pc_disjoint(s[k - 1], p)); assert(s[k - 1].offset <= p.offset); }
            assert(false);
        }
        if k > 0 { assert(pos % 8 == 0); }
        let b = pos / 8;
        assert(0 <= b < nblocks(d.len() as int));
        assert(covers(s, b));
        let i = choose|i: int| 0 <= i < s.len() && (#[trigger] s[i]).offset <= b < pc_end(s[i]);
        assert(i >= k) by { if i < k { assert(pc_end(s[i]) <= nblocks(pos)); } }
        assert(p.offset <= s[i].offset);
        if k > 0 { assert(pc_disjoint(s[k - 1], p)); assert(s[k - 1].offset <= p.offset); }
        assert(p.offset == b);
        let len = p.message@.len() as int;
        let pos2 = pos + len;
        assert forall|j: int| 0 <= j < k + 1 implies pc_end(#[trigger] s[j]) <= nblocks(pos2) by {
            if j < k { assert(pc_end(s[j]) <= nblocks(pos)); }
        }
        lemma_tiling(s, d, k + 1, pos2);
        assert(rest[0] == p);
        assert(rest.subrange(1, rest.len() as int) =~= s.subrange(k + 1, s.len() as int));
        assert(d.subrange(pos, d.len() as int) =~= p.message@ + d.subrange(pos2, d.len() as int));
    }
}

/// adding a piece that is block-disjoint from all recorded ones keeps the payload invariant, whatever order the heap puts it in
pub proof fn lemma_pieces_push(s: Seq<Fragment>, t: Seq<Fragment>, item: Fragment, b0: BitVec, b1: BitVec, d: Seq<u8>)
    requires
        pieces_inv(s, b0, d), pc_ok(item, d),
        t.to_multiset() == s.to_multiset().insert(item),
        forall|i: int| 0 <= i < s.len() ==> pc_disjoint(#[trigger] s[i], item),
        forall|k: int| #![trigger b1.bit(k)] b1.bit(k) == (b0.bit(k) || (item.offset <= k < pc_end(item))),
    ensures pieces_inv(t, b1, d),
{
    s.to_multiset_ensures();
    t.to_multiset_ensures();
    // membership
    assert forall|y: Fragment| t.contains(y) implies (y == item || s.contains(y)) by {
        assert(t.to_multiset().count(y) > 0);
        if y != item { assert(s.to_multiset().count(y) > 0); }
    }
    assert forall|y: Fragment| s.contains(y) || y == item implies t.contains(y) by {
        if y == item { assert(t.to_multiset().count(y) > 0); } else { assert(s.to_multiset().count(y) > 0); assert(t.to_multiset().count(y) > 0); }
    }
    // no value occurs twice in s (two equal non-empty pieces would overlap), nor is item one of them
    assert(s.no_duplicates()) by {
        assert forall|i: int, j: int| 0 <= i < s.len() && 0 <= j < s.len() && i != j implies s[i] != s[j] by {
            assert(pc_ok(s[i], d));
            assert(pc_disjoint(s[i], s[j]));
        }
    }
    s.lemma_multiset_has_no_duplicates();
    assert(!s.contains(item)) by {
        if s.contains(item) {
            let i = choose|i: int| 0 <= i < s.len() && s[i] == item;
            assert(pc_disjoint(s[i], item));
        }
    }
    assert(s.to_multiset().count(item) == 0);
    assert forall|y: Fragment| t.to_multiset().count(y) <= 1 by {}
    t.lemma_multiset_has_no_duplicates_conv();
    assert(t.no_duplicates());
    // (1) every piece is a slice of d
    assert forall|i: int| 0 <= i < t.len() implies pc_ok(#[trigger] t[i], d) by {
        assert(t.contains(t[i]));
        if t[i] != item { let k = choose|k: int| 0 <= k < s.len() && s[k] == t[i]; assert(pc_ok(s[k], d)); }
    }
    // (2) pairwise disjoint
    assert forall|i: int, j: int| 0 <= i < t.len() && 0 <= j < t.len() && i != j implies pc_disjoint(#[trigger] t[i], #[trigger] t[j]) by {
        assert(t[i] != t[j]);
        assert(t.contains(t[i]) && t.contains(t[j]));
        if t[i] == item {
            let k = choose|k: int| 0 <= k < s.len() && s[k] == t[j]; assert(pc_disjoint(s[k], item));
        } else if t[j] == item {
            let k = choose|k: int| 0 <= k < s.len() && s[k] == t[i]; assert(pc_disjoint(s[k], item));
        } else {
            let k1 = choose|k: int| 0 <= k < s.len() && s[k] == t[i];
            let k2 = choose|k: int| 0 <= k < s.len() && s[k] == t[j];
            assert(k1 != k2);
            assert(pc_disjoint(s[k1], s[k2]));
        }
    }
    // (3) the bitmap is exactly the covered blocks
    assert forall|k: int| #![trigger b1.bit(k)] b1.bit(k) <==> covers(t, k) by {
        if covers(t, k) {
            let i = choose|i: int| 0 <= i < t.len() && (#[trigger] t[i]).offset <= k < pc_end(t[i]);
            assert(t.contains(t[i]));
            if t[i] != item {
                let m = choose|m: int| 0 <= m < s.len() && s[m] == t[i];
                assert(covers(s, k));
            }
        }
        if b0.bit(k) {
            assert(covers(s, k));
            let i = choose|i: int| 0 <= i < s.len() && (#[trigger] s[i]).offset <= k < pc_end(s[i]);
            assert(t.contains(s[i]));
            let m = choose|m: int| 0 <= m < t.len() && t[m] == s[i];
            assert(t[m].offset <= k < pc_end(t[m]));
        }
        if item.offset <= k < pc_end(item) {
            assert(t.contains(item));
            let m = choose|m: int| 0 <= m < t.len() && t[m] == item;
            assert(t[m].offset <= k < pc_end(t[m]));
        }
    }
}

/// the max-heap pop order is ascending by fragment offset
pub proof fn lemma_sorted_by_offset(s: Seq<Fragment>)
    requires heap_sorted(s),
    ensures by_offset(s),
{
    assert forall|i: int, j: int| 0 <= i < j < s.len() implies (#[trigger] s[i]).offset <= (#[trigger] s[j]).offset by {
        assert(OrdSpec::cmp_spec(&s[i], &s[j]) != Ordering::Less);
    }
}

impl Segment {
    /// representation invariant: whoever marked block 0 also stored the header,
    /// and every recorded piece is a well-formed message
    pub open spec fn wf(&self) -> bool {
        &&& (self.fragment_blocks.bit(0) ==> self.header is Some)
        &&& (self.header matches Some(h) ==> h.ihl == 5 && h.fragment_offset == 0)
        &&& forall|i: int| 0 <= i < heap_seq(self.fragments).len() ==> (#[trigger] heap_seq(self.fragments)[i]).message.wf() && heap_seq(self.fragments)[i].message@.len() <= 65535
        &&& self.total_data_length as int + 20 <= 65535
    }
    /// payload-level invariant relative to the datagram d being reassembled
    pub open spec fn pay_inv(&self, d: Seq<u8>) -> bool {
        &&& pieces_inv(heap_seq(self.fragments), self.fragment_blocks, d)
        &&& heap_sorted(heap_seq(self.fragments))
        &&& (self.total_data_length != 0 ==> self.total_data_length == d.len())
        &&& d.len() + 20 <= 65535 && d.len() > 0
    }
    /// all blocks of a datagram of `tdl` octets have been received
    pub open spec fn covered(&self, tdl: int) -> bool { blocks_covered(self.fragment_blocks, tdl) }

//@ item sim/elvis-core/src/protocols/ipv4/reassembly/segment.rs :: impl Segment / fn new id=Segment.new
//@ rewrite `fragments: Default::default\(\),` => `fragments: BinaryHeap::new(),` ## Default for BinaryHeap is BinaryHeap::new() (std)
//@ contract
    ensures
        r.wf(), r.header is None, r.total_data_length == 0, r.epoch == 0, r.timeout_seconds == 15,
        forall|j: int| !r.fragment_blocks.bit(j),
        heap_seq(r.fragments).len() == 0,   //# starts_empty [C11]
        // a fresh buffer satisfies the payload invariant for whatever datagram it is going to reassemble
        forall|d: Seq<u8>| 0 < d.len() && d.len() + 20 <= 65535 ==> #[trigger] r.pay_inv(d),   //# fresh_buffer_fits_any_datagram [C11]
//@ end

//@ item sim/elvis-core/src/protocols/ipv4/reassembly/segment.rs :: impl Segment / fn receive_packet id=Segment.receive_packet
//@ rewrite `pub fn receive_packet\(` => `#[verifier::spinoff_prover] #[verifier::rlimit(300)] pub fn receive_packet(` ## verifier attributes only
//@ rewrite `body: Message,\n    \) -> Option` => `body: Message, Ghost(d): Ghost<Seq<u8>>,\n    ) -> Option` ## ghost parameter added (erased at run time): the datagram the fragments of this buffer belong to
//@ rewrite `Message::new\(vec!\[\]\)` => `Message::new_inner(Chunk::new(Vec::new()))` ## Message::new(impl Into<Chunk>) is the generic wrapper `Self::new_inner(body.into())` with `From<Vec<u8>> for Chunk = Chunk::new`; inlined because generic Into is outside the verified fragment
//@ contract
    requires
        old(self).wf(), body.wf(), frag_hdr_ok(header, body@),
        // payload level: the buffer holds block-disjoint slices of one datagram d, and the arriving fragment is a slice
        // of d that is either new (none of its blocks received yet) or an exact repetition of a recorded piece
        old(self).pay_inv(d),
        pc_ok(Fragment { message: body, offset: header.fragment_offset }, d),
        !header.flags.mf() ==> 8 * header.fragment_offset + body@.len() == d.len(),
        header.flags.mf() ==> 8 * header.fragment_offset + body@.len() < d.len(),
        (forall|k: int| header.fragment_offset <= k < header.fragment_offset + nblocks(body@.len() as int) ==> !old(self).fragment_blocks.bit(k))
            || (exists|i: int| 0 <= i < heap_seq(old(self).fragments).len() && (#[trigger] heap_seq(old(self).fragments)[i]).offset == header.fragment_offset
                    && heap_seq(old(self).fragments)[i].message@.len() == body@.len()),
    ensures
        // (C11) what is returned is the original payload, byte for byte, whatever the arrival order and repetitions
        r matches Some(hm) ==> hm.1@ == d,   //# returns_the_original_payload [C11]
        r is None ==> final(self).pay_inv(d),   //# pieces_stay_disjoint_slices_of_the_datagram [C11]
        final(self).wf(),
        // (9) exactly the blocks FO .. FO + ceil(len/8) are newly marked
        forall|j: int| final(self).fragment_blocks.bit(j) == (old(self).fragment_blocks.bit(j)
            || (header.fragment_offset <= j < header.fragment_offset + nblocks(body@.len() as int))),   //# marks_exactly_the_fragments_blocks [C11]
        // (10) the final fragment fixes the total data length
        final(self).total_data_length == (if !header.flags.mf() { (body@.len() + header.fragment_offset * 8) as u16 } else { old(self).total_data_length }),   //# final_fragment_sets_total_length [C11]
        // (12)(13) a datagram is returned exactly when the final fragment has been seen and every block is covered
        (r is Some) == (final(self).total_data_length != 0 && final(self).covered(final(self).total_data_length as int)),   //# returns_iff_complete [C11]
        // (14) the returned header is the offset-0 header with the total length restored and MF cleared
        r matches Some(hm) ==> (final(self).header matches Some(h0) && hm.0.total_length == final(self).total_data_length + 20
            && !hm.0.flags.mf() && hm.0.fragment_offset == 0 && hm.0.identification == h0.identification && hm.0.source == h0.source
            && hm.0.destination == h0.destination && hm.0.protocol == h0.protocol && hm.0.time_to_live == h0.time_to_live
            && hm.0.type_of_service == h0.type_of_service && hm.1.wf()),   //# returns_first_header_restored [C11]
        // (17) an incomplete arrival advances the epoch, which guards the expiry callback
        r is None ==> final(self).epoch == (if old(self).epoch == 65535 { 0u16 } else { (old(self).epoch + 1) as u16 }) && final(self).timeout_seconds >= old(self).timeout_seconds
            && final(self).timeout_seconds >= header.time_to_live,   //# incomplete_arrival_bumps_epoch [C11]
        r is Some ==> final(self).epoch == old(self).epoch,
//@ after 1 `.push(Fragment::new(body, header.fragment_offset));`
        proof {
            let s0 = heap_seq(old(self).fragments);
            let s1 = heap_seq(self.fragments);
            let f = Fragment { message: body, offset: header.fragment_offset };
            assert forall|i: int| 0 <= i < s1.len() implies (#[trigger] s1[i]).message.wf() && s1[i].message@.len() <= 65535 by {
                if s1[i] != f {
                    assert(s0.contains(s1[i]));
                    let k = choose|k: int| 0 <= k < s0.len() && s0[k] == s1[i];
                    assert(s0[k].message.wf());
                }
            }
        }
//@ before 1 `while let Some(piece) = self.fragments.pop()`
                let ghost pre = *self;
                proof { assert(message@ + cat(heap_seq(self.fragments)) =~= d); }
//@ before 1 `message.concatenate(piece.into_message());`
                    let ghost h0 = heap_seq(self.fragments);   // after the pop
                    let ghost m0 = message@;
//@ after 1 `message.concatenate(piece.into_message());`
                    proof { assert(message@ + cat(h0) =~= m0 + (piece.message@ + cat(h0))); }
//@ after 1 `self.fragment_blocks.set_range(`
        proof {
            let item = Fragment { message: body, offset: header.fragment_offset };
            let s0 = heap_seq(old(self).fragments);
            assert(pc_end(item) == header.fragment_offset + nblocks(body@.len() as int));
            assert(end_block as int == pc_end(item));
            if already_received {
                // every block of the fragment was marked before: nothing was recorded and the bitmap is unchanged
                assert forall|k: int| #![trigger self.fragment_blocks.bit(k)] self.fragment_blocks.bit(k) == old(self).fragment_blocks.bit(k) by {}
                assert(heap_seq(self.fragments) == s0);
                assert forall|k: int| #![trigger self.fragment_blocks.bit(k)] self.fragment_blocks.bit(k) <==> covers(s0, k) by {}
            } else {
                // some block of the fragment was not marked: it is not a repetition, hence (precondition) entirely new
                assert(exists|k: int| first_block <= k < end_block && !old(self).fragment_blocks.bit(k));
                let k0 = choose|k: int| first_block <= k < end_block && !old(self).fragment_blocks.bit(k);
                assert forall|i: int| 0 <= i < s0.len() implies !((#[trigger] s0[i]).offset == item.offset && s0[i].message@.len() == body@.len()) by {
                    if s0[i].offset == item.offset && s0[i].message@.len() == body@.len() {
                        assert(s0[i].offset <= k0 < pc_end(s0[i]));
                        assert(covers(s0, k0));
                    }
                }
                assert forall|i: int| 0 <= i < s0.len() implies pc_disjoint(#[trigger] s0[i], item) by {
                    let q = s0[i];
                    assert(pc_ok(q, d));
                    if !pc_disjoint(q, item) {
                        let k = if q.offset >= item.offset { q.offset as int } else { item.offset as int };
                        assert(q.offset <= k < pc_end(q) && item.offset <= k < pc_end(item));
                        assert(covers(s0, k));
                        assert(old(self).fragment_blocks.bit(k));
                    }
                }
                lemma_pieces_push(s0, heap_seq(self.fragments), item, old(self).fragment_blocks, self.fragment_blocks, d);
            }
        }
//@ before 1 `let mut header = self.header.unwrap();`
            proof {
                let sfull = heap_seq(self.fragments);
                lemma_sorted_by_offset(sfull);
                assert forall|b: int| 0 <= b < nblocks(d.len() as int) implies covers(sfull, b) by {
                    assert(self.fragment_blocks.bit(b));
                }
                lemma_tiling(sfull, d, 0, 0);
                assert(sfull.subrange(0, sfull.len() as int) =~= sfull);
                assert(d.subrange(0, d.len() as int) =~= d);
            }
//@ loop 1
                invariant
                    message@ + cat(heap_seq(self.fragments)) == d,
                    self.fragment_blocks == pre.fragment_blocks, self.total_data_length == pre.total_data_length,
                    self.header == pre.header, self.epoch == pre.epoch, self.timeout_seconds == pre.timeout_seconds,
                    message.wf(),
                    forall|i: int| 0 <= i < heap_seq(self.fragments).len() ==> (#[trigger] heap_seq(self.fragments)[i]).message.wf() && heap_seq(self.fragments)[i].message@.len() <= 65535,
                    d.len() <= 65535,
                ensures
                    message@ == d,
                    self.fragment_blocks == pre.fragment_blocks, self.total_data_length == pre.total_data_length,
                    self.header == pre.header, self.epoch == pre.epoch, self.timeout_seconds == pre.timeout_seconds,
                    message.wf(),
                    heap_seq(self.fragments).len() == 0,
                decreases heap_seq(self.fragments).len(),
//@ before 1 `if self.total_data_length != 0`
        proof {
            let tdl = self.total_data_length;
            assert(((tdl + 7) / 8) as int == nblocks(tdl as int));
        }
//@ end
}

} // verus!

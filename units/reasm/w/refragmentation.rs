// Witness scenario (ported mechanically from seeded/C11-1, module refragmentation_tests: `#[test] fn` -> `pub fn`); runs only under
// --cfg vx_replay, as a concrete call sequence on the real code when a paired Verus obligation fails.
#![allow(dead_code, unused_imports, unused_must_use)]

use super::super::*;
use crate::{
    network::Mtu,
    protocols::ipv4::{
        fragmentation::{fragment, Fragments},
        test_header_builder::TestHeaderBuilder,
    },
};

/// Fragments a datagram through a chain of MTUs, as if it crossed several
/// networks with decreasing MTU on the way.
fn fragment_chain(
    header: Ipv4Header,
    body: Message,
    mtus: &[Mtu],
) -> Vec<(Ipv4Header, Message)> {
    let mut pieces = vec![(header, body)];
    for &mtu in mtus {
        let mut next = vec![];
        for (header, body) in pieces {
            match fragment(header, body, mtu) {
                Fragments::Fragmented(fragments) => next.extend(fragments),
                Fragments::DontFragment(fragment) => next.push(fragment),
                Fragments::Discard => panic!("Unexpected discard"),
            }
        }
        pieces = next;
    }
    pieces
}

/// A datagram fragmented for MTU 76 (56 data octets per fragment) and
/// then for MTU 68 (48 data octets per fragment) contains middle fragments
/// that carry a single 8-octet block. The datagram must not be delivered
/// while one of them is still missing, and must be delivered intact once it
/// arrives.
pub fn missing_single_block_fragment_is_waited_for() {
    const LEN: u16 = 200;
    let bytes: Vec<_> = (0..LEN).map(|i| (i as u8).wrapping_mul(7)).collect();
    let expected = Message::new(bytes);
    let header = TestHeaderBuilder::new(LEN).ihl().build();

    let pieces = fragment_chain(header, expected.clone(), &[76, 68]);
    // 48 + 8 | 48 + 8 | 48 + 8 | 32
    assert_eq!(pieces.len(), 7);
    let held_back = pieces
        .iter()
        .position(|(h, _)| h.fragment_offset != 0 && h.total_length - h.ihl as u16 * 4 == 8)
        .expect("Expected a single-block fragment");
    assert!(!pieces[held_back].0.flags.is_last_fragment());

    let mut reassembly = Reassembly::new();
    for (i, (h, b)) in pieces.iter().enumerate() {
        if i == held_back {
            continue;
        }
        let actual = reassembly.receive_packet(*h, b.clone());
        assert!(
            matches!(actual, ReceivePacketResult::Incomplete(..)),
            "Datagram delivered while octets {}..{} are still missing: {:?}",
            pieces[held_back].0.fragment_offset * 8,
            pieces[held_back].0.fragment_offset * 8 + 8,
            actual
        );
    }

    let (h, b) = &pieces[held_back];
    let actual = reassembly.receive_packet(*h, b.clone());
    assert_eq!(actual, ReceivePacketResult::Complete(header, expected));
}


// Witness scenario (ported mechanically from seeded/C11-3, module demo_c11c: `#[test] fn` -> `pub fn`); runs only under
// --cfg vx_replay, as a concrete call sequence on the real code when a paired Verus obligation fails.
#![allow(dead_code, unused_imports, unused_must_use)]

use super::super::*;
use crate::{
    network::Mtu,
    protocols::ipv4::{
        fragmentation::{fragment, Fragments},
        test_header_builder::TestHeaderBuilder,
    },
};

/// A leading fragment whose last block index is a multiple of eight
/// (576 octets = 72 blocks) arrives twice before the trailing fragment.
/// The datagram must be returned byte for byte.
pub fn duplicate_of_highest_byte_aligned_fragment() {
    const LEN: u16 = 1000;
    const MTU: Mtu = 600;

    let bytes: Vec<_> = (0..LEN).map(|i| (i % 251) as u8).collect();
    let expected = Message::new(bytes);
    let header = TestHeaderBuilder::new(LEN).ihl().build();
    let frags = match fragment(header, expected.clone(), MTU) {
        Fragments::Fragmented(fragments) => fragments,
        _ => panic!("Expected fragments"),
    };
    let [a1, a2] = frags.as_slice() else {
        panic!("Expected two fragments")
    };
    assert_eq!(a1.0.fragment_offset, 0);
    assert_eq!(a2.0.fragment_offset, 72);

    let mut reassembly = Reassembly::new();
    assert!(matches!(
        reassembly.receive_packet(a1.0, a1.1.clone()),
        ReceivePacketResult::Incomplete(..)
    ));
    // the same fragment once more
    assert!(matches!(
        reassembly.receive_packet(a1.0, a1.1.clone()),
        ReceivePacketResult::Incomplete(..)
    ));
    match reassembly.receive_packet(a2.0, a2.1.clone()) {
        ReceivePacketResult::Complete(h, m) => {
            assert_eq!(h, header);
            assert_eq!(m.len(), expected.len());
            assert_eq!(m, expected);
        }
        other => panic!("Expected a complete datagram, got {other:?}"),
    }
}

/// Control: the same scenario with the unaligned trailing fragment
/// duplicated instead.
pub fn duplicate_of_unaligned_fragment() {
    const LEN: u16 = 1000;
    const MTU: Mtu = 600;

    let bytes: Vec<_> = (0..LEN).map(|i| (i % 251) as u8).collect();
    let expected = Message::new(bytes);
    let header = TestHeaderBuilder::new(LEN).ihl().build();
    let frags = match fragment(header, expected.clone(), MTU) {
        Fragments::Fragmented(fragments) => fragments,
        _ => panic!("Expected fragments"),
    };
    let mut reassembly = Reassembly::new();
    let (a1, a2) = (&frags[0], &frags[1]);
    reassembly.receive_packet(a2.0, a2.1.clone());
    reassembly.receive_packet(a2.0, a2.1.clone());
    assert_eq!(
        reassembly.receive_packet(a1.0, a1.1.clone()),
        ReceivePacketResult::Complete(header, expected)
    );
}


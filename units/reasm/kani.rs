// Harnesses for ipv4/reassembly/segment.rs — injected (add-only) as `mod vx_kani_reasm`.
//   kind=witness : concrete arrival sequences demonstrating a failed Verus obligation on the real code
use super::*;
#[path = "/verif/vx/kani_support.rs"]
mod sup;
use sup::*;
use crate::protocols::ipv4::ipv4_parsing::Ipv4HeaderBuilder;
use crate::protocols::ipv4::Ipv4Address;

fn frag(offset_blocks: u16, data: &[u8], more: bool) -> (Ipv4Header, Message) {
    let a = Ipv4Address::new([10, 0, 0, 1]);
    let bytes = Ipv4HeaderBuilder::new(a, a, 17, data.len() as u16).build().unwrap();
    let mut h = Ipv4Header::from_bytes(bytes.into_iter()).unwrap();
    h.fragment_offset = offset_blocks;
    h.flags.set_is_last_fragment(!more);
    (h, Message::new(data.to_vec()))
}

//# id=witness.duplicate_fragment props=C11 kind=witness pair=reasm.Segment.receive_packet.returns_the_original_payload
// a datagram of 24 octets in fragments f0 = [0,16) and f1 = [16,24); f1 arrives twice before f0.
// Expected: the datagram is returned once, byte for byte.
#[cfg(vx_replay)]
#[test]
fn h_w_duplicate_fragment() {
    let d: Vec<u8> = (0u8..24).collect();
    let mut seg = Segment::new();
    let (h1, m1) = frag(2, &d[16..], false);
    assert!(seg.receive_packet(h1, m1).is_none());
    let (h1, m1) = frag(2, &d[16..], false);
    assert!(seg.receive_packet(h1, m1).is_none());
    let (h0, m0) = frag(0, &d[..16], true);
    let (h, m) = seg.receive_packet(h0, m0).expect("complete after f0");
    assert_eq!(h.total_length, 20 + 24);
    assert_eq!(m.to_vec(), d, "the reassembled payload differs from the original datagram");
}

//# id=witness.epoch_overflow props=C11 kind=witness pair=reasm.Segment.receive_packet.safety
// fragments of an incomplete datagram keep arriving (here: the same one 65536 times): must not crash
#[cfg(vx_replay)]
#[test]
fn h_w_epoch_overflow() {
    let d: Vec<u8> = (0u8..24).collect();
    let mut seg = Segment::new();
    let r = std::panic::catch_unwind(move || {
        for _ in 0..65_536u32 {
            let (h1, m1) = frag(2, &d[16..], false);
            assert!(seg.receive_packet(h1, m1).is_none());
        }
    });
    assert!(r.is_ok(), "receive_packet panicked while fragments kept arriving");
}

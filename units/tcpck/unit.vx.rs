//@ unit tcpck props=C18
//@ include vx/prelude.rs
//@ include vx/be_bytes.rs
use vstd::std_specs::iter::IteratorSpec;
use vstd::std_specs::convert::*;
//@ import-unit checksum
verus! {

//@ item sim/elvis-core/src/protocols/ipv4/ipv4_address.rs :: struct Ipv4Address
//@ rewrite `pub struct Ipv4Address\(\[u8; 4\]\);` => `pub struct Ipv4Address(pub [u8; 4]);` ## visibility only
//@ end
impl FromSpecImpl<u32> for Ipv4Address {
    open spec fn obeys_from_spec() -> bool { true }
    open spec fn from_spec(n: u32) -> Self { Ipv4Address(spec_to_be(n)) }
}
impl FromSpecImpl<[u8; 4]> for Ipv4Address {
    open spec fn obeys_from_spec() -> bool { true }
    open spec fn from_spec(n: [u8; 4]) -> Self { Ipv4Address(n) }
}
//@ item sim/elvis-core/src/protocols/ipv4/ipv4_address.rs :: impl From<u32> for Ipv4Address id=Ipv4Address.from_u32
//@ rewrite `n\.to_be_bytes\(\)` => `vx_u32_to_be(n)` ## core::to_be_bytes routed through the contract-carrying wrapper
//@ end
//@ item sim/elvis-core/src/protocols/ipv4/ipv4_address.rs :: impl From<[u8; 4]> for Ipv4Address id=Ipv4Address.from_bytes
//@ end
impl FromSpecImpl<Ipv4Address> for [u8; 4] {
    open spec fn obeys_from_spec() -> bool { true }
    open spec fn from_spec(a: Ipv4Address) -> Self { a.0 }
}
//@ item sim/elvis-core/src/protocols/ipv4/ipv4_address.rs :: impl From<Ipv4Address> for [u8; 4] id=bytes.from_Ipv4Address
//@ end
impl Ipv4Address {
//@ item sim/elvis-core/src/protocols/ipv4/ipv4_address.rs :: impl Ipv4Address / fn to_bytes id=Ipv4Address.to_bytes
//@ contract
    ensures r == self.0,
//@ end
}

// ---------------------------------------------------------------------------
// utility.rs: BytesExt readers over an arbitrary byte iterator
// ---------------------------------------------------------------------------
/// taking n bytes off the front of an iterator
pub open spec fn took(before: Seq<u8>, after: Seq<u8>, n: int) -> bool {
    before.len() >= n && after == before.subrange(n, before.len() as int)
}

pub trait BytesExt: Iterator<Item = u8> {
//@ item sim/elvis-core/src/protocols/utility.rs :: trait BytesExt / fn next_u8 id=BytesExt.next_u8
//@ contract
    requires (*old(self)).obeys_prophetic_iter_laws(),
    ensures
        (*final(self)).obeys_prophetic_iter_laws(),
        (*old(self)).remaining().len() >= 1 ==> r == Some((*old(self)).remaining()[0]) && took((*old(self)).remaining(), (*final(self)).remaining(), 1),   //# reads_one_byte [C08,C14]
        (*old(self)).remaining().len() < 1 ==> r is None,   //# none_when_exhausted [C14]
//@ end
//@ item sim/elvis-core/src/protocols/utility.rs :: trait BytesExt / fn next_u16_be id=BytesExt.next_u16_be
//@ rewrite `u16::from_be_bytes\(arr\)` => `vx_u16_from_be(arr)` ## core::from_be_bytes routed through the contract-carrying wrapper
//@ contract
    requires (*old(self)).obeys_prophetic_iter_laws(),
    ensures
        (*final(self)).obeys_prophetic_iter_laws(),
        (*old(self)).remaining().len() >= 2 ==> r == Some(be16([(*old(self)).remaining()[0], (*old(self)).remaining()[1]])) && took((*old(self)).remaining(), (*final(self)).remaining(), 2),   //# reads_big_endian_u16 [C08,C14]
        (*old(self)).remaining().len() < 2 ==> r is None,   //# none_when_too_short [C14]
//@ after 1 `let arr = [self.next()?, self.next()?];`
        proof {
            let r0 = (*old(self)).remaining();
            assert((*self).remaining() =~= r0.subrange(2, r0.len() as int));
            assert(arr@ =~= seq![r0[0], r0[1]]);
        }
//@ end
//@ item sim/elvis-core/src/protocols/utility.rs :: trait BytesExt / fn next_u32_be id=BytesExt.next_u32_be
//@ rewrite `u32::from_be_bytes\(arr\)` => `vx_u32_from_be(arr)` ## core::from_be_bytes routed through the contract-carrying wrapper
//@ contract
    requires (*old(self)).obeys_prophetic_iter_laws(),
    ensures
        (*final(self)).obeys_prophetic_iter_laws(),
        (*old(self)).remaining().len() >= 4 ==> r == Some(be32([(*old(self)).remaining()[0], (*old(self)).remaining()[1], (*old(self)).remaining()[2], (*old(self)).remaining()[3]])) && took((*old(self)).remaining(), (*final(self)).remaining(), 4),   //# reads_big_endian_u32 [C08,C14]
        (*old(self)).remaining().len() < 4 ==> r is None,   //# none_when_too_short [C14]
//@ after 1 `let arr = [self.next()?, self.next()?, self.next()?, self.next()?];`
        proof {
            let r0 = (*old(self)).remaining();
            assert((*self).remaining() =~= r0.subrange(4, r0.len() as int));
            assert(arr@ =~= seq![r0[0], r0[1], r0[2], r0[3]]);
        }
//@ end
//@ item sim/elvis-core/src/protocols/utility.rs :: trait BytesExt / fn next_n id=BytesExt.next_n mode=sig
//@ contract
    // ASSUMED contract (body not verified: const-generic array filled by `for element in &mut result`)
    requires (*old(self)).obeys_prophetic_iter_laws(),
    ensures
        (*final(self)).obeys_prophetic_iter_laws(),
        (*old(self)).remaining().len() >= N ==> r is Some && r->0@ == (*old(self)).remaining().subrange(0, N as int) && took((*old(self)).remaining(), (*final(self)).remaining(), N as int),
        (*old(self)).remaining().len() < N ==> r is None,
//@ end
//@ item sim/elvis-core/src/protocols/utility.rs :: trait BytesExt / fn next_ipv4addr id=BytesExt.next_ipv4addr mode=sig
//@ contract
    // ASSUMED contract (one-line body `self.next_u32_be().map(Ipv4Address::from)` not verified here: Verus' trait-cycle
    // check rejects a call to `From<u32> for Ipv4Address` from a default method of a blanket-implemented trait)
    requires (*old(self)).obeys_prophetic_iter_laws(),
    ensures
        (*final(self)).obeys_prophetic_iter_laws(),
        (*old(self)).remaining().len() >= 4 ==> r == Some(Ipv4Address([(*old(self)).remaining()[0], (*old(self)).remaining()[1], (*old(self)).remaining()[2], (*old(self)).remaining()[3]])) && took((*old(self)).remaining(), (*final(self)).remaining(), 4),
        (*old(self)).remaining().len() < 4 ==> r is None,   //# none_when_too_short [C14]
//@ end
}
//@ item sim/elvis-core/src/protocols/utility.rs :: impl BytesExt for T id=BytesExt.blanket_impl
//@ end




// ---------------------------------------------------------------------------
// tcp/tcp_parsing.rs in the compute_checksum configuration (Checksum functions: compute_checksum variants, imported by
// contract from unit checksum)
// ---------------------------------------------------------------------------
//@ item sim/elvis-core/src/protocols/tcp/tcp_parsing.rs :: const BASE_HEADER_WORDS
//@ end
//@ item sim/elvis-core/src/protocols/tcp/tcp_parsing.rs :: const BASE_HEADER_OCTETS
//@ end
//@ item sim/elvis-core/src/protocols/tcp/tcp_parsing.rs :: struct Control strip-attrs
//@ rewrite `pub struct Control\(u8\);` => `#[derive(Clone, Copy)] pub struct Control(pub u8);` ## visibility only; other derives dropped
//@ end
//@ item sim/elvis-core/src/protocols/tcp/tcp_parsing.rs :: struct TcpHeader strip-attrs
//@ rewrite `pub struct TcpHeader \{` => `#[derive(Clone, Copy)] pub struct TcpHeader {` ## derives other than Clone, Copy dropped
//@ end
//@ item sim/elvis-core/src/protocols/tcp/tcp_parsing.rs :: struct TcpHeaderBuilder strip-attrs
//@ rewrite `pub struct TcpHeaderBuilder\(TcpHeader\);` => `pub struct TcpHeaderBuilder(pub TcpHeader);` ## visibility only
//@ end
//@ item sim/elvis-core/src/protocols/tcp/tcp_parsing.rs :: enum ParseError
//@ rewrite `#\[derive\(Debug, ThisError, PartialEq, Eq, Clone, Copy\)\]` => `#[derive(Debug, PartialEq, Eq, Clone, Copy)]` ## thiserror derive dropped (Display impl only)
//@ rewrite `#\[error\(\s*"[^"]*"\s*\)\]` => `` ## thiserror attribute dropped
//@ end
//@ item sim/elvis-core/src/protocols/tcp/tcp_parsing.rs :: enum BuildHeaderError
//@ rewrite `#\[derive\(Debug, ThisError, PartialEq, Eq, Clone, Copy\)\]` => `#[derive(Debug, PartialEq, Eq, Clone, Copy)]` ## thiserror derive dropped
//@ rewrite `#\[error\(\s*"[^"]*"\s*\)\]` => `` ## thiserror attribute dropped
//@ end
impl FromSpecImpl<u8> for Control {
    open spec fn obeys_from_spec() -> bool { true }
    open spec fn from_spec(n: u8) -> Self { Control(n) }
}
impl FromSpecImpl<Control> for u8 {
    open spec fn obeys_from_spec() -> bool { true }
    open spec fn from_spec(c: Control) -> Self { c.0 }
}
//@ item sim/elvis-core/src/protocols/tcp/tcp_parsing.rs :: impl From<u8> for Control id=Control.from_u8
//@ end
//@ item sim/elvis-core/src/protocols/tcp/tcp_parsing.rs :: impl From<Control> for u8 id=u8.from_Control
//@ end

/// the nine header words that enter the checksum (the checksum field itself excluded), in wire order
pub open spec fn tcp_hdr_words(sp: u16, dp: u16, seq: u32, ack: u32, offctl: u16, wnd: u16, urg: u16) -> Seq<u16> {
    seq![sp, dp, be16([spec_to_be(seq)[0], spec_to_be(seq)[1]]), be16([spec_to_be(seq)[2], spec_to_be(seq)[3]]),
         be16([spec_to_be(ack)[0], spec_to_be(ack)[1]]), be16([spec_to_be(ack)[2], spec_to_be(ack)[3]]), offctl, wnd, urg]
}
/// the six pseudo-header words: source, destination, zero|protocol 6, TCP length
pub open spec fn tcp_pseudo_words(s: Ipv4Address, d: Ipv4Address, len: u16) -> Seq<u16> {
    seq![be16([s.0[0], s.0[1]]), be16([s.0[2], s.0[3]]), be16([d.0[0], d.0[1]]), be16([d.0[2], d.0[3]]), 6u16, len]
}
/// RFC 9293 3.1 / RFC 1071: one's-complement sum of pseudo header, header (checksum field excluded) and text
pub open spec fn tcp_sum(s: Ipv4Address, d: Ipv4Address, len: u16, sp: u16, dp: u16, seq: u32, ack: u32, offctl: u16, wnd: u16, urg: u16, text: Seq<u8>) -> u16 {
    oc_fold(0, tcp_pseudo_words(s, d, len) + tcp_hdr_words(sp, dp, seq, ack, offctl, wnd, urg) + words_be(text))
}
pub open spec fn f6(a: u16, w1: u16, w2: u16, w3: u16, w4: u16, w5: u16, w6: u16) -> u16 {
    ocadd(ocadd(ocadd(ocadd(ocadd(ocadd(a, w1), w2), w3), w4), w5), w6)
}
pub open spec fn f9(a: u16, w1: u16, w2: u16, w3: u16, w4: u16, w5: u16, w6: u16, w7: u16, w8: u16, w9: u16) -> u16 {
    ocadd(ocadd(ocadd(ocadd(ocadd(ocadd(ocadd(ocadd(ocadd(a, w1), w2), w3), w4), w5), w6), w7), w8), w9)
}
pub proof fn lemma_fold6(a: u16, ws: Seq<u16>)
    requires ws.len() == 6,
    ensures oc_fold(a, ws) == f6(a, ws[0], ws[1], ws[2], ws[3], ws[4], ws[5]),
{
    reveal_with_fuel(oc_fold, 7);
    let s1 = ws.subrange(1, 6); let s2 = s1.subrange(1, 5); let s3 = s2.subrange(1, 4); let s4 = s3.subrange(1, 3); let s5 = s4.subrange(1, 2); let s6 = s5.subrange(1, 1);
    assert(s1[0] == ws[1] && s2[0] == ws[2] && s3[0] == ws[3] && s4[0] == ws[4] && s5[0] == ws[5] && s6.len() == 0);
}
pub proof fn lemma_fold9(a: u16, ws: Seq<u16>)
    requires ws.len() == 9,
    ensures oc_fold(a, ws) == f9(a, ws[0], ws[1], ws[2], ws[3], ws[4], ws[5], ws[6], ws[7], ws[8]),
{
    reveal_with_fuel(oc_fold, 10);
    let s1 = ws.subrange(1, 9); let s2 = s1.subrange(1, 8); let s3 = s2.subrange(1, 7); let s4 = s3.subrange(1, 6); let s5 = s4.subrange(1, 5);
    let s6 = s5.subrange(1, 4); let s7 = s6.subrange(1, 3); let s8 = s7.subrange(1, 2); let s9 = s8.subrange(1, 1);
    assert(s1[0] == ws[1] && s2[0] == ws[2] && s3[0] == ws[3] && s4[0] == ws[4] && s5[0] == ws[5] && s6[0] == ws[6] && s7[0] == ws[7] && s8[0] == ws[8] && s9.len() == 0);
}
/// the accumulator the decoder reaches: header words, text, pseudo header
pub open spec fn tcp_dec_order(p: Seq<u16>, h: Seq<u16>, text: Seq<u8>) -> u16 {
    oc_fold(oc_fold(oc_fold(0, h), words_be(text)), p)
}
/// the accumulator the encoder reaches: text, pseudo header, header words
pub open spec fn tcp_enc_order(p: Seq<u16>, h: Seq<u16>, text: Seq<u8>) -> u16 {
    oc_fold(oc_fold(oc_fold(0, words_be(text)), p), h)
}
/// both orders give the specification's sum (commutative monoid: three group sums in any order)
pub proof fn lemma_tcp_orders(p: Seq<u16>, h: Seq<u16>, text: Seq<u8>)
    ensures
        tcp_dec_order(p, h, text) == oc_fold(0, p + h + words_be(text)),
        tcp_enc_order(p, h, text) == oc_fold(0, p + h + words_be(text)),
{
    let t = words_be(text);
    let (sp, sh, st) = (oc_fold(0, p), oc_fold(0, h), oc_fold(0, t));
    lemma_fold_append(0, p + h, t);
    lemma_fold_append(0, p, h);
    lemma_fold_acc(oc_fold(0, p), h);
    lemma_fold_acc(oc_fold(oc_fold(0, p), h), t);
    // decoder
    lemma_fold_acc(oc_fold(0, h), t);
    lemma_fold_acc(oc_fold(oc_fold(0, h), t), p);
    // encoder
    lemma_fold_acc(oc_fold(0, t), p);
    lemma_fold_acc(oc_fold(oc_fold(0, t), p), h);
    lemma_ocadd_comm_assoc(sp, sh, st);
    lemma_ocadd_comm_assoc(sh, st, sp);
    lemma_ocadd_comm_assoc(st, sp, sh);
    lemma_ocadd_comm_assoc(sh, sp, st);
    lemma_ocadd_comm_assoc(sp, st, sh);
}
pub proof fn lemma_tcp_orders_all(p: Seq<u16>, h: Seq<u16>)
    ensures forall|text: Seq<u8>| #![trigger words_be(text)]
        tcp_dec_order(p, h, text) == oc_fold(0, p + h + words_be(text)) && tcp_enc_order(p, h, text) == oc_fold(0, p + h + words_be(text)),
{
    assert forall|text: Seq<u8>| #![trigger words_be(text)]
        tcp_dec_order(p, h, text) == oc_fold(0, p + h + words_be(text)) && tcp_enc_order(p, h, text) == oc_fold(0, p + h + words_be(text)) by {
        lemma_tcp_orders(p, h, text);
    }
}

impl TcpHeaderBuilder {
//@ item sim/elvis-core/src/protocols/tcp/tcp_parsing.rs :: impl TcpHeaderBuilder / fn build id=TcpHeaderBuilder.build
//@ rewrite `mut text: impl Iterator<Item = u8>,` => `text0: impl Iterator<Item = u8>,` ## the `mut` parameter is renamed text0 and rebound by `let mut text = text0;` as the first statement
//@ rewrite `\.map_err\(\|_\| ` => `.map_err(|_e| ` ## Verus needs a named closure parameter
//@ rewrite `self\.0\.(seq|ack)\.to_be_bytes\(\)` => `vx_u32_to_be(self.0.\1)` ## core::to_be_bytes routed through the contract-carrying wrapper
//@ contract
    requires text0.obeys_prophetic_iter_laws(), text_len <= usize::MAX - 20,
    ensures
        (r is Ok) == (text_len + 20 <= 65535),   //# refuses_exactly_oversize [C18]
        // (C18) the emitted header carries the RFC 1071 checksum over pseudo header, header and text
        r matches Ok(h) ==> h == (TcpHeader { data_offset: 5, checksum: cksum_of(tcp_sum(src_address, dst_address, (text_len + 20) as u16,
            self.0.src_port, self.0.dst_port, self.0.seq, self.0.ack, be16([80u8, self.0.ctl.0]), self.0.wnd, self.0.urg, text0.remaining())), ..self.0 }),   //# emits_the_rfc1071_checksum [C18]
//@ start
        let mut text = text0;
//@ before 1 `let mut header = self.0;`
        proof {
            let p = tcp_pseudo_words(src_address, dst_address, length);
            let h = tcp_hdr_words(self.0.src_port, self.0.dst_port, self.0.seq, self.0.ack, be16([80u8, self.0.ctl.0]), self.0.wnd, self.0.urg);
            lemma_tcp_orders_all(p, h);
            assert(be16([0u8, 6u8]) == 6u16) by (compute);
            assert(5u8 << 4 == 80u8) by (compute);
            lemma_fold6(oc_fold(0, words_be(text0.remaining())), p);
            lemma_fold9(oc_fold(oc_fold(0, words_be(text0.remaining())), p), h);
            assert(checksum.0 == tcp_enc_order(p, h, text0.remaining()));
        }
//@ end
}

/// the decoder's acceptance condition
pub open spec fn tcp_accepts(all: Seq<u8>, packet_len: usize, s: Ipv4Address, d: Ipv4Address) -> bool {
    &&& all.len() >= 20 && all[12] >> 4 == 5 && packet_len <= 65535
    &&& ({
        let sum = tcp_sum(s, d, packet_len as u16, be16([all[0], all[1]]), be16([all[2], all[3]]), be32([all[4], all[5], all[6], all[7]]), be32([all[8], all[9], all[10], all[11]]),
            be16([all[12], all[13]]), be16([all[14], all[15]]), be16([all[18], all[19]]), all.subrange(20, all.len() as int));
        let field = be16([all[16], all[17]]);
        cksum_of(sum) == field || (cksum_of(sum) == 0xffff && field == 0)
    })
}


/// RFC 9293 3.1 header layout (20 octets, no options)
pub open spec fn tcp_wire(h: TcpHeader) -> Seq<u8> {
    seq![spec_to_be16(h.src_port)[0], spec_to_be16(h.src_port)[1], spec_to_be16(h.dst_port)[0], spec_to_be16(h.dst_port)[1],
         spec_to_be(h.seq)[0], spec_to_be(h.seq)[1], spec_to_be(h.seq)[2], spec_to_be(h.seq)[3],
         spec_to_be(h.ack)[0], spec_to_be(h.ack)[1], spec_to_be(h.ack)[2], spec_to_be(h.ack)[3],
         (h.data_offset << 4) as u8, h.ctl.0,
         spec_to_be16(h.wnd)[0], spec_to_be16(h.wnd)[1], spec_to_be16(h.checksum)[0], spec_to_be16(h.checksum)[1], spec_to_be16(h.urg)[0], spec_to_be16(h.urg)[1]]
}
impl TcpHeader {
//@ item sim/elvis-core/src/protocols/tcp/tcp_parsing.rs :: impl TcpHeader / fn serialize id=TcpHeader.serialize
//@ rewrite `self\.(src_port|dst_port|wnd|checksum|urg)\.to_be_bytes\(\)` => `vx_u16_to_be(self.\1)` ## core::to_be_bytes routed through the contract-carrying wrapper
//@ rewrite `self\.(seq|ack)\.to_be_bytes\(\)` => `vx_u32_to_be(self.\1)` ## core::to_be_bytes routed through the contract-carrying wrapper
//@ contract
    requires self.data_offset < 16,
    ensures r@ == tcp_wire(*self),   //# emits_the_rfc9293_layout [C18]
//@ end
}
/// (C18) every segment the stack emits verifies under the RFC 1071 rule and is accepted by the stack's own decoder - a
/// lemma over the three contracts (build, serialize, from_bytes), for every text (any length up to the 16-bit limit)
pub proof fn lemma_tcp_emitted_is_accepted(b: TcpHeader, s: Ipv4Address, d: Ipv4Address, text: Seq<u8>)
    requires text.len() + 20 <= 65535, b.ctl.0 < 64,
    ensures
        ({
            let len = (text.len() + 20) as u16;
            let sum = tcp_sum(s, d, len, b.src_port, b.dst_port, b.seq, b.ack, be16([80u8, b.ctl.0]), b.wnd, b.urg, text);
            let h = TcpHeader { data_offset: 5, checksum: cksum_of(sum), ..b };     // TcpHeaderBuilder.build.emits_the_rfc1071_checksum
            &&& verifies(sum, h.checksum)                                            // RFC 1071 receiver rule
            &&& tcp_accepts(tcp_wire(h) + text, (text.len() + 20) as usize, s, d)    // TcpHeader.serialize, then TcpHeader.from_bytes
        }),
{
    let len = (text.len() + 20) as u16;
    let sum = tcp_sum(s, d, len, b.src_port, b.dst_port, b.seq, b.ack, be16([80u8, b.ctl.0]), b.wnd, b.urg, text);
    let h = TcpHeader { data_offset: 5, checksum: cksum_of(sum), ..b };
    let all = tcp_wire(h) + text;
    lemma_emitted_verifies(sum);
    lemma_to_be16_roundtrip(h.src_port); lemma_to_be16_roundtrip(h.dst_port); lemma_to_be16_roundtrip(h.wnd); lemma_to_be16_roundtrip(h.checksum); lemma_to_be16_roundtrip(h.urg);
    lemma_to_be_roundtrip(h.seq); lemma_to_be_roundtrip(h.ack);
    assert((5u8 << 4) as u8 == 80u8 && (80u8 >> 4) == 5u8) by (compute);
    assert([all[0], all[1]] =~= spec_to_be16(h.src_port));
    assert([all[2], all[3]] =~= spec_to_be16(h.dst_port));
    assert([all[4], all[5], all[6], all[7]] =~= spec_to_be(h.seq));
    assert([all[8], all[9], all[10], all[11]] =~= spec_to_be(h.ack));
    assert(all[12] == 80u8 && all[13] == h.ctl.0);
    assert([all[14], all[15]] =~= spec_to_be16(h.wnd));
    assert([all[16], all[17]] =~= spec_to_be16(h.checksum));
    assert([all[18], all[19]] =~= spec_to_be16(h.urg));
    assert(all.subrange(20, all.len() as int) =~= text);
}

impl TcpHeader {
//@ item sim/elvis-core/src/protocols/tcp/tcp_parsing.rs :: impl TcpHeader / fn from_bytes id=TcpHeader.from_bytes
//@ rewrite `mut packet: impl Iterator<Item = u8>,` => `packet0: impl Iterator<Item = u8>,` ## the `mut` parameter is renamed packet0 and rebound by `let mut packet = packet0;` as the first statement
//@ rewrite `\.map_err\(\|_\| ` => `.map_err(|_e| ` ## Verus needs a named closure parameter
//@ rewrite `(seq|ack)\.to_be_bytes\(\)` => `vx_u32_to_be(\1)` ## core::to_be_bytes routed through the contract-carrying wrapper
//@ rewrite `u16::from_be_bytes\(offset_reserved_control\)` => `vx_u16_from_be(offset_reserved_control)` ## core::from_be_bytes routed through the contract-carrying wrapper
//@ contract
    requires packet0.obeys_prophetic_iter_laws(),
    ensures
        // (C18) a segment is accepted exactly when it is complete, has no options, and its checksum field is the one a
        //       conforming sender computes over pseudo header, header and text (either representation of zero)
        r is Ok <==> tcp_accepts(packet0.remaining(), packet_len, src_address, dst_address),   //# accepts_exactly_the_verifying_segments [C18]
//@ start
        let mut packet = packet0;
        let ghost all = packet0.remaining();
//@ after 1 `let src_port = packet.next_u16_be().ok_or(HTS)?;`
        proof { assert(packet.remaining() =~= all.subrange(2, all.len() as int)); }
//@ after 1 `let dst_port = packet.next_u16_be().ok_or(HTS)?;`
        proof { assert(packet.remaining() =~= all.subrange(4, all.len() as int)); }
//@ after 1 `let seq = packet.next_u32_be().ok_or(HTS)?;`
        proof { assert(packet.remaining() =~= all.subrange(8, all.len() as int)); }
//@ after 1 `let ack = packet.next_u32_be().ok_or(HTS)?;`
        proof { assert(packet.remaining() =~= all.subrange(12, all.len() as int)); }
//@ after 1 `let offset_reserved_control = packet.next_n::<2>().ok_or(HTS)?;`
        proof {
            assert(packet.remaining() =~= all.subrange(14, all.len() as int));
            assert(offset_reserved_control@[0] == all[12] && offset_reserved_control@[1] == all[13]);
            assert(offset_reserved_control =~= [all[12], all[13]]);
        }
//@ after 1 `let wnd = packet.next_u16_be().ok_or(HTS)?;`
        proof { assert(packet.remaining() =~= all.subrange(16, all.len() as int)); }
//@ after 1 `let expected_checksum = packet.next_u16_be().ok_or(HTS)?;`
        proof { assert(packet.remaining() =~= all.subrange(18, all.len() as int)); }
//@ after 1 `let urg = packet.next_u16_be().ok_or(HTS)?;`
        proof { assert(packet.remaining() =~= all.subrange(20, all.len() as int)); }
//@ before 1 `let checksum_matches = checksum.matches(expected_checksum);`
        proof {
            let p = tcp_pseudo_words(src_address, dst_address, packet_len as u16);
            let offctl = be16([all[12], all[13]]);
            let h = tcp_hdr_words(src_port, dst_port, seq, ack, offctl, wnd, urg);
            lemma_tcp_orders_all(p, h);
            assert(be16([0u8, 6u8]) == 6u16) by (compute);
            lemma_fold9(0, h);
            lemma_fold6(oc_fold(oc_fold(0, h), words_be(all.subrange(20, all.len() as int))), p);
            assert(checksum.0 == tcp_dec_order(p, h, all.subrange(20, all.len() as int)));
        }
//@ end
}

} // verus!

// Kani harness for ipv4/reassembly/buf_id.rs - injected (add-only) as `mod vx_kani_bufid`.
// Loop-free over all pairs of headers (every field symbolic) => complete.
// This is the key under which Reassembly keeps its buffers: "fragments of different datagrams never mix" needs it to
// separate exactly by (source, destination, protocol, identification) - RFC 791 BUFID.
use super::*;
#[path = "/verif/vx/kani_support.rs"]
mod sup;
use sup::*;
use crate::protocols::ipv4::ipv4_parsing::{ControlFlags, TypeOfService};

fn any_header() -> Ipv4Header {
    Ipv4Header {
        ihl: any(),
        type_of_service: TypeOfService::from(any::<u8>()),
        total_length: any(),
        identification: any(),
        fragment_offset: any(),
        flags: ControlFlags::from(any::<u8>()),
        time_to_live: any(),
        protocol: any(),
        checksum: any(),
        source: Ipv4Address::new(any()),
        destination: Ipv4Address::new(any()),
    }
}
//# id=bufid.separates_exactly_by_rfc791_bufid fns=BufId::from_header+eq props=C11 kind=complete pair=
#[cfg_attr(kani, kani::proof)]
#[cfg_attr(vx_replay, test)]
fn h_bufid() {
    let (a, b) = (any_header(), any_header());
    let same = a.source == b.source && a.destination == b.destination && a.protocol == b.protocol && a.identification == b.identification;
    let (ka, kb) = (BufId::from_header(&a), BufId::from_header(&b));
    // two fragments share a reassembly buffer exactly when source, destination, protocol and identification agree
    assert_eq!(ka == kb, same);
    // (that equal keys hash alike is derive(Hash) over the same four fields; hashing is not explored: FxHasher's 64-bit
    //  multiplications made CBMC run past the 25-minute cap)
}

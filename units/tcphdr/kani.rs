// Kani harnesses for tcp/tcp_parsing.rs — injected (add-only) as `mod vx_kani_tcphdr`.
// Default feature set (Checksum no-op); the only loop is next_n::<2> (2 iterations,
// unwinding assertions on) => complete over all inputs.
use super::*;
#[path = "/verif/vx/kani_support.rs"]
mod sup;
use sup::*;

fn be16(a: u8, b: u8) -> u16 { ((a as u16) << 8) | b as u16 }
fn be32(a: u8, b: u8, c: u8, d: u8) -> u32 { ((a as u32) << 24) | ((b as u32) << 16) | ((c as u32) << 8) | d as u32 }

//# id=decode.total fns=TcpHeader::from_bytes props=C14,C08 kind=complete pair=
#[cfg_attr(kani, kani::proof)]
#[cfg_attr(kani, kani::unwind(4))]
#[cfg_attr(vx_replay, test)]
fn h_tcp_decode_total() {
    let b: [u8; 24] = any();
    let len: usize = any();
    let packet_len: usize = any();
    let (s, d): ([u8; 4], [u8; 4]) = (any(), any());
    vx_assume!(len <= 24);
    let r = TcpHeader::from_bytes(b.iter().cloned().take(len), packet_len, Ipv4Address::new(s), Ipv4Address::new(d));
    if len < 20 {
        assert!(r.is_err());
    }
    vx_cover!(r.is_ok());
}

//# id=decode.reencode fns=TcpHeader::from_bytes+TcpHeader::serialize props=C08,C14 kind=complete pair=
// accepted bytes re-encode to themselves, for inputs whose reserved bits (low nibble of byte 12,
// top two bits of byte 13) are zero.  The complementary class is the known finding below.
#[cfg_attr(kani, kani::proof)]
#[cfg_attr(kani, kani::unwind(22))]
#[cfg_attr(vx_replay, test)]
fn h_tcp_decode_reencode() {
    let b: [u8; 20] = any();
    let packet_len: usize = any();
    let (s, d): ([u8; 4], [u8; 4]) = (any(), any());
    vx_assume!(b[12] & 0x0f == 0 && b[13] & 0xc0 == 0);
    if let Ok(h) = TcpHeader::from_bytes(b.into_iter(), packet_len, Ipv4Address::new(s), Ipv4Address::new(d)) {
        // field extraction per RFC 9293 3.1
        assert!(h.src_port == be16(b[0], b[1]) && h.dst_port == be16(b[2], b[3]));
        assert!(h.seq == be32(b[4], b[5], b[6], b[7]) && h.ack == be32(b[8], b[9], b[10], b[11]));
        assert!(h.data_offset == 5 && b[12] >> 4 == 5);
        assert!(u8::from(h.ctl) == b[13] & 0x3f);
        assert!(h.wnd == be16(b[14], b[15]) && h.checksum == be16(b[16], b[17]) && h.urg == be16(b[18], b[19]));
        let out = h.serialize();
        assert!(out.len() == 20);
        let mut i = 0;
        while i < 20 {
            assert!(out[i] == b[i]);
            i += 1;
        }
    }
}

//# id=decode.reencode_reserved_bits fns=TcpHeader::from_bytes+TcpHeader::serialize props=C08 kind=complete pair= known=K-C08-tcp-reserved
// KNOWN FINDING class: reserved / CWR / ECE bits set.  The decoder accepts and drops them
// (RFC 9293 asks receivers to ignore them), so re-encoding differs from the consumed bytes.
#[cfg_attr(kani, kani::proof)]
#[cfg_attr(kani, kani::unwind(22))]
#[cfg_attr(vx_replay, test)]
fn h_tcp_decode_reencode_reserved() {
    let b: [u8; 20] = any();
    let packet_len: usize = any();
    let (s, d): ([u8; 4], [u8; 4]) = (any(), any());
    vx_assume!(b[12] & 0x0f != 0 || b[13] & 0xc0 != 0);
    if let Ok(h) = TcpHeader::from_bytes(b.into_iter(), packet_len, Ipv4Address::new(s), Ipv4Address::new(d)) {
        let out = h.serialize();
        assert!(out.len() == 20);
        let mut i = 0;
        while i < 20 {
            assert!(out[i] == b[i]);
            i += 1;
        }
    }
}

//# id=encode.decode_and_wire_format fns=TcpHeaderBuilder::*+TcpHeader::serialize+TcpHeader::from_bytes props=C08 kind=complete pair=
#[cfg_attr(kani, kani::proof)]
#[cfg_attr(kani, kani::unwind(22))]
#[cfg_attr(vx_replay, test)]
fn h_tcp_encode_decode() {
    let (sp, dp): (u16, u16) = (any(), any());
    let (seq, ack): (u32, u32) = (any(), any());
    let ctl: u8 = any();
    let (wnd, urg): (u16, u16) = (any(), any());
    let text_len: usize = any();
    let (s, d): ([u8; 4], [u8; 4]) = (any(), any());
    let (sa, da) = (Ipv4Address::new(s), Ipv4Address::new(d));
    vx_assume!(ctl < 64);
    // lengths of real buffers never exceed isize::MAX (Rust allocation limit)
    vx_assume!(text_len <= isize::MAX as usize);
    // every value obtainable from the public builder: all 64 flag combinations
    let mut bld = TcpHeaderBuilder::new(sp, dp, seq).wnd(wnd);
    if ctl & 0x10 != 0 { bld = bld.ack(ack); }
    if ctl & 0x20 != 0 { bld = bld.urg(urg); }
    if ctl & 0x08 != 0 { bld = bld.psh(); }
    if ctl & 0x04 != 0 { bld = bld.rst(); }
    if ctl & 0x02 != 0 { bld = bld.syn(); }
    if ctl & 0x01 != 0 { bld = bld.fin(); }
    let r = bld.build(sa, da, [].into_iter(), text_len);
    assert_eq!(r.is_ok(), text_len <= 65535 - 20);
    if let Ok(h) = r {
        let ack_f = if ctl & 0x10 != 0 { ack } else { 0 };
        let urg_f = if ctl & 0x20 != 0 { urg } else { 0 };
        assert!(h.src_port == sp && h.dst_port == dp && h.seq == seq && h.ack == ack_f && h.data_offset == 5);
        assert!(u8::from(h.ctl) == ctl && h.wnd == wnd && h.urg == urg_f);
        let out = h.serialize();
        let want: [u8; 20] = [
            (sp >> 8) as u8, sp as u8, (dp >> 8) as u8, dp as u8,
            (seq >> 24) as u8, (seq >> 16) as u8, (seq >> 8) as u8, seq as u8,
            (ack_f >> 24) as u8, (ack_f >> 16) as u8, (ack_f >> 8) as u8, ack_f as u8,
            0x50, ctl, (wnd >> 8) as u8, wnd as u8, (h.checksum >> 8) as u8, h.checksum as u8, (urg_f >> 8) as u8, urg_f as u8,
        ];
        assert!(out.len() == 20);
        let mut i = 0;
        while i < 20 {
            assert!(out[i] == want[i]);
            i += 1;
        }
        let h2 = TcpHeader::from_bytes(want.into_iter(), text_len + 20, sa, da);
        assert!(h2.is_ok());
        assert!(h2.unwrap() == h);
    }
}

//# id=control.bits fns=Control::* props=C08,C17,C03,C01 kind=complete pair=
// Control accessors / setters are the six flag bits of RFC 9293, independent of each other
#[cfg_attr(kani, kani::proof)]
#[cfg_attr(vx_replay, test)]
fn h_tcp_control_bits() {
    let c: u8 = any();
    let ctl = Control::from(c);
    assert!(ctl.fin() == (c & 1 != 0) && ctl.syn() == (c & 2 != 0) && ctl.rst() == (c & 4 != 0));
    assert!(ctl.psh() == (c & 8 != 0) && ctl.ack() == (c & 16 != 0) && ctl.urg() == (c & 32 != 0));
    let (u, a, p, r, s, f): (bool, bool, bool, bool, bool, bool) = (any(), any(), any(), any(), any(), any());
    let n = Control::new(u, a, p, r, s, f);
    assert!(n.urg() == u && n.ack() == a && n.psh() == p && n.rst() == r && n.syn() == s && n.fin() == f);
    assert!(u8::from(n) < 64);
    let v: bool = any();
    let mut m = ctl;
    m.set_syn(v);
    assert!(m.syn() == v && u8::from(m) & !2 == c & !2);
    let mut m = ctl;
    m.set_ack(v);
    assert!(m.ack() == v && u8::from(m) & !16 == c & !16);
    let mut m = ctl;
    m.set_fin(v);
    assert!(m.fin() == v && u8::from(m) & !1 == c & !1);
    let mut m = ctl;
    m.set_rst(v);
    assert!(m.rst() == v && u8::from(m) & !4 == c & !4);
}

// ---------------------------------------------------------------------------
// compute_checksum configuration (C18): header-only segments (no payload), all
// header fields and both addresses symbolic; RFC 1071 reference in 32-bit arithmetic.
// ---------------------------------------------------------------------------
#[cfg(feature = "compute_checksum")]
fn rfc1071_tcp_sum(b: &[u8; 20], s: &[u8; 4], d: &[u8; 4], tcp_len: u16) -> u16 {
    let mut t: u32 = 0;
    let mut i = 0;
    while i < 20 {
        t += be16(b[i], b[i + 1]) as u32;
        i += 2;
    }
    t += be16(s[0], s[1]) as u32 + be16(s[2], s[3]) as u32 + be16(d[0], d[1]) as u32 + be16(d[2], d[3]) as u32;
    t += 6 + tcp_len as u32;
    t = (t & 0xffff) + (t >> 16);
    t = (t & 0xffff) + (t >> 16);
    t as u16
}

//# id=checksum.emitted_segment_verifies fns=TcpHeaderBuilder::build+TcpHeader::serialize+Checksum::* props=C18 kind=bounded bound=sequence_and_acknowledgment_numbers_drawn_from_four_fixed_values_each_all_other_fields_symbolic features=compute_checksum tier=thorough pair=
// (with seq and ack fully symbolic CBMC gave no verdict in 90 min; the unbounded statement is proved by Verus in unit tcpck)
#[cfg(feature = "compute_checksum")]
#[cfg_attr(kani, kani::proof)]
#[cfg_attr(kani, kani::unwind(22))]
#[cfg_attr(vx_replay, test)]
fn h_ck_tcp_emit_verifies() {
    let (sp, dp): (u16, u16) = (any(), any());
    const V: [u32; 4] = [0, 0xffff_ffff, 0x8000_8000, 0x1234_fedc];
    let (seq, ack): (u32, u32) = (V[(any::<u8>() % 4) as usize], V[(any::<u8>() % 4) as usize]);
    let wnd: u16 = any();
    let (s, d): ([u8; 4], [u8; 4]) = (any(), any());
    let (sa, da) = (Ipv4Address::new(s), Ipv4Address::new(d));
    let h = TcpHeaderBuilder::new(sp, dp, seq).wnd(wnd).ack(ack).build(sa, da, [].into_iter(), 0).unwrap();
    let out = h.serialize();
    let mut b = [0u8; 20];
    let mut i = 0;
    while i < 20 {
        b[i] = out[i];
        i += 1;
    }
    assert!(rfc1071_tcp_sum(&b, &s, &d, 20) == 0xffff);
    assert!(TcpHeader::from_bytes(b.into_iter(), 20, sa, da).is_ok());
}

//# id=checksum.decoder_accepts_conforming_zero_field fns=TcpHeader::from_bytes+Checksum::matches props=C18 kind=complete features=compute_checksum pair=
// class: a conforming sender whose other words sum to 0xffff transmits the checksum 0x0000
#[cfg(feature = "compute_checksum")]
#[cfg_attr(kani, kani::proof)]
#[cfg_attr(kani, kani::unwind(22))]
#[cfg_attr(vx_replay, test)]
fn h_ck_tcp_accepts_conforming_zero_field() {
    let b: [u8; 20] = any();
    let (s, d): ([u8; 4], [u8; 4]) = (any(), any());
    vx_assume!(b[12] >> 4 == 5);
    vx_assume!(rfc1071_tcp_sum(&b, &s, &d, 20) == 0xffff);
    vx_assume!(b[16] == 0 && b[17] == 0);
    assert!(TcpHeader::from_bytes(b.into_iter(), 20, Ipv4Address::new(s), Ipv4Address::new(d)).is_ok());
}

//# id=checksum.decoder_accepts_conforming fns=TcpHeader::from_bytes+Checksum::* props=C18 kind=complete features=compute_checksum tier=thorough pair=
#[cfg(feature = "compute_checksum")]
#[cfg_attr(kani, kani::proof)]
#[cfg_attr(kani, kani::unwind(22))]
#[cfg_attr(vx_replay, test)]
fn h_ck_tcp_accepts_conforming() {
    let b: [u8; 20] = any();
    let (s, d): ([u8; 4], [u8; 4]) = (any(), any());
    vx_assume!(b[12] >> 4 == 5);
    vx_assume!(rfc1071_tcp_sum(&b, &s, &d, 20) == 0xffff);
    vx_assume!(!(b[16] == 0 && b[17] == 0));
    assert!(TcpHeader::from_bytes(b.into_iter(), 20, Ipv4Address::new(s), Ipv4Address::new(d)).is_ok());
}

//# id=checksum.decoder_rejects_corruption fns=TcpHeader::from_bytes+Checksum::* props=C18 kind=complete features=compute_checksum tier=thorough pair=
#[cfg(feature = "compute_checksum")]
#[cfg_attr(kani, kani::proof)]
#[cfg_attr(kani, kani::unwind(22))]
#[cfg_attr(vx_replay, test)]
fn h_ck_tcp_rejects_corruption() {
    let b: [u8; 20] = any();
    let (s, d): ([u8; 4], [u8; 4]) = (any(), any());
    vx_assume!(rfc1071_tcp_sum(&b, &s, &d, 20) != 0xffff);
    assert!(TcpHeader::from_bytes(b.into_iter(), 20, Ipv4Address::new(s), Ipv4Address::new(d)).is_err());
}

//@ unit ipck props=C18,C08,C16
//@ include vx/prelude.rs
//@ include vx/be_bytes.rs
//@ include vx/std_specs.rs
use vstd::std_specs::convert::*;
//@ import-unit subnet
//@ import-unit checksum
verus! {

// ---------------------------------------------------------------------------
// ipv4/ipv4_parsing.rs, emit side, in the compute_checksum configuration (the Checksum functions are the
// compute_checksum variants, imported by contract from unit checksum; in the default configuration the same
// bodies run with the no-op accumulator and the checksum field is 0 - no other byte differs, the bodies below
// contain no other cfg).
// ---------------------------------------------------------------------------
//@ item sim/elvis-core/src/protocols/ipv4/ipv4_parsing.rs :: const BASE_WORDS
//@ end
//@ item sim/elvis-core/src/protocols/ipv4/ipv4_parsing.rs :: const BASE_OCTETS
//@ end
//@ item sim/elvis-core/src/protocols/ipv4/ipv4_parsing.rs :: const FRAGMENT_OFFSET_MASK
//@ end
//@ item sim/elvis-core/src/protocols/ipv4/ipv4_parsing.rs :: struct TypeOfService strip-attrs
//@ rewrite `pub struct TypeOfService\(u8\);` => `#[derive(Clone, Copy)] pub struct TypeOfService(pub u8);` ## visibility only; other derives dropped
//@ end
//@ item sim/elvis-core/src/protocols/ipv4/ipv4_parsing.rs :: struct ControlFlags strip-attrs
//@ rewrite `pub struct ControlFlags\(u8\);` => `#[derive(Clone, Copy)] pub struct ControlFlags(pub u8);` ## visibility only; other derives dropped
//@ end
//@ item sim/elvis-core/src/protocols/ipv4/ipv4_parsing.rs :: struct Ipv4Header strip-attrs
//@ rewrite `pub struct Ipv4Header \{` => `#[derive(Clone, Copy)] pub struct Ipv4Header {` ## derives other than Clone, Copy dropped (not used here)
//@ end
//@ item sim/elvis-core/src/protocols/ipv4/ipv4_parsing.rs :: struct Ipv4HeaderBuilder strip-attrs
//@ rewrite `pub\(super\) struct Ipv4HeaderBuilder \{` => `pub struct Ipv4HeaderBuilder {` ## visibility only
//@ rewrite `(\n\s*)(type_of_service|payload_length|identification|fragment_offset|flags|time_to_live|protocol|source|destination):` => `\1pub \2:` ## visibility only
//@ end
//@ item sim/elvis-core/src/protocols/ipv4/ipv4_parsing.rs :: enum HeaderBuildError
//@ rewrite `#\[derive\(Debug, ThisError, Clone, Copy, PartialEq, Eq\)\]` => `#[derive(Debug, Clone, Copy, PartialEq, Eq)]` ## thiserror derive dropped (Display impl only)
//@ rewrite `#\[error\(\s*"[^"]*"\s*\)\]` => `` ## thiserror attribute dropped
//@ end

impl FromSpecImpl<TypeOfService> for u8 {
    open spec fn obeys_from_spec() -> bool { true }
    open spec fn from_spec(t: TypeOfService) -> Self { t.0 }
}
//@ item sim/elvis-core/src/protocols/ipv4/ipv4_parsing.rs :: impl From<TypeOfService> for u8 id=u8.from_TypeOfService
//@ end
impl TypeOfService {
//@ item sim/elvis-core/src/protocols/ipv4/ipv4_parsing.rs :: impl TypeOfService / fn as_u8 id=TypeOfService.as_u8
//@ contract
    ensures r == self.0,
//@ end
}
impl ControlFlags {
//@ item sim/elvis-core/src/protocols/ipv4/ipv4_parsing.rs :: impl ControlFlags / fn as_u8 id=ControlFlags.as_u8
//@ contract
    ensures r == self.0,
//@ end
}

/// the nine 16-bit words of an option-less IPv4 header that enter the header checksum (the checksum field itself
/// excluded), in wire order (RFC 791 3.1)
pub open spec fn ip_words(tos: u8, tl: u16, id: u16, ff: u16, ttl: u8, proto: u8, s: Ipv4Address, d: Ipv4Address) -> Seq<u16> {
    seq![be16([0x45u8, tos]), tl, id, ff, be16([ttl, proto]),
         be16([s.0[0], s.0[1]]), be16([s.0[2], s.0[3]]), be16([d.0[0], d.0[1]]), be16([d.0[2], d.0[3]])]
}
/// RFC 791 / RFC 1071: one's-complement sum of the header words, checksum field taken as zero
pub open spec fn ip_sum(tos: u8, tl: u16, id: u16, ff: u16, ttl: u8, proto: u8, s: Ipv4Address, d: Ipv4Address) -> u16 {
    oc_fold(0, ip_words(tos, tl, id, ff, ttl, proto, s, d))
}
/// RFC 791 3.1 header layout (20 octets, version 4, IHL 5)
pub open spec fn ip_wire(tos: u8, tl: u16, id: u16, ff: u16, ttl: u8, proto: u8, ck: u16, s: Ipv4Address, d: Ipv4Address) -> Seq<u8> {
    seq![0x45u8, tos, spec_to_be16(tl)[0], spec_to_be16(tl)[1], spec_to_be16(id)[0], spec_to_be16(id)[1],
         spec_to_be16(ff)[0], spec_to_be16(ff)[1], ttl, proto, spec_to_be16(ck)[0], spec_to_be16(ck)[1],
         s.0[0], s.0[1], s.0[2], s.0[3], d.0[0], d.0[1], d.0[2], d.0[3]]
}
/// flags (3 bits) and fragment offset (13 bits) packed into one word
pub open spec fn ip_ff(flags: u8, fo: u16) -> u16 { ((flags as u16) << 13) | (fo & 0x1fff) }

pub open spec fn ip_f9(a: u16, w1: u16, w2: u16, w3: u16, w4: u16, w5: u16, w6: u16, w7: u16, w8: u16, w9: u16) -> u16 {
    ocadd(ocadd(ocadd(ocadd(ocadd(ocadd(ocadd(ocadd(ocadd(a, w1), w2), w3), w4), w5), w6), w7), w8), w9)
}
pub proof fn lemma_ip_fold9(a: u16, ws: Seq<u16>)
    requires ws.len() == 9,
    ensures oc_fold(a, ws) == ip_f9(a, ws[0], ws[1], ws[2], ws[3], ws[4], ws[5], ws[6], ws[7], ws[8]),
{
    reveal_with_fuel(oc_fold, 10);
    let s1 = ws.subrange(1, 9); let s2 = s1.subrange(1, 8); let s3 = s2.subrange(1, 7); let s4 = s3.subrange(1, 6); let s5 = s4.subrange(1, 5);
    let s6 = s5.subrange(1, 4); let s7 = s6.subrange(1, 3); let s8 = s7.subrange(1, 2); let s9 = s8.subrange(1, 1);
    assert(s1[0] == ws[1] && s2[0] == ws[2] && s3[0] == ws[3] && s4[0] == ws[4] && s5[0] == ws[5] && s6[0] == ws[6] && s7[0] == ws[7] && s8[0] == ws[8] && s9.len() == 0);
}
pub proof fn lemma_to_be_of_be32(b: [u8; 4])
    ensures spec_to_be(be32(b)) == b,
{
    lemma_to_be_roundtrip(be32(b));
    lemma_be32_inj(spec_to_be(be32(b)), b);
}

impl Ipv4HeaderBuilder {
    /// what `build` emits for this configuration
    pub open spec fn wire(&self) -> Seq<u8> {
        let tl = (self.payload_length + 20) as u16;
        let ff = ip_ff(self.flags.0, self.fragment_offset);
        ip_wire(self.type_of_service.0, tl, self.identification, ff, self.time_to_live, self.protocol,
            cksum_of(ip_sum(self.type_of_service.0, tl, self.identification, ff, self.time_to_live, self.protocol, self.source, self.destination)),
            self.source, self.destination)
    }

//@ item sim/elvis-core/src/protocols/ipv4/ipv4_parsing.rs :: impl Ipv4HeaderBuilder / fn build id=Ipv4HeaderBuilder.build
//@ rewrite `&(total_length|self\.identification|flags_and_fragment_offset)\.to_be_bytes\(\)` => `&vx_u16_to_be(\1)` ## core::to_be_bytes routed through the contract-carrying wrapper
//@ rewrite `&checksum\.as_u16\(\)\.to_be_bytes\(\)` => `&vx_u16_to_be(checksum.as_u16())` ## core::to_be_bytes routed through the contract-carrying wrapper
//@ rewrite `&self\.(source|destination)\.to_u32\(\)\.to_be_bytes\(\)` => `&vx_u32_to_be(self.\1.to_u32())` ## core::to_be_bytes routed through the contract-carrying wrapper
//@ contract
    ensures
        // (C08) the builder refuses exactly the unrepresentable values
        (r is Ok) == (self.payload_length + 20 <= 65535 && self.fragment_offset <= 0x1fff),   //# refuses_exactly_the_unrepresentable [C08]
        // (C08, C18) the emitted header is the RFC 791 layout carrying the RFC 1071 header checksum
        r matches Ok(v) ==> v@ == self.wire(),   //# emits_the_rfc791_layout_with_the_rfc1071_checksum [C08,C18,C16]
//@ before 1 `let mut out = Vec::with_capacity(BASE_OCTETS as usize);`
        proof {
            let ws = ip_words(type_of_service, total_length, self.identification, flags_and_fragment_offset, self.time_to_live, self.protocol, self.source, self.destination);
            lemma_ip_fold9(0, ws);
            assert((4u8 << 4) | 5u8 == 0x45u8) by (compute);
            assert(checksum.0 == oc_fold(0, ws));
            assert(flags_and_fragment_offset == ip_ff(self.flags.0, self.fragment_offset));
            lemma_to_be_of_be32(self.source.0);
            lemma_to_be_of_be32(self.destination.0);
        }
//@ before 1 `Ok(out)`
        proof { assert(out@ =~= self.wire()); }
//@ end
}

impl Ipv4Header {
    /// the header as `serialize` re-emits it: every field as stored, the checksum recomputed
    pub open spec fn wire(&self) -> Seq<u8> {
        let ff = ip_ff(self.flags.0, self.fragment_offset);
        ip_wire(self.type_of_service.0, self.total_length, self.identification, ff, self.time_to_live, self.protocol,
            cksum_of(ip_sum(self.type_of_service.0, self.total_length, self.identification, ff, self.time_to_live, self.protocol, self.source, self.destination)),
            self.source, self.destination)
    }
//@ item sim/elvis-core/src/protocols/ipv4/ipv4_parsing.rs :: impl Ipv4Header / fn serialize id=Ipv4Header.serialize
//@ contract
    requires self.total_length >= 20,
    ensures
        (r is Ok) == (self.fragment_offset <= 0x1fff),   //# refuses_exactly_the_unrepresentable [C08]
        r matches Ok(v) ==> v@ == self.wire(),   //# re_emits_every_field_with_a_fresh_checksum [C08,C18,C16]
//@ end
}

/// (C18) every IPv4 header the stack emits verifies under the RFC 1071 receiver rule - a lemma over the contract
/// of `build` (the field it emits is `cksum_of(ip_sum(..))`)
pub proof fn lemma_ip_emitted_verifies(tos: u8, tl: u16, id: u16, ff: u16, ttl: u8, proto: u8, s: Ipv4Address, d: Ipv4Address)   //# [C18]
    ensures verifies(ip_sum(tos, tl, id, ff, ttl, proto, s, d), cksum_of(ip_sum(tos, tl, id, ff, ttl, proto, s, d))),
{
    lemma_emitted_verifies(ip_sum(tos, tl, id, ff, ttl, proto, s, d));
}

} // verus!

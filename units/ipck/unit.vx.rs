//@ unit ipck props=C18,C08,C14
//@ include vx/prelude.rs
//@ include vx/be_bytes.rs
//@ include vx/std_specs.rs
use vstd::std_specs::convert::*;
use vstd::std_specs::iter::IteratorSpec;
//@ import-unit subnet
//@ import-unit checksum
verus! {

// ---------------------------------------------------------------------------
// ipv4/ipv4_parsing.rs, emit side, in the compute_checksum configuration (the Checksum functions are the
// compute_checksum variants, imported by contract from unit checksum; in the default configuration the same
// bodies run with the no-op accumulator and the checksum field is 0 - no other byte differs, the bodies below
// contain no other cfg).
// ---------------------------------------------------------------------------
//@ item sim/elvis-core/src/protocols/ipv4/ipv4_parsing.rs :: const BASE_WORDS
//@ end
//@ item sim/elvis-core/src/protocols/ipv4/ipv4_parsing.rs :: const BASE_OCTETS
//@ end
//@ item sim/elvis-core/src/protocols/ipv4/ipv4_parsing.rs :: const FRAGMENT_OFFSET_MASK
//@ end
//@ item sim/elvis-core/src/protocols/ipv4/ipv4_parsing.rs :: struct TypeOfService strip-attrs
//@ rewrite `pub struct TypeOfService\(u8\);` => `#[derive(Clone, Copy)] pub struct TypeOfService(pub u8);` ## visibility only; other derives dropped
//@ end
//@ item sim/elvis-core/src/protocols/ipv4/ipv4_parsing.rs :: struct ControlFlags strip-attrs
//@ rewrite `pub struct ControlFlags\(u8\);` => `#[derive(Clone, Copy)] pub struct ControlFlags(pub u8);` ## visibility only; other derives dropped
//@ end
//@ item sim/elvis-core/src/protocols/ipv4/ipv4_parsing.rs :: struct Ipv4Header strip-attrs
//@ rewrite `pub struct Ipv4Header \{` => `#[derive(Clone, Copy)] pub struct Ipv4Header {` ## derives other than Clone, Copy dropped (not used here)
//@ end
//@ item sim/elvis-core/src/protocols/ipv4/ipv4_parsing.rs :: struct Ipv4HeaderBuilder strip-attrs
//@ rewrite `pub\(super\) struct Ipv4HeaderBuilder \{` => `pub struct Ipv4HeaderBuilder {` ## visibility only
//@ rewrite `(\n\s*)(type_of_service|payload_length|identification|fragment_offset|flags|time_to_live|protocol|source|destination):` => `\1pub \2:` ## visibility only
//@ end
//@ item sim/elvis-core/src/protocols/ipv4/ipv4_parsing.rs :: enum HeaderBuildError
//@ rewrite `#\[derive\(Debug, ThisError, Clone, Copy, PartialEq, Eq\)\]` => `#[derive(Debug, Clone, Copy, PartialEq, Eq)]` ## thiserror derive dropped (Display impl only)
//@ rewrite `#\[error\(\s*"[^"]*"\s*\)\]` => `` ## thiserror attribute dropped
//@ end

impl FromSpecImpl<TypeOfService> for u8 {
    open spec fn obeys_from_spec() -> bool { true }
    open spec fn from_spec(t: TypeOfService) -> Self { t.0 }
}
//@ item sim/elvis-core/src/protocols/ipv4/ipv4_parsing.rs :: impl From<TypeOfService> for u8 id=u8.from_TypeOfService props=C18,C08,C16
//@ end
impl TypeOfService {
//@ item sim/elvis-core/src/protocols/ipv4/ipv4_parsing.rs :: impl TypeOfService / fn as_u8 id=TypeOfService.as_u8 props=C18,C08,C16
//@ contract
    ensures r == self.0,
//@ end
}
impl ControlFlags {
//@ item sim/elvis-core/src/protocols/ipv4/ipv4_parsing.rs :: impl ControlFlags / fn as_u8 id=ControlFlags.as_u8 props=C18,C08,C16
//@ contract
    ensures r == self.0,
//@ end
}

/// the nine 16-bit words of an option-less IPv4 header that enter the header checksum (the checksum field itself
/// excluded), in wire order (RFC 791 3.1)
pub open spec fn ip_words(tos: u8, tl: u16, id: u16, ff: u16, ttl: u8, proto: u8, s: Ipv4Address, d: Ipv4Address) -> Seq<u16> {
    seq![be16([0x45u8, tos]), tl, id, ff, be16([ttl, proto]),
         be16([s.0[0], s.0[1]]), be16([s.0[2], s.0[3]]), be16([d.0[0], d.0[1]]), be16([d.0[2], d.0[3]])]
}
/// RFC 791 / RFC 1071: one's-complement sum of the header words, checksum field taken as zero
pub open spec fn ip_sum(tos: u8, tl: u16, id: u16, ff: u16, ttl: u8, proto: u8, s: Ipv4Address, d: Ipv4Address) -> u16 {
    oc_fold(0, ip_words(tos, tl, id, ff, ttl, proto, s, d))
}
/// RFC 791 3.1 header layout (20 octets, version 4, IHL 5)
pub open spec fn ip_wire(tos: u8, tl: u16, id: u16, ff: u16, ttl: u8, proto: u8, ck: u16, s: Ipv4Address, d: Ipv4Address) -> Seq<u8> {
    seq![0x45u8, tos, spec_to_be16(tl)[0], spec_to_be16(tl)[1], spec_to_be16(id)[0], spec_to_be16(id)[1],
         spec_to_be16(ff)[0], spec_to_be16(ff)[1], ttl, proto, spec_to_be16(ck)[0], spec_to_be16(ck)[1],
         s.0[0], s.0[1], s.0[2], s.0[3], d.0[0], d.0[1], d.0[2], d.0[3]]
}
/// flags (3 bits) and fragment offset (13 bits) packed into one word
pub open spec fn ip_ff(flags: u8, fo: u16) -> u16 { ((flags as u16) << 13) | (fo & 0x1fff) }

pub open spec fn ip_f9(a: u16, w1: u16, w2: u16, w3: u16, w4: u16, w5: u16, w6: u16, w7: u16, w8: u16, w9: u16) -> u16 {
    ocadd(ocadd(ocadd(ocadd(ocadd(ocadd(ocadd(ocadd(ocadd(a, w1), w2), w3), w4), w5), w6), w7), w8), w9)
}
pub proof fn lemma_ip_fold9(a: u16, ws: Seq<u16>)
    requires ws.len() == 9,
    ensures oc_fold(a, ws) == ip_f9(a, ws[0], ws[1], ws[2], ws[3], ws[4], ws[5], ws[6], ws[7], ws[8]),
{
    reveal_with_fuel(oc_fold, 10);
    let s1 = ws.subrange(1, 9); let s2 = s1.subrange(1, 8); let s3 = s2.subrange(1, 7); let s4 = s3.subrange(1, 6); let s5 = s4.subrange(1, 5);
    let s6 = s5.subrange(1, 4); let s7 = s6.subrange(1, 3); let s8 = s7.subrange(1, 2); let s9 = s8.subrange(1, 1);
    assert(s1[0] == ws[1] && s2[0] == ws[2] && s3[0] == ws[3] && s4[0] == ws[4] && s5[0] == ws[5] && s6[0] == ws[6] && s7[0] == ws[7] && s8[0] == ws[8] && s9.len() == 0);
}
pub proof fn lemma_to_be_of_be32(b: [u8; 4])
    ensures spec_to_be(be32(b)) == b,
{
    lemma_to_be_roundtrip(be32(b));
    lemma_be32_inj(spec_to_be(be32(b)), b);
}

impl Ipv4HeaderBuilder {
    /// what `build` emits for this configuration
    pub open spec fn wire(&self) -> Seq<u8> {
        let tl = (self.payload_length + 20) as u16;
        let ff = ip_ff(self.flags.0, self.fragment_offset);
        ip_wire(self.type_of_service.0, tl, self.identification, ff, self.time_to_live, self.protocol,
            cksum_of(ip_sum(self.type_of_service.0, tl, self.identification, ff, self.time_to_live, self.protocol, self.source, self.destination)),
            self.source, self.destination)
    }

//@ item sim/elvis-core/src/protocols/ipv4/ipv4_parsing.rs :: impl Ipv4HeaderBuilder / fn new id=Ipv4HeaderBuilder.new props=C18,C08,C16
//@ rewrite `type_of_service: Default::default\(\),` => `type_of_service: TypeOfService(0),` ## derive(Default) on the u8 newtype TypeOfService is zero
//@ rewrite `flags: Default::default\(\),` => `flags: ControlFlags(0),` ## impl Default for ControlFlags is DEFAULT = new(true, true) = ControlFlags(0) (bit layout checked by the Kani harness fields.type_of_service_and_flags_bits)
//@ contract
    ensures r == (Ipv4HeaderBuilder { type_of_service: TypeOfService(0), payload_length, identification: 0, fragment_offset: 0, flags: ControlFlags(0),
        time_to_live: 30, protocol, source, destination }),   //# fresh_builder [C08,C16]
//@ end
//@ item sim/elvis-core/src/protocols/ipv4/ipv4_parsing.rs :: impl Ipv4HeaderBuilder / fn type_of_service id=Ipv4HeaderBuilder.type_of_service props=C18,C08,C16
//@ rewrite `\bself\b` => `vx_self` ## Verus does not support `mut self` parameters: the parameter is rebound to a mutable local (next two steps)
//@ rewrite `\(mut vx_self` => `(self` ## see above
//@ start
        let mut vx_self = self;
//@ contract
    ensures r == (Ipv4HeaderBuilder { type_of_service: type_of_service, ..self }),   //# sets_only_that_field [C08,C16]
//@ end
//@ item sim/elvis-core/src/protocols/ipv4/ipv4_parsing.rs :: impl Ipv4HeaderBuilder / fn identification id=Ipv4HeaderBuilder.identification props=C18,C08,C16
//@ rewrite `\bself\b` => `vx_self` ## Verus does not support `mut self` parameters: the parameter is rebound to a mutable local (next two steps)
//@ rewrite `\(mut vx_self` => `(self` ## see above
//@ start
        let mut vx_self = self;
//@ contract
    ensures r == (Ipv4HeaderBuilder { identification: identification, ..self }),   //# sets_only_that_field [C08,C16]
//@ end
//@ item sim/elvis-core/src/protocols/ipv4/ipv4_parsing.rs :: impl Ipv4HeaderBuilder / fn fragment_offset id=Ipv4HeaderBuilder.fragment_offset props=C18,C08,C16
//@ rewrite `\bself\b` => `vx_self` ## Verus does not support `mut self` parameters: the parameter is rebound to a mutable local (next two steps)
//@ rewrite `\(mut vx_self` => `(self` ## see above
//@ start
        let mut vx_self = self;
//@ contract
    ensures r == (Ipv4HeaderBuilder { fragment_offset: fragment_offset, ..self }),   //# sets_only_that_field [C08,C16]
//@ end
//@ item sim/elvis-core/src/protocols/ipv4/ipv4_parsing.rs :: impl Ipv4HeaderBuilder / fn flags id=Ipv4HeaderBuilder.flags props=C18,C08,C16
//@ rewrite `\bself\b` => `vx_self` ## Verus does not support `mut self` parameters: the parameter is rebound to a mutable local (next two steps)
//@ rewrite `\(mut vx_self` => `(self` ## see above
//@ start
        let mut vx_self = self;
//@ contract
    ensures r == (Ipv4HeaderBuilder { flags: flags, ..self }),   //# sets_only_that_field [C08,C16]
//@ end
//@ item sim/elvis-core/src/protocols/ipv4/ipv4_parsing.rs :: impl Ipv4HeaderBuilder / fn build id=Ipv4HeaderBuilder.build props=C18,C08,C16
//@ rewrite `&(total_length|self\.identification|flags_and_fragment_offset)\.to_be_bytes\(\)` => `&vx_u16_to_be(\1)` ## core::to_be_bytes routed through the contract-carrying wrapper
//@ rewrite `&checksum\.as_u16\(\)\.to_be_bytes\(\)` => `&vx_u16_to_be(checksum.as_u16())` ## core::to_be_bytes routed through the contract-carrying wrapper
//@ rewrite `&self\.(source|destination)\.to_u32\(\)\.to_be_bytes\(\)` => `&vx_u32_to_be(self.\1.to_u32())` ## core::to_be_bytes routed through the contract-carrying wrapper
//@ contract
    ensures
        // (C08) the builder refuses exactly the unrepresentable values
        (r is Ok) == (self.payload_length + 20 <= 65535 && self.fragment_offset <= 0x1fff),   //# refuses_exactly_the_unrepresentable [C08]
        // (C08, C18) the emitted header is the RFC 791 layout carrying the RFC 1071 header checksum
        r matches Ok(v) ==> v@ == self.wire(),   //# emits_the_rfc791_layout_with_the_rfc1071_checksum [C08,C18,C16]
//@ before 1 `let mut out = Vec::with_capacity(BASE_OCTETS as usize);`
        proof {
            let ws = ip_words(type_of_service, total_length, self.identification, flags_and_fragment_offset, self.time_to_live, self.protocol, self.source, self.destination);
            lemma_ip_fold9(0, ws);
            assert((4u8 << 4) | 5u8 == 0x45u8) by (compute);
            assert(checksum.0 == oc_fold(0, ws));
            assert(flags_and_fragment_offset == ip_ff(self.flags.0, self.fragment_offset));
            lemma_to_be_of_be32(self.source.0);
            lemma_to_be_of_be32(self.destination.0);
        }
//@ before 1 `Ok(out)`
        proof { assert(out@ =~= self.wire()); }
//@ end
}

impl Ipv4Header {
    /// the header as `serialize` re-emits it: every field as stored, the checksum recomputed
    pub open spec fn wire(&self) -> Seq<u8> {
        let ff = ip_ff(self.flags.0, self.fragment_offset);
        ip_wire(self.type_of_service.0, self.total_length, self.identification, ff, self.time_to_live, self.protocol,
            cksum_of(ip_sum(self.type_of_service.0, self.total_length, self.identification, ff, self.time_to_live, self.protocol, self.source, self.destination)),
            self.source, self.destination)
    }
//@ item sim/elvis-core/src/protocols/ipv4/ipv4_parsing.rs :: impl Ipv4Header / fn serialize id=Ipv4Header.serialize props=C18,C08,C16
//@ contract
    requires self.total_length >= 20,
    ensures
        (r is Ok) == (self.fragment_offset <= 0x1fff),   //# refuses_exactly_the_unrepresentable [C08]
        r matches Ok(v) ==> v@ == self.wire(),   //# re_emits_every_field_with_a_fresh_checksum [C08,C18,C16]
//@ end
}


// ---------------------------------------------------------------------------
// utility.rs: BytesExt readers over an arbitrary byte iterator (same contracts as in unit tcpck)
// ---------------------------------------------------------------------------
// ---------------------------------------------------------------------------
/// taking n bytes off the front of an iterator
pub open spec fn took(before: Seq<u8>, after: Seq<u8>, n: int) -> bool {
    before.len() >= n && after == before.subrange(n, before.len() as int)
}

pub trait BytesExt: Iterator<Item = u8> {
//@ item sim/elvis-core/src/protocols/utility.rs :: trait BytesExt / fn next_u8 id=BytesExt.next_u8
//@ contract
    requires (*old(self)).obeys_prophetic_iter_laws(),
    ensures
        (*final(self)).obeys_prophetic_iter_laws(),
        (*old(self)).remaining().len() >= 1 ==> r == Some((*old(self)).remaining()[0]) && took((*old(self)).remaining(), (*final(self)).remaining(), 1),   //# reads_one_byte [C08,C14]
        (*old(self)).remaining().len() < 1 ==> r is None,   //# none_when_exhausted [C14]
//@ end
//@ item sim/elvis-core/src/protocols/utility.rs :: trait BytesExt / fn next_u16_be id=BytesExt.next_u16_be
//@ rewrite `u16::from_be_bytes\(arr\)` => `vx_u16_from_be(arr)` ## core::from_be_bytes routed through the contract-carrying wrapper
//@ contract
    requires (*old(self)).obeys_prophetic_iter_laws(),
    ensures
        (*final(self)).obeys_prophetic_iter_laws(),
        (*old(self)).remaining().len() >= 2 ==> r == Some(be16([(*old(self)).remaining()[0], (*old(self)).remaining()[1]])) && took((*old(self)).remaining(), (*final(self)).remaining(), 2),   //# reads_big_endian_u16 [C08,C14]
        (*old(self)).remaining().len() < 2 ==> r is None,   //# none_when_too_short [C14]
//@ after 1 `let arr = [self.next()?, self.next()?];`
        proof {
            let r0 = (*old(self)).remaining();
            assert((*self).remaining() =~= r0.subrange(2, r0.len() as int));
            assert(arr@ =~= seq![r0[0], r0[1]]);
        }
//@ end
//@ item sim/elvis-core/src/protocols/utility.rs :: trait BytesExt / fn next_u32_be id=BytesExt.next_u32_be
//@ rewrite `u32::from_be_bytes\(arr\)` => `vx_u32_from_be(arr)` ## core::from_be_bytes routed through the contract-carrying wrapper
//@ contract
    requires (*old(self)).obeys_prophetic_iter_laws(),
    ensures
        (*final(self)).obeys_prophetic_iter_laws(),
        (*old(self)).remaining().len() >= 4 ==> r == Some(be32([(*old(self)).remaining()[0], (*old(self)).remaining()[1], (*old(self)).remaining()[2], (*old(self)).remaining()[3]])) && took((*old(self)).remaining(), (*final(self)).remaining(), 4),   //# reads_big_endian_u32 [C08,C14]
        (*old(self)).remaining().len() < 4 ==> r is None,   //# none_when_too_short [C14]
//@ after 1 `let arr = [self.next()?, self.next()?, self.next()?, self.next()?];`
        proof {
            let r0 = (*old(self)).remaining();
            assert((*self).remaining() =~= r0.subrange(4, r0.len() as int));
            assert(arr@ =~= seq![r0[0], r0[1], r0[2], r0[3]]);
        }
//@ end
//@ item sim/elvis-core/src/protocols/utility.rs :: trait BytesExt / fn next_n id=BytesExt.next_n mode=sig
//@ contract
    // ASSUMED contract (body not verified: const-generic array filled by `for element in &mut result`)
    requires (*old(self)).obeys_prophetic_iter_laws(),
    ensures
        (*final(self)).obeys_prophetic_iter_laws(),
        (*old(self)).remaining().len() >= N ==> r is Some && r->0@ == (*old(self)).remaining().subrange(0, N as int) && took((*old(self)).remaining(), (*final(self)).remaining(), N as int),
        (*old(self)).remaining().len() < N ==> r is None,
//@ end
//@ item sim/elvis-core/src/protocols/utility.rs :: trait BytesExt / fn next_ipv4addr id=BytesExt.next_ipv4addr mode=sig
//@ contract
    // ASSUMED contract (one-line body `self.next_u32_be().map(Ipv4Address::from)` not verified here: Verus' trait-cycle
    // check rejects a call to `From<u32> for Ipv4Address` from a default method of a blanket-implemented trait)
    requires (*old(self)).obeys_prophetic_iter_laws(),
    ensures
        (*final(self)).obeys_prophetic_iter_laws(),
        (*old(self)).remaining().len() >= 4 ==> r == Some(Ipv4Address([(*old(self)).remaining()[0], (*old(self)).remaining()[1], (*old(self)).remaining()[2], (*old(self)).remaining()[3]])) && took((*old(self)).remaining(), (*final(self)).remaining(), 4),
        (*old(self)).remaining().len() < 4 ==> r is None,   //# none_when_too_short [C14]
//@ end
}
//@ item sim/elvis-core/src/protocols/utility.rs :: impl BytesExt for T id=BytesExt.blanket_impl
//@ end




// ---------------------------------------------------------------------------
// tcp/tcp_parsing.rs in the compute_checksum configuration (Checksum functions: compute_checksum variants, imported by


// ---------------------------------------------------------------------------
// ipv4/ipv4_parsing.rs, decode side (compute_checksum configuration)
// ---------------------------------------------------------------------------
//@ item sim/elvis-core/src/protocols/ipv4/ipv4_parsing.rs :: enum ParseError
//@ rewrite `#\[derive\(Debug, ThisError, Clone, Copy, PartialEq, Eq\)\]` => `#[derive(Debug, Clone, Copy, PartialEq, Eq)]` ## thiserror derive dropped (Display impl only)
//@ rewrite `#\[error\(\s*"[^"]*"\s*\)\]` => `` ## thiserror attribute dropped
//@ rewrite `(Reliability|Delay|Throughput|Precedence)\(#\[from\] \w+\),` => `` ## variants wrapping the TOS sub-field errors dropped (never constructed by the decoder)
//@ end
impl FromSpecImpl<u8> for TypeOfService {
    open spec fn obeys_from_spec() -> bool { true }
    open spec fn from_spec(b: u8) -> Self { TypeOfService(b) }
}
//@ item sim/elvis-core/src/protocols/ipv4/ipv4_parsing.rs :: impl From<u8> for TypeOfService id=TypeOfService.from_u8
//@ end
impl FromSpecImpl<u8> for ControlFlags {
    open spec fn obeys_from_spec() -> bool { true }
    open spec fn from_spec(b: u8) -> Self { ControlFlags(b) }
}
//@ item sim/elvis-core/src/protocols/ipv4/ipv4_parsing.rs :: impl From<u8> for ControlFlags id=ControlFlags.from_u8
//@ end

/// the fields of an option-less IPv4 header at their RFC 791 offsets
pub open spec fn ip_fields(all: Seq<u8>) -> Ipv4Header {
    let ff = be16([all[6], all[7]]);
    Ipv4Header { ihl: 5, type_of_service: TypeOfService(all[1]), total_length: be16([all[2], all[3]]), identification: be16([all[4], all[5]]),
        fragment_offset: ff & 0x1fff, flags: ControlFlags((ff >> 13) as u8), time_to_live: all[8], protocol: all[9], checksum: be16([all[10], all[11]]),
        source: Ipv4Address([all[12], all[13], all[14], all[15]]), destination: Ipv4Address([all[16], all[17], all[18], all[19]]) }
}
/// the decoder's acceptance condition: complete, version 4, IHL 5, reserved TOS bits and reserved flag zero, total length
/// at least the header, and the checksum field is the one a conforming sender computes (either representation of zero)
pub open spec fn ip_accepts(all: Seq<u8>) -> bool {
    &&& all.len() >= 20 && all[0] == 0x45 && all[1] & 0b11 == 0 && be16([all[2], all[3]]) >= 20 && (be16([all[6], all[7]]) >> 13) as u8 & 0b100 == 0
    &&& ({
        let h = ip_fields(all);
        let sum = ip_sum(all[1], h.total_length, h.identification, be16([all[6], all[7]]), h.time_to_live, h.protocol, h.source, h.destination);
        cksum_of(sum) == h.checksum || (cksum_of(sum) == 0xffff && h.checksum == 0)
    })
}

impl Ipv4Header {
//@ item sim/elvis-core/src/protocols/ipv4/ipv4_parsing.rs :: impl Ipv4Header / fn from_bytes id=Ipv4Header.from_bytes
//@ rewrite `mut bytes: impl Iterator<Item = u8>` => `bytes0: impl Iterator<Item = u8>` ## the `mut` parameter is renamed bytes0 and rebound by `let mut bytes = bytes0;` as the first statement
//@ contract
    requires bytes0.obeys_prophetic_iter_laws(),
    ensures
        // (C18, C14) a header is accepted exactly when it is complete, well formed and carries the checksum a conforming
        //            sender computes; every other byte string is an error, never a panic
        r is Ok <==> ip_accepts(bytes0.remaining()),   //# accepts_exactly_the_verifying_headers [C18,C14]
        // (C08) the decoded fields are the RFC 791 fields
        r matches Ok(h) ==> h == ip_fields(bytes0.remaining()),   //# fields_at_their_rfc791_offsets [C08]
//@ start
        let mut bytes = bytes0;
        let ghost all = bytes0.remaining();
//@ after 1 `let version_and_ihl = bytes.next_u8().ok_or(HTS)?;`
        proof {
            assert(bytes.remaining() =~= all.subrange(1, all.len() as int));
            let v = version_and_ihl;
            assert((v >> 4 == 4 && v & 0b1111 == 5) <==> v == 0x45u8) by (bit_vector);
        }
//@ after 1 `let type_of_service_byte = bytes.next_u8().ok_or(HTS)?;`
        proof { assert(bytes.remaining() =~= all.subrange(2, all.len() as int)); }
//@ after 1 `let total_length = bytes.next_u16_be().ok_or(HTS)?;`
        proof { assert(bytes.remaining() =~= all.subrange(4, all.len() as int)); }
//@ after 1 `let identification = bytes.next_u16_be().ok_or(HTS)?;`
        proof { assert(bytes.remaining() =~= all.subrange(6, all.len() as int)); }
//@ after 1 `let flags_and_fragment_offset_bytes = bytes.next_u16_be().ok_or(HTS)?;`
        proof { assert(bytes.remaining() =~= all.subrange(8, all.len() as int)); }
//@ after 1 `let time_to_live = bytes.next_u8().ok_or(HTS)?;`
        proof { assert(bytes.remaining() =~= all.subrange(9, all.len() as int)); }
//@ after 1 `let protocol = bytes.next_u8().ok_or(HTS)?;`
        proof { assert(bytes.remaining() =~= all.subrange(10, all.len() as int)); }
//@ after 1 `let expected_checksum = bytes.next_u16_be().ok_or(HTS)?;`
        proof { assert(bytes.remaining() =~= all.subrange(12, all.len() as int)); }
//@ after 1 `let source: Ipv4Address = bytes.next_ipv4addr().ok_or(HTS)?;`
        proof { assert(bytes.remaining() =~= all.subrange(16, all.len() as int)); }
//@ after 1 `let destination: Ipv4Address = bytes.next_ipv4addr().ok_or(HTS)?;`
        proof { assert(bytes.remaining() =~= all.subrange(20, all.len() as int)); }
//@ before 1 `let actual_checksum = checksum.as_u16();`
        proof {
            let ws = ip_words(type_of_service_byte, total_length, identification, flags_and_fragment_offset_bytes, time_to_live, protocol, source, destination);
            lemma_ip_fold9(0, ws);
            assert(checksum.0 == oc_fold(0, ws));
        }
//@ end
}


/// (C08, C18) every header the builder emits is accepted by the stack's own decoder and decodes to the fields it was built
/// from - a lemma over the contracts of `build` and `from_bytes` (flags as the two-bit DF/MF value the type can hold,
/// reserved TOS bits zero as `TypeOfService::new` produces them)
pub proof fn lemma_ip_emitted_is_accepted(b: Ipv4HeaderBuilder)   //# [C08,C18]
    requires b.payload_length + 20 <= 65535, b.fragment_offset <= 0x1fff, b.flags.0 < 4, b.type_of_service.0 & 0b11 == 0,
    ensures
        ip_accepts(b.wire()),
        ip_fields(b.wire()) == (Ipv4Header { ihl: 5, type_of_service: b.type_of_service, total_length: (b.payload_length + 20) as u16, identification: b.identification,
            fragment_offset: b.fragment_offset, flags: b.flags, time_to_live: b.time_to_live, protocol: b.protocol,
            checksum: cksum_of(ip_sum(b.type_of_service.0, (b.payload_length + 20) as u16, b.identification, ip_ff(b.flags.0, b.fragment_offset), b.time_to_live, b.protocol, b.source, b.destination)),
            source: b.source, destination: b.destination }),
{
    let all = b.wire();
    let tl = (b.payload_length + 20) as u16;
    let ff = ip_ff(b.flags.0, b.fragment_offset);
    let ck = cksum_of(ip_sum(b.type_of_service.0, tl, b.identification, ff, b.time_to_live, b.protocol, b.source, b.destination));
    lemma_to_be16_roundtrip(tl); lemma_to_be16_roundtrip(b.identification); lemma_to_be16_roundtrip(ff); lemma_to_be16_roundtrip(ck);
    assert([all[2], all[3]] =~= spec_to_be16(tl));
    assert([all[4], all[5]] =~= spec_to_be16(b.identification));
    assert([all[6], all[7]] =~= spec_to_be16(ff));
    assert([all[10], all[11]] =~= spec_to_be16(ck));
    let (fl, fo) = (b.flags.0, b.fragment_offset);
    assert(fl < 4 && fo <= 0x1fff ==> ((((fl as u16) << 13) | (fo & 0x1fff)) >> 13) as u8 == fl && (((fl as u16) << 13) | (fo & 0x1fff)) & 0x1fff == fo
        && (((((fl as u16) << 13) | (fo & 0x1fff)) >> 13) as u8) & 0b100 == 0) by (bit_vector);
    assert(Ipv4Address([all[12], all[13], all[14], all[15]]) == b.source) by { assert([all[12], all[13], all[14], all[15]] =~= b.source.0); }
    assert(Ipv4Address([all[16], all[17], all[18], all[19]]) == b.destination) by { assert([all[16], all[17], all[18], all[19]] =~= b.destination.0); }
}

/// (C18) every IPv4 header the stack emits verifies under the RFC 1071 receiver rule - a lemma over the contract
/// of `build` (the field it emits is `cksum_of(ip_sum(..))`)
pub proof fn lemma_ip_emitted_verifies(tos: u8, tl: u16, id: u16, ff: u16, ttl: u8, proto: u8, s: Ipv4Address, d: Ipv4Address)   //# [C18]
    ensures verifies(ip_sum(tos, tl, id, ff, ttl, proto, s, d), cksum_of(ip_sum(tos, tl, id, ff, ttl, proto, s, d))),
{
    lemma_emitted_verifies(ip_sum(tos, tl, id, ff, ttl, proto, s, d));
}

} // verus!

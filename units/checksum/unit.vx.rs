//@ unit checksum props=C18
//@ include vx/prelude.rs
//@ include vx/be_bytes.rs
use vstd::std_specs::iter::IteratorSpec;
verus! {

pub assume_specification [u16::overflowing_add] (a: u16, b: u16) -> (r: (u16, bool))
    ensures
        r.1 == (a as int + b as int >= 65536),
        r.0 as int == (if a as int + b as int >= 65536 { a as int + b as int - 65536 } else { a as int + b as int });

// ---------------------------------------------------------------------------
// RFC 1071: one's-complement addition of 16-bit words (end-around carry)
// ---------------------------------------------------------------------------
pub open spec fn ocadd(a: u16, b: u16) -> u16 {
    let s = a as int + b as int;
    if s >= 65536 { (s - 65535) as u16 } else { s as u16 }
}

/// fold a sequence of words into an accumulator, left to right
pub open spec fn oc_fold(acc: u16, ws: Seq<u16>) -> u16
    decreases ws.len(),
{
    if ws.len() == 0 { acc } else { oc_fold(ocadd(acc, ws[0]), ws.subrange(1, ws.len() as int)) }
}

/// the big-endian 16-bit words of a byte string, an odd trailing byte padded with zero
pub open spec fn words_be(bs: Seq<u8>) -> Seq<u16>
    decreases bs.len(),
{
    if bs.len() == 0 { Seq::empty() }
    else if bs.len() == 1 { seq![be16([bs[0], 0u8])] }
    else { seq![be16([bs[0], bs[1]])] + words_be(bs.subrange(2, bs.len() as int)) }
}

/// what the sender puts into the checksum field for an accumulated sum
pub open spec fn cksum_of(sum: u16) -> u16 { if sum == 0xffff { 0xffffu16 } else { !sum } }

/// RFC 1071 receiver rule: the one's-complement sum of all words including the checksum field is all ones
pub open spec fn verifies(sum_without_field: u16, field: u16) -> bool { ocadd(sum_without_field, field) == 0xffff }

pub proof fn lemma_ocadd_comm_assoc(a: u16, b: u16, c: u16)   //# [C18]
    ensures
        ocadd(a, b) == ocadd(b, a),
        ocadd(ocadd(a, b), c) == ocadd(a, ocadd(b, c)),
        ocadd(a, 0) == a,
{
}

/// the emitted checksum always verifies
pub proof fn lemma_emitted_verifies(sum: u16)   //# [C18]
    ensures verifies(sum, cksum_of(sum)),
{
    assert(sum != 0xffff ==> (!sum) as int == 65535 - sum as int) by (bit_vector);
}

/// the decoder's equality test rejects every packet whose sum changed
/// (0x0000 and 0xffff, the two zeros, are the only sums mapped to the same field)
pub proof fn lemma_changed_sum_rejected(s1: u16, s2: u16)   //# [C18]
    requires s1 != s2, !(s1 == 0 && s2 == 0xffff), !(s1 == 0xffff && s2 == 0),
    ensures cksum_of(s1) != cksum_of(s2),
{
    assert(s1 != s2 ==> !s1 != !s2) by (bit_vector);
    assert(s1 != 0 ==> !s1 != 0xffffu16) by (bit_vector);
    assert(s2 != 0 ==> !s2 != 0xffffu16) by (bit_vector);
}

/// folding is insensitive to where the words are cut: fold(acc, a ++ b) = fold(fold(acc, a), b)
pub proof fn lemma_fold_append(acc: u16, a: Seq<u16>, b: Seq<u16>)   //# [C18]
    ensures oc_fold(acc, a + b) == oc_fold(oc_fold(acc, a), b),
    decreases a.len(),
{
    if a.len() == 0 {
        assert(a + b =~= b);
    } else {
        let s = a + b;
        assert(s[0] == a[0]);
        assert(s.subrange(1, s.len() as int) =~= a.subrange(1, a.len() as int) + b);
        lemma_fold_append(ocadd(acc, a[0]), a.subrange(1, a.len() as int), b);
    }
}

/// accumulating into a non-empty accumulator = adding the stand-alone sum (commutative monoid)
pub proof fn lemma_fold_acc(acc: u16, ws: Seq<u16>)   //# [C18]
    ensures oc_fold(acc, ws) == ocadd(acc, oc_fold(0, ws)),
    decreases ws.len(),
{
    if ws.len() == 0 {
    } else {
        let t = ws.subrange(1, ws.len() as int);
        lemma_fold_acc(ocadd(acc, ws[0]), t);
        lemma_fold_acc(ocadd(0, ws[0]), t);
        lemma_ocadd_comm_assoc(acc, ws[0], oc_fold(0, t));
    }
}

//@ item sim/elvis-core/src/protocols/utility.rs :: struct Checksum strip-attrs
//@ rewrite `pub struct Checksum\(u16\);` => `#[derive(Clone, Copy)] pub struct Checksum(pub u16);` ## visibility only; unused derives dropped
//@ end

impl Checksum {
//@ item sim/elvis-core/src/protocols/utility.rs :: impl Checksum / fn new id=Checksum.new
//@ rewrite `Self::default\(\)` => `Checksum(0)` ## derive(Default) on a u16 newtype is zero (Verus has no spec for the derived Default)
//@ contract
    ensures r.0 == 0,
//@ end

//@ item sim/elvis-core/src/protocols/utility.rs :: impl Checksum / fn add_u16#1 id=Checksum.add_u16
//@ rewrite `#\[cfg\(feature = "compute_checksum"\)\]` => `` ## selects the compute_checksum variant of the item
//@ contract
    ensures final(self).0 == ocadd(old(self).0, value),   //# ones_complement_add [C18]
//@ end

//@ item sim/elvis-core/src/protocols/utility.rs :: impl Checksum / fn add_u8 id=Checksum.add_u8
//@ rewrite `u16::from_be_bytes\(` => `vx_u16_from_be(` ## core::from_be_bytes routed through the contract-carrying wrapper
//@ contract
    ensures final(self).0 == ocadd(old(self).0, be16([a, b])),   //# adds_big_endian_word [C18]
//@ end

//@ item sim/elvis-core/src/protocols/utility.rs :: impl Checksum / fn add_u32 id=Checksum.add_u32
//@ contract
    ensures final(self).0 == ocadd(ocadd(old(self).0, be16([value[0], value[1]])), be16([value[2], value[3]])),   //# adds_two_words [C18]
//@ end

//@ item sim/elvis-core/src/protocols/utility.rs :: impl Checksum / fn accumulate_remainder#1 id=Checksum.accumulate_remainder
//@ rewrite `#\[cfg\(feature = "compute_checksum"\)\]` => `#[verifier::exec_allows_no_decreases_clause]` ## selects the compute_checksum variant; termination of the payload loop is NOT verified (it is the finiteness of the caller's iterator)
//@ contract
    requires payload.obeys_prophetic_iter_laws(),
    ensures final(self).0 == oc_fold(old(self).0, words_be(payload.remaining())),   //# sums_payload_words_zero_padded [C18]
//@ loop 1
            invariant
                payload.obeys_prophetic_iter_laws(),
                cur == payload.remaining(),
                oc_fold(self.0, words_be(cur)) == oc_fold(old(self).0, words_be(all)),
            ensures
                self.0 == oc_fold(old(self).0, words_be(all)),
//@ before 1 `while let Some(a) = payload.next()`
        let ghost all = payload.remaining();
        let ghost mut cur = all;
//@ before 1 `self.add_u8(a, payload.next().unwrap_or(0));`
            let ghost acc0 = self.0;
//@ after 1 `self.add_u8(a, payload.next().unwrap_or(0));`
            proof {
                let rest = payload.remaining();
                if cur.len() >= 2 {
                    assert(rest =~= cur.subrange(2, cur.len() as int));
                    let w = be16([cur[0], cur[1]]);
                    assert(words_be(cur) =~= seq![w] + words_be(rest));
                    assert((seq![w] + words_be(rest)).subrange(1, 1 + words_be(rest).len() as int) =~= words_be(rest));
                    assert(oc_fold(acc0, words_be(cur)) == oc_fold(ocadd(acc0, w), words_be(rest)));
                } else {
                    assert(cur.len() == 1);
                    assert(rest.len() == 0);
                    let w = be16([cur[0], 0u8]);
                    assert(words_be(cur) =~= seq![w]);
                    assert(seq![w].subrange(1, 1) =~= Seq::<u16>::empty());
                    assert(words_be(rest) =~= Seq::<u16>::empty());
                    reveal_with_fuel(oc_fold, 2);
                    assert(oc_fold(acc0, seq![w]) == ocadd(acc0, w));
                }
                cur = rest;
            }
//@ end

//@ item sim/elvis-core/src/protocols/utility.rs :: impl Checksum / fn as_u16#1 id=Checksum.as_u16
//@ rewrite `#\[cfg\(feature = "compute_checksum"\)\]` => `` ## selects the compute_checksum variant of the item
//@ contract
    ensures r == cksum_of(self.0),   //# complement_with_nonzero_zero [C18]
//@ end

//@ item sim/elvis-core/src/protocols/utility.rs :: impl Checksum / fn matches id=Checksum.matches
//@ contract
    // a received field is accepted when it is what a conforming sender emits for this sum - in either representation of zero
    ensures r == (cksum_of(self.0) == field || (cksum_of(self.0) == 0xffff && field == 0)),   //# accepts_both_zero_representations [C18]
//@ end
}

} // verus!

// Kani harnesses for protocols/utility.rs — injected (add-only) as `mod vx_kani_checksum`.
use super::*;
#[path = "/verif/vx/kani_support.rs"]
mod sup;
use sup::*;

//# id=assume.overflowing_add props=C18 kind=complete pair=
// validates the assumed specification of u16::overflowing_add used by the Verus unit
#[cfg_attr(kani, kani::proof)]
#[cfg_attr(vx_replay, test)]
fn h_assume_overflowing_add() {
    let (a, b): (u16, u16) = (any(), any());
    let (s, c) = a.overflowing_add(b);
    let t = a as u32 + b as u32;
    assert!(c == (t >= 65536));
    assert!(s as u32 == if t >= 65536 { t - 65536 } else { t });
    let e: [u8; 2] = any();
    assert!(u16::from_be_bytes(e) == ((e[0] as u16) << 8) | (e[1] as u16));
}

//# id=checksum.add_u16_matches_rfc1071 fns=Checksum::add_u16+add_u8+add_u32+as_u16 props=C18 kind=complete features=compute_checksum pair=checksum.Checksum.add_u16.ones_complement_add,checksum.Checksum.as_u16.complement_with_nonzero_zero,checksum.Checksum.add_u32.adds_two_words,checksum.Checksum.add_u8.adds_big_endian_word
// the accumulator agrees with a 32-bit deferred-carry reference on any four words, and the emitted field verifies
#[cfg(feature = "compute_checksum")]
#[cfg_attr(kani, kani::proof)]
#[cfg_attr(vx_replay, test)]
fn h_ck_accumulator() {
    let (w0, w1, w2, w3): (u16, u16, u16, u16) = (any(), any(), any(), any());
    let mut c = Checksum::new();
    c.add_u16(w0);
    c.add_u8((w1 >> 8) as u8, w1 as u8);
    c.add_u32([(w2 >> 8) as u8, w2 as u8, (w3 >> 8) as u8, w3 as u8]);
    let mut s: u32 = w0 as u32 + w1 as u32 + w2 as u32 + w3 as u32;
    s = (s & 0xffff) + (s >> 16);
    s = (s & 0xffff) + (s >> 16);
    // observable result only (the accumulator's representation is not part of the contract)
    let field = c.as_u16();
    assert!(field as u32 == if s == 0xffff { 0xffff } else { !s & 0xffff });
    let mut t: u32 = s + field as u32;
    t = (t & 0xffff) + (t >> 16);
    assert!(t == 0xffff);
    assert!(field != 0);
}

//# id=checksum.payload_words fns=Checksum::accumulate_remainder+as_u16 props=C18 kind=bounded bound=payload_of_0_to_5_bytes features=compute_checksum pair=checksum.Checksum.accumulate_remainder.sums_payload_words_zero_padded
// bounded twin of the Verus loop proof: payloads of 0..=5 bytes (odd lengths zero padded)
#[cfg(feature = "compute_checksum")]
#[cfg_attr(kani, kani::proof)]
#[cfg_attr(kani, kani::unwind(8))]
#[cfg_attr(vx_replay, test)]
fn h_ck_payload() {
    let p: [u8; 5] = any();
    let n: usize = any();
    vx_assume!(n <= 5);
    let mut c = Checksum::new();
    let seed: u16 = any();
    c.add_u16(seed);
    c.accumulate_remainder(p.iter().cloned().take(n));
    let b = |i: usize| if i < n { p[i] as u32 } else { 0 };
    let mut s: u32 = seed as u32;
    if n > 0 { s += (b(0) << 8) | b(1); }
    if n > 2 { s += (b(2) << 8) | b(3); }
    if n > 4 { s += b(4) << 8; }
    s = (s & 0xffff) + (s >> 16);
    s = (s & 0xffff) + (s >> 16);
    assert!(c.as_u16() as u32 == if s == 0xffff { 0xffff } else { !s & 0xffff });
}

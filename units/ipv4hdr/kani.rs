// Kani harnesses for ipv4/ipv4_parsing.rs — injected (add-only) as
// `mod vx_kani_ipv4hdr`.  Default feature set: Checksum is a no-op, so the
// codec is loop-free => every harness is a complete proof over all inputs.
use super::*;
#[path = "/verif/vx/kani_support.rs"]
mod sup;
use sup::*;

fn be16(a: u8, b: u8) -> u16 { ((a as u16) << 8) | b as u16 }

//# id=decode.total fns=Ipv4Header::from_bytes props=C14,C08 kind=complete pair=
// no byte string of any length 0..=24 makes the decoder panic; shorter than 20 bytes is never accepted
#[cfg_attr(kani, kani::proof)]
#[cfg_attr(vx_replay, test)]
fn h_ipv4_decode_total() {
    let b: [u8; 24] = any();
    let len: usize = any();
    vx_assume!(len <= 24);
    let r = Ipv4Header::from_bytes(b.iter().cloned().take(len));
    if len < 20 {
        assert!(r.is_err());
    }
    vx_cover!(r.is_ok());
}

//# id=decode.reencode fns=Ipv4Header::from_bytes+Ipv4Header::serialize+Ipv4HeaderBuilder::build props=C08,C14,C16 kind=complete pair=ipck.Ipv4Header.serialize.re_emits_every_field_with_a_fresh_checksum
// for every accepted 20-byte string, re-encoding the decoded value reproduces the bytes consumed
#[cfg_attr(kani, kani::proof)]
#[cfg_attr(kani, kani::unwind(22))]
#[cfg_attr(vx_replay, test)]
fn h_ipv4_decode_reencode() {
    let b: [u8; 20] = any();
    if let Ok(h) = Ipv4Header::from_bytes(b.into_iter()) {
        // field extraction per RFC 791
        assert!(h.ihl == 5 && b[0] == 0x45);
        assert!(h.type_of_service.as_u8() == b[1]);
        assert!(h.total_length == be16(b[2], b[3]));
        assert!(h.identification == be16(b[4], b[5]));
        assert!(h.fragment_offset == be16(b[6], b[7]) & 0x1fff);
        assert!(h.flags.as_u8() == b[6] >> 5);
        assert!(h.time_to_live == b[8] && h.protocol == b[9]);
        assert!(h.checksum == be16(b[10], b[11]));
        assert!(h.source.to_bytes() == [b[12], b[13], b[14], b[15]]);
        assert!(h.destination.to_bytes() == [b[16], b[17], b[18], b[19]]);
        let out = h.serialize();
        assert!(out.is_ok());
        let out = out.unwrap();
        assert!(out.len() == 20);
        let mut i = 0;
        while i < 20 {
            assert!(out[i] == b[i]);
            i += 1;
        }
    }
}

//# id=encode.decode_and_wire_format fns=Ipv4HeaderBuilder::build+Ipv4Header::from_bytes props=C08 kind=complete pair=
// every representable header: encoder output equals the RFC 791 layout byte for byte, and decodes to the same fields
#[cfg_attr(kani, kani::proof)]
#[cfg_attr(kani, kani::unwind(22))]
#[cfg_attr(vx_replay, test)]
fn h_ipv4_encode_decode() {
    let tos: u8 = any();
    let payload_length: u16 = any();
    let identification: u16 = any();
    let fragment_offset: u16 = any();
    let flags: u8 = any();
    let ttl: u8 = any();
    let protocol: u8 = any();
    let src: [u8; 4] = any();
    let dst: [u8; 4] = any();
    vx_assume!(tos & 0b11 == 0 && flags <= 3);
    let r = Ipv4HeaderBuilder {
        type_of_service: TypeOfService::from(tos),
        payload_length,
        identification,
        fragment_offset,
        flags: ControlFlags::from(flags),
        time_to_live: ttl,
        protocol,
        source: Ipv4Address::new(src),
        destination: Ipv4Address::new(dst),
    }
    .build();
    // the builder refuses exactly the unrepresentable values
    assert_eq!(r.is_ok(), payload_length <= 65535 - 20 && fragment_offset <= 0x1fff);
    if let Ok(out) = r {
        let tl = payload_length + 20;
        let ff = ((flags as u16) << 13) | fragment_offset;
        let want: [u8; 20] = [
            0x45, tos, (tl >> 8) as u8, tl as u8, (identification >> 8) as u8, identification as u8,
            (ff >> 8) as u8, ff as u8, ttl, protocol, out[10], out[11],
            src[0], src[1], src[2], src[3], dst[0], dst[1], dst[2], dst[3],
        ];
        assert!(out.len() == 20);
        let mut i = 0;
        while i < 20 {
            assert!(out[i] == want[i]);
            i += 1;
        }
        // default build: the checksum field is transmitted as zero
        #[cfg(not(feature = "compute_checksum"))]
        assert!(out[10] == 0 && out[11] == 0);
        let h = Ipv4Header::from_bytes(want.into_iter());
        assert!(h.is_ok());
        let h = h.unwrap();
        assert!(h.ihl == 5 && h.type_of_service.as_u8() == tos && h.total_length == tl && h.identification == identification);
        assert!(h.fragment_offset == fragment_offset && h.flags.as_u8() == flags && h.time_to_live == ttl && h.protocol == protocol);
        assert!(h.source.to_bytes() == src && h.destination.to_bytes() == dst);
    }
}

// ---------------------------------------------------------------------------
// compute_checksum configuration (C18).  Reference implementation of RFC 1071
// in 32-bit arithmetic with deferred carries, independent of utility.rs.
// ---------------------------------------------------------------------------
#[cfg(feature = "compute_checksum")]
fn rfc1071_sum(words: &[u16]) -> u16 {
    let mut s: u32 = 0;
    let mut i = 0;
    while i < words.len() {
        s += words[i] as u32;
        i += 1;
    }
    s = (s & 0xffff) + (s >> 16);
    s = (s & 0xffff) + (s >> 16);
    s as u16
}
#[cfg(feature = "compute_checksum")]
fn words10(b: &[u8; 20]) -> [u16; 10] {
    [be16(b[0], b[1]), be16(b[2], b[3]), be16(b[4], b[5]), be16(b[6], b[7]), be16(b[8], b[9]),
     be16(b[10], b[11]), be16(b[12], b[13]), be16(b[14], b[15]), be16(b[16], b[17]), be16(b[18], b[19])]
}
#[cfg(feature = "compute_checksum")]
fn structurally_valid(b: &[u8; 20]) -> bool {
    b[0] == 0x45 && b[1] & 0b11 == 0 && be16(b[2], b[3]) >= 20 && b[6] & 0x80 == 0
}

//# id=checksum.emitted_header_verifies fns=Ipv4HeaderBuilder::build+Checksum::* props=C18 kind=complete features=compute_checksum tier=thorough pair=
// every emitted IPv4 header verifies under the RFC 1071 rule (sum of all ten words is all ones)
#[cfg(feature = "compute_checksum")]
#[cfg_attr(kani, kani::proof)]
#[cfg_attr(kani, kani::unwind(22))]
#[cfg_attr(vx_replay, test)]
fn h_ck_ipv4_emit_verifies() {
    let tos: u8 = any();
    let payload_length: u16 = any();
    let identification: u16 = any();
    let fragment_offset: u16 = any();
    let flags: u8 = any();
    let ttl: u8 = any();
    let protocol: u8 = any();
    let src: [u8; 4] = any();
    let dst: [u8; 4] = any();
    vx_assume!(tos & 0b11 == 0 && flags <= 3);
    let r = Ipv4HeaderBuilder {
        type_of_service: TypeOfService::from(tos),
        payload_length,
        identification,
        fragment_offset,
        flags: ControlFlags::from(flags),
        time_to_live: ttl,
        protocol,
        source: Ipv4Address::new(src),
        destination: Ipv4Address::new(dst),
    }
    .build();
    if let Ok(out) = r {
        assert!(out.len() == 20);
        let mut b = [0u8; 20];
        let mut i = 0;
        while i < 20 {
            b[i] = out[i];
            i += 1;
        }
        assert!(rfc1071_sum(&words10(&b)) == 0xffff);
        // and the stack's own decoder accepts what it emitted
        assert!(Ipv4Header::from_bytes(b.into_iter()).is_ok());
    }
}

//# id=checksum.decoder_accepts_conforming fns=Ipv4Header::from_bytes+Checksum::* props=C18 kind=complete features=compute_checksum tier=thorough pair=
// the decoder accepts every structurally valid header whose checksum verifies under RFC 1071
// (checksum field other than 0x0000: see the known-finding harness below for that class)
#[cfg(feature = "compute_checksum")]
#[cfg_attr(kani, kani::proof)]
#[cfg_attr(kani, kani::unwind(22))]
#[cfg_attr(vx_replay, test)]
fn h_ck_ipv4_accepts_conforming() {
    let b: [u8; 20] = any();
    vx_assume!(structurally_valid(&b));
    vx_assume!(rfc1071_sum(&words10(&b)) == 0xffff);
    vx_assume!(!(b[10] == 0 && b[11] == 0));
    assert!(Ipv4Header::from_bytes(b.into_iter()).is_ok());
}

//# id=checksum.decoder_accepts_conforming_zero_field fns=Ipv4Header::from_bytes+Checksum::matches props=C18 kind=complete features=compute_checksum pair=
// class: a conforming sender whose other nine words sum to 0xffff transmits the checksum 0x0000
#[cfg(feature = "compute_checksum")]
#[cfg_attr(kani, kani::proof)]
#[cfg_attr(kani, kani::unwind(22))]
#[cfg_attr(vx_replay, test)]
fn h_ck_ipv4_accepts_conforming_zero_field() {
    let b: [u8; 20] = any();
    vx_assume!(structurally_valid(&b));
    vx_assume!(rfc1071_sum(&words10(&b)) == 0xffff);
    vx_assume!(b[10] == 0 && b[11] == 0);
    assert!(Ipv4Header::from_bytes(b.into_iter()).is_ok());
}

//# id=checksum.decoder_rejects_corruption fns=Ipv4Header::from_bytes+Checksum::* props=C18 kind=complete features=compute_checksum tier=thorough pair=
// a header that does not verify under RFC 1071 is never accepted
#[cfg(feature = "compute_checksum")]
#[cfg_attr(kani, kani::proof)]
#[cfg_attr(kani, kani::unwind(22))]
#[cfg_attr(vx_replay, test)]
fn h_ck_ipv4_rejects_corruption() {
    let b: [u8; 20] = any();
    vx_assume!(rfc1071_sum(&words10(&b)) != 0xffff);
    assert!(Ipv4Header::from_bytes(b.into_iter()).is_err());
}

//# id=fields.type_of_service_and_flags_bits fns=TypeOfService::new+precedence+delay+throughput+reliability+as_u8+ControlFlags::new+may_fragment+is_last_fragment+set_may_fragment+set_is_last_fragment+as_u8 props=C08 kind=complete pair=
// RFC 791 3.1: TOS = PPP D T R 0 0 (precedence in bits 7..5, D bit 4, T bit 3, R bit 2); flags = 0 DF MF (DF value 2, MF value 1).
// The typed constructors, the accessors and the raw byte agree with that layout for every value.
#[cfg_attr(kani, kani::proof)]
#[cfg_attr(vx_replay, test)]
fn h_ipv4_tos_and_flags_bits() {
    let (p, d, t, r): (u8, u8, u8, u8) = (any(), any(), any(), any());
    vx_assume!(p < 8 && d < 2 && t < 2 && r < 2);
    let tos = TypeOfService::new(Precedence::try_from(p).unwrap(), Delay::try_from(d).unwrap(), Throughput::try_from(t).unwrap(), Reliability::try_from(r).unwrap());
    assert_eq!(tos.as_u8(), (p << 5) | (d << 4) | (t << 3) | (r << 2));
    assert!(tos.precedence() as u8 == p && tos.delay() as u8 == d && tos.throughput() as u8 == t && tos.reliability() as u8 == r);
    // accessors on an arbitrary received byte (the two low bits are reserved and ignored)
    let b: u8 = any();
    let any_tos = TypeOfService::from(b);
    assert!(any_tos.as_u8() == b);
    assert!(any_tos.precedence() as u8 == b >> 5 && any_tos.delay() as u8 == (b >> 4) & 1 && any_tos.throughput() as u8 == (b >> 3) & 1 && any_tos.reliability() as u8 == (b >> 2) & 1);
    // flags
    let (mf, last): (bool, bool) = (any(), any());
    let mut f = ControlFlags::new(mf, last);
    assert_eq!(f.as_u8(), ((!mf as u8) << 1) | (!last as u8));
    assert!(f.may_fragment() == mf && f.is_last_fragment() == last);
    let (v, w): (bool, bool) = (any(), any());
    f.set_may_fragment(v);
    assert!(f.may_fragment() == v && f.is_last_fragment() == last && f.as_u8() == (((!v) as u8) << 1) | (!last as u8));
    f.set_is_last_fragment(w);
    assert!(f.may_fragment() == v && f.is_last_fragment() == w && f.as_u8() == (((!v) as u8) << 1) | (!w as u8));
}

// Witnesses for elvis/src/applications/arp_router.rs — injected (add-only) as `mod vx_kani_router`.
//   kind=witness : concrete calls of the real ArpRouter::demux demonstrating a failed Verus obligation on the real code
use super::*;
use elvis_core::{new_machine_arc, protocols::ipv4::ipv4_parsing::Ipv4Header, session::SendError};

struct NopSession;
impl Session for NopSession {
    fn send(&self, _message: Message, _machine: Arc<Machine>) -> Result<(), SendError> {
        Ok(())
    }
}

fn header(ttl: u8, destination: Ipv4Address) -> Ipv4Header {
    Ipv4Header {
        ihl: 5,
        type_of_service: 0u8.into(),
        total_length: 24,
        identification: 7,
        fragment_offset: 0,
        flags: 0u8.into(),
        time_to_live: ttl,
        protocol: 17,
        checksum: 0,
        source: Ipv4Address::new([10, 0, 0, 1]),
        destination,
    }
}

fn router() -> (ArpRouter, Arc<Machine>) {
    let dest = Ipv4Address::new([10, 0, 1, 9]);
    let table: IpTable<(Option<Ipv4Address>, PciSlot)> = [(dest, (None, 0))].into_iter().collect();
    let r = ArpRouter::new(table, vec![Ipv4Address::new([10, 0, 1, 1])]);
    (r, new_machine_arc![Pci::new([])])
}

//# id=witness.ttl_zero_is_dropped props=C16 kind=witness pair=router.ArpRouter.demux.safety,router.ArpRouter.demux.an_expired_datagram_is_never_forwarded
// a datagram that reaches a router with time-to-live 0 (nothing below the router filters it) must be dropped, not
// panic the forwarding path (debug) or be forwarded with time-to-live 255 (release: the u8 wraps)
#[cfg(vx_replay)]
#[test]
fn h_w_ttl_zero() {
    let (r, machine) = router();
    for ttl in [0u8, 1u8] {
        let mut control = Control::new();
        control.insert(header(ttl, Ipv4Address::new([10, 0, 1, 9])));
        let res = r.demux(Message::new(b"data"), Arc::new(NopSession), control, machine.clone());
        assert_eq!(res, Ok(()), "a datagram with TTL {ttl} is dropped silently");
    }
}

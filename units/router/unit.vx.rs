//@ unit router props=C16
//@ include vx/prelude.rs
//@ include vx/be_bytes.rs
//@ include vx/std_specs.rs
use std::collections::BTreeMap;
use vstd::std_specs::convert::*;
//@ import-unit message
//@ import-unit iptable
//@ import-unit ipck
verus! {

// ---------------------------------------------------------------------------
// elvis/src/applications/arp_router.rs :: ArpRouter::demux - the per-hop forwarding step of C16.
//
// What IS the repository's code: the whole synchronous part of `demux` - reading the header the IPv4 layer put into
// the context, the time-to-live step and its drop test, re-serialising the header in front of the payload, the routing
// table lookup, the choice of next hop (gateway or, for a directly attached subnet, the destination itself) and of
// the local address / tap slot.
// What is NOT (declared rewrites below, stated exactly):
//  * the parameters `_caller: Arc<dyn Session>` and `machine: Arc<Machine>` are dropped and `control: Control` (a
//    TypeId-keyed map of Box<dyn Any>) is replaced by `VxControl`, an opaque value whose only observable is the
//    Ipv4Header it holds (`Control::get::<Ipv4Header>()` -> assumed-contract `vx_control_ipv4`);
//  * the asynchronous tail - `machine.protocol::<Arp>()`, `tokio::spawn(async move { arp.resolve(address_pair, slot, ..)
//    .await; .. session.send_pci(message, Some(mac), ..) })` - is replaced by returning `VxForward::Send { message,
//    address_pair, slot }`: the unit decides WHAT is handed to ARP/PCI (which bytes, towards which next hop, on which
//    slot), not that ARP resolves or that the frame reaches the wire; the early `return Ok(())` after the TTL test
//    becomes `VxForward::Dropped`;
//  * `message.header(v)` is the generic one-line wrapper `self.header_inner(v.into())` with `From<Vec<u8>> for Chunk`
//    = `Chunk::new`; inlined;  `r.or(Err(e))` is written as the equivalent `match`.
// Configuration: Ipv4Header::serialize is imported by contract from unit ipck (compute_checksum configuration; in the
// default configuration the checksum field is 0 and no other byte differs).
// ---------------------------------------------------------------------------
pub type PciSlot = u32;

#[verifier::external_body]
pub struct VxControl { _p: core::marker::PhantomData<u8> }
impl VxControl {
    /// the IPv4 header the IPv4 layer stored in the context while demultiplexing, if any
    pub uninterp spec fn ipv4(&self) -> Option<Ipv4Header>;
}
#[verifier::external_body]
pub fn vx_control_ipv4(c: &VxControl) -> (r: Option<&Ipv4Header>)
    ensures
        c.ipv4() is None ==> r is None,
        c.ipv4() matches Some(h) ==> r matches Some(p) && *p == h,
{ unimplemented!() }

//@ item sim/elvis-core/src/protocol.rs :: enum DemuxError
//@ rewrite `#\[derive\(Debug, thiserror::Error, Clone, Copy, PartialEq, Eq\)\]` => `#[derive(Debug, Clone, Copy, PartialEq, Eq)]` ## thiserror derive dropped (Display impl only)
//@ rewrite `#\[error\(\s*"[^"]*"\s*\)\]` => `` ## thiserror attribute dropped
//@ rewrite `MissingProtocol\(TypeId\),` => `` ## variant carrying a std TypeId dropped (never constructed in the code under contract)
//@ end
//@ item sim/elvis-core/src/protocols/ipv4/ipv4_session.rs :: struct AddressPair strip-attrs
//@ rewrite `pub struct AddressPair \{` => `#[derive(Clone, Copy)] pub struct AddressPair {` ## derives other than Clone, Copy dropped
//@ end
//@ item sim/elvis/src/applications/arp_router.rs :: struct ArpRouter strip-attrs
//@ rewrite `(\n\s*)(ip_table|local_ips):` => `\1pub \2:` ## visibility only
//@ end

/// what `demux` hands on
pub enum VxForward {
    /// nothing is forwarded
    Dropped,
    /// `message` is handed to ARP (resolve `address_pair.remote` on tap `slot`) and then to that tap
    Send { message: Message, address_pair: AddressPair, slot: PciSlot },
}

/// a header as the IPv4 decoder produces it
pub open spec fn rt_hdr_ok(h: Ipv4Header) -> bool { h.total_length >= 20 && h.fragment_offset <= 0x1fff }

/// (gw, sl) is the value of the longest-prefix route for `dest`
pub open spec fn route_is(m: Map<Obm, (Option<Ipv4Address>, PciSlot)>, dest: u32, gw: Option<Ipv4Address>, sl: PciSlot) -> bool {
    is_lpm(m, dest, Some((gw, sl)))
}

impl ArpRouter {
    /// configuration invariant: the table is well formed and every route names a tap slot this router has a local
    /// address for
    pub open spec fn wf(&self) -> bool {
        &&& self.ip_table.wf()
        &&& forall|k: Obm| #![trigger self.ip_table.table@.contains_key(k)] self.ip_table.table@.contains_key(k) ==> (self.ip_table.table@[k].1 as int) < self.local_ips@.len()
    }

//@ item sim/elvis/src/applications/arp_router.rs :: impl Protocol for ArpRouter / fn demux id=ArpRouter.demux
//@ rewrite `_caller: Arc<dyn Session>,\s*control: Control,\s*machine: Arc<Machine>,\s*\) -> Result<\(\), DemuxError>` => `control: &VxControl, ) -> Result<VxForward, DemuxError>` ## see the unit header: dyn Session / Machine parameters dropped, Control replaced by the opaque VxControl, the result names what is handed on
//@ rewrite `control\.get::<Ipv4Header>\(\)` => `vx_control_ipv4(control)` ## Control::get::<Ipv4Header>() (TypeId map + downcast) routed to the assumed-contract accessor
//@ rewrite `return Ok\(\(\)\);` => `return Ok(VxForward::Dropped);` ## the early return after the TTL test: nothing is forwarded
//@ rewrite `message\.header\(ipv4_header\.serialize\(\)\.or\(Err\(DemuxError::Other\)\)\?\);` => `message.header_inner(Chunk::new(match ipv4_header.serialize() { Ok(vx_v) => vx_v, Err(_) => { return Err(DemuxError::Other); } }));` ## Message::header(impl Into<Chunk>) inlined (header_inner(Chunk::new(vec))); Result::or(Err(e))? written as the equivalent match
//@ rewrite `let arp = machine\.protocol::<Arp>\(\)\.unwrap\(\);` => `` ## asynchronous tail dropped (see the unit header)
//@ rewrite `tokio::spawn\(async move \{[\s\S]*?\n        \}\);\s*Ok\(\(\)\)` => `Ok(VxForward::Send { message, address_pair, slot })` ## asynchronous tail (ARP resolution, then send_pci of `message` on `slot`) replaced by returning what it is given
//@ contract
    requires
        self.wf(), message.wf(), message@.len() + 20 <= usize::MAX,
        control.ipv4() matches Some(h) ==> rt_hdr_ok(h),
    ensures
        // no header in the context: refused, nothing forwarded
        control.ipv4() is None ==> r is Err,
        // (C16) TTL bounds every packet's life: a datagram that arrives with TTL 0 or 1 is never forwarded ...
        control.ipv4() matches Some(h) ==> (h.time_to_live <= 1 ==> r == Ok::<VxForward, DemuxError>(VxForward::Dropped)),   //# an_expired_datagram_is_never_forwarded [C16]
        // ... and whatever is forwarded went through the TTL step
        r matches Ok(VxForward::Send { .. }) ==> control.ipv4() matches Some(h) && h.time_to_live >= 2,   //# an_expired_datagram_is_never_forwarded [C16]
        // (C16) each hop decrements the time-to-live by exactly one, every other header field and the payload are
        //       forwarded unchanged (the header checksum is recomputed)
        r matches Ok(VxForward::Send { message: m, .. }) ==> control.ipv4() matches Some(h) && m.wf()
            && m@ == (Ipv4Header { time_to_live: (h.time_to_live - 1) as u8, ..h }).wire() + message@,   //# each_hop_decrements_ttl_by_one_payload_unchanged [C16]
        // (C16) forwarded along the configured route: the next hop is the gateway of the longest-prefix route for the
        //       destination (the destination itself on a directly attached subnet), on that route's tap slot, from the
        //       router's address on that slot
        r matches Ok(VxForward::Send { address_pair: ap, slot: sl, .. }) ==> control.ipv4() matches Some(h)
            && (route_is(self.ip_table.table@, val(h.destination), Some(ap.remote), sl)
                || (route_is(self.ip_table.table@, val(h.destination), None, sl) && ap.remote == h.destination))
            && (sl as int) < self.local_ips@.len() && ap.local == self.local_ips@[sl as int],   //# forwarded_along_the_longest_prefix_route [C16]
        // a datagram for which no route exists is not forwarded
        control.ipv4() matches Some(h) ==> (is_lpm(self.ip_table.table@, val(h.destination), None::<(Option<Ipv4Address>, PciSlot)>) ==> !(r matches Ok(VxForward::Send { .. }))),   //# no_route_no_forwarding [C16]
//@ before 1 `let gateway = match pair.0`
        proof {
            assert((pair.0, pair.1) == pair);
            assert(route_is(self.ip_table.table@, val(ipv4_header.destination), pair.0, pair.1));
        }
//@ before 1 `Ok(VxForward::Send { message, address_pair, slot })`
        proof {
            let ghost h0 = control.ipv4()->0;
            assert(h0.destination == ipv4_header.destination);
            assert(route_is(self.ip_table.table@, val(h0.destination), pair.0, slot));
            assert(address_pair.remote == (match pair.0 { Some(g) => g, None => h0.destination }));
            assert((slot as int) < self.local_ips@.len() && address_pair.local == self.local_ips@[slot as int]);
        }
//@ end
}

/// (C16) "dropped after at most its initial time-to-live hops": every forwarding strictly decreases the TTL and a
/// datagram with TTL <= 1 is not forwarded, so a datagram that starts with TTL t is forwarded by at most t - 1
/// routers, whatever the routes are (loops included).  Stated over the two demux clauses above: `fwd(t)` is the
/// TTL after a forwarding step that `demux` performs on TTL t.
pub open spec fn hops_left(ttl: nat) -> nat
    decreases ttl,
{
    if ttl <= 1 { 0 } else { 1 + hops_left((ttl - 1) as nat) }
}
pub proof fn lemma_ttl_bounds_the_number_of_hops(ttl: nat)   //# [C16]
    ensures hops_left(ttl) <= ttl, ttl >= 1 ==> hops_left(ttl) == ttl - 1,
    decreases ttl,
{
    if ttl > 1 { lemma_ttl_bounds_the_number_of_hops((ttl - 1) as nat); }
}

} // verus!

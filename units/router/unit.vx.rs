//@ unit router props=C16
//@ include vx/prelude.rs
//@ include vx/be_bytes.rs
//@ include vx/std_specs.rs
use std::collections::BTreeMap;
use vstd::std_specs::convert::*;
//@ import-unit message
//@ import-unit iptable
//@ import-unit ipck
verus! {

// ---------------------------------------------------------------------------
// elvis/src/applications/arp_router.rs :: ArpRouter::demux - the per-hop forwarding step of C16, including the body of the
// task it spawns (run in line: ARP resolution modelled by its eventual answer, send_pci by a log of frames).
//
// What IS the repository's code: the whole synchronous part of `demux` - reading the header the IPv4 layer put into
// the context, the time-to-live step and its drop test, re-serialising the header in front of the payload, the routing
// table lookup, the choice of next hop (gateway or, for a directly attached subnet, the destination itself) and of
// the local address / tap slot.
// What is NOT (declared rewrites below, stated exactly):
//  * the parameters `_caller: Arc<dyn Session>` and `machine: Arc<Machine>` are dropped and `control: Control` (a
//    TypeId-keyed map of Box<dyn Any>) is replaced by `VxControl`, an opaque value whose only observable is the
//    Ipv4Header it holds (`Control::get::<Ipv4Header>()` -> assumed-contract `vx_control_ipv4`);
//  * the asynchronous tail - `machine.protocol::<Arp>()`, `tokio::spawn(async move { arp.resolve(address_pair, slot, ..)
//    .await; .. session.send_pci(message, Some(mac), ..) })` - is replaced by returning `VxForward::Send { message,
//    address_pair, slot }`: the unit decides WHAT is handed to ARP/PCI (which bytes, towards which next hop, on which
//    slot), not that ARP resolves or that the frame reaches the wire; the early `return Ok(())` after the TTL test
//    becomes `VxForward::Dropped`;
//  * `message.header(v)` is the generic one-line wrapper `self.header_inner(v.into())` with `From<Vec<u8>> for Chunk`
//    = `Chunk::new`; inlined;  `r.or(Err(e))` is written as the equivalent `match`.
// Configuration: Ipv4Header::serialize is imported by contract from unit ipck (compute_checksum configuration; in the
// default configuration the checksum field is 0 and no other byte differs).
// ---------------------------------------------------------------------------
pub type PciSlot = u32;

#[verifier::external_body]
pub struct VxControl { _p: core::marker::PhantomData<u8> }
impl VxControl {
    /// the IPv4 header the IPv4 layer stored in the context while demultiplexing, if any
    pub uninterp spec fn ipv4(&self) -> Option<Ipv4Header>;
}
#[verifier::external_body]
pub fn vx_control_ipv4(c: &VxControl) -> (r: Option<&Ipv4Header>)
    ensures
        c.ipv4() is None ==> r is None,
        c.ipv4() matches Some(h) ==> r matches Some(p) && *p == h,
{ unimplemented!() }

//@ item sim/elvis-core/src/protocol.rs :: enum DemuxError
//@ rewrite `#\[derive\(Debug, thiserror::Error, Clone, Copy, PartialEq, Eq\)\]` => `#[derive(Debug, Clone, Copy, PartialEq, Eq)]` ## thiserror derive dropped (Display impl only)
//@ rewrite `#\[error\(\s*"[^"]*"\s*\)\]` => `` ## thiserror attribute dropped
//@ rewrite `MissingProtocol\(TypeId\),` => `` ## variant carrying a std TypeId dropped (never constructed in the code under contract)
//@ end
//@ item sim/elvis-core/src/protocols/ipv4/ipv4_session.rs :: struct AddressPair strip-attrs
//@ rewrite `pub struct AddressPair \{` => `#[derive(Clone, Copy)] pub struct AddressPair {` ## derives other than Clone, Copy dropped
//@ end
//@ item sim/elvis/src/applications/arp_router.rs :: struct ArpRouter strip-attrs
//@ rewrite `(\n\s*)(ip_table|local_ips):` => `\1pub \2:` ## visibility only
//@ end

pub type Mac = u64;
//@ item sim/elvis-core/src/protocols/arp.rs :: struct NoResponseError strip-attrs
//@ rewrite `pub struct NoResponseError;` => `#[derive(Clone, Copy)] pub struct NoResponseError;` ## thiserror / other derives dropped
//@ end

/// the ARP protocol of the router's machine, reduced to the answer `resolve` eventually gives for a query (opaque)
#[verifier::external_body]
pub struct VxArp { _p: core::marker::PhantomData<u8> }
impl VxArp {
    /// the hardware address ARP resolves `pair.remote` to on tap `slot`, None when resolution fails
    pub uninterp spec fn answer(&self, pair: AddressPair, slot: PciSlot) -> Option<Mac>;
}
/// ASSUMED contract standing for `arp.resolve(address_pair, slot, machine).await` (asynchronous, another machine answers)
#[verifier::external_body]
pub fn vx_arp_resolve(arp: &VxArp, pair: AddressPair, slot: PciSlot) -> (r: Result<Mac, NoResponseError>)
    ensures
        r matches Ok(m) ==> arp.answer(pair, slot) == Some(m),
        r is Err ==> arp.answer(pair, slot) is None,
{ unimplemented!() }

/// one frame handed to a tap: `PciSession::send_pci(message, destination, ..)` on the session of `slot`
pub struct VxFrame { pub slot: PciSlot, pub message: Message, pub destination: Option<Mac>, pub asked: AddressPair }
/// stands for `machine.protocol::<Pci>().unwrap().open(slot).send_pci(message, destination, TypeId::of::<Ipv4>())`:
/// the frame is appended to the log of frames this call of demux put on a wire (destination None = link broadcast)
/// (`asked` records the in-scope ARP query `address_pair`, so that the contract can tie the destination to its answer)
pub fn vx_send_pci(log: &mut Vec<VxFrame>, slot: PciSlot, message: Message, destination: Option<Mac>, asked: AddressPair)
    ensures final(log)@ == old(log)@.push(VxFrame { slot, message, destination, asked }),
{ log.push(VxFrame { slot, message, destination, asked }); }

/// a header as the IPv4 decoder produces it
pub open spec fn rt_hdr_ok(h: Ipv4Header) -> bool { h.total_length >= 20 && h.fragment_offset <= 0x1fff }

/// (gw, sl) is the value of the longest-prefix route for `dest`
pub open spec fn route_is(m: Map<Obm, (Option<Ipv4Address>, PciSlot)>, dest: u32, gw: Option<Ipv4Address>, sl: PciSlot) -> bool {
    is_lpm(m, dest, Some((gw, sl)))
}

impl ArpRouter {
    /// configuration invariant: the table is well formed and every route names a tap slot this router has a local
    /// address for
    pub open spec fn wf(&self) -> bool {
        &&& self.ip_table.wf()
        &&& forall|k: Obm| #![trigger self.ip_table.table@.contains_key(k)] self.ip_table.table@.contains_key(k) ==> (self.ip_table.table@[k].1 as int) < self.local_ips@.len()
    }

//@ item sim/elvis/src/applications/arp_router.rs :: impl Protocol for ArpRouter / fn demux id=ArpRouter.demux
//@ rewrite `_caller: Arc<dyn Session>,\s*control: Control,\s*machine: Arc<Machine>,\s*\) -> Result<\(\), DemuxError>` => `control: &VxControl, arp: &VxArp, ) -> Result<Vec<VxFrame>, DemuxError>` ## see the unit header: dyn Session / Machine parameters dropped, Control and the machine's Arp protocol replaced by opaque values, the result is the log of frames handed to taps
//@ rewrite `control\.get::<Ipv4Header>\(\)` => `vx_control_ipv4(control)` ## Control::get::<Ipv4Header>() (TypeId map + downcast) routed to the assumed-contract accessor
//@ rewrite `return Ok\(\(\)\);` => `return Ok(vx_sent);` ## early return: the (empty) log of frames
//@ rewrite `message\.header\(ipv4_header\.serialize\(\)\.or\(Err\(DemuxError::Other\)\)\?\);` => `message.header_inner(Chunk::new(match ipv4_header.serialize() { Ok(vx_v) => vx_v, Err(_) => { return Err(DemuxError::Other); } }));` ## Message::header(impl Into<Chunk>) inlined (header_inner(Chunk::new(vec))); Result::or(Err(e))? written as the equivalent match
//@ rewrite `let arp = machine\.protocol::<Arp>\(\)\.unwrap\(\);` => `` ## the machine's Arp protocol is the parameter `arp`
//@ rewrite `tokio::spawn\(async move \{` => `{` ## the spawned task is run in line: its body is sequential code with one await (sequentialised; scheduling not modelled)
//@ rewrite `arp\s*\.resolve\(address_pair, slot, machine\.clone\(\)\)\s*\.await` => `vx_arp_resolve(arp, address_pair, slot)` ## Arp::resolve(..).await routed to the assumed-contract function (its eventual answer)
//@ rewrite `let session = machine\.protocol::<Pci>\(\)\.unwrap\(\)\.open\(slot\);` => `` ## the tap session of `slot` is named by the slot in the frame log
//@ rewrite `session\s*\.send_pci\(message, ([^;]*?), TypeId::of::<Ipv4>\(\)\)\s*\.expect\("failed to send"\);` => `vx_send_pci(&mut vx_sent, slot, message, \1, address_pair);` ## PciSession::send_pci routed to the frame log (MTU refusal / expect not modelled)
//@ rewrite `\}\);\s*Ok\(\(\)\)` => `} Ok(vx_sent)` ## end of the in-lined task; the result is the log of frames
//@ start
        let mut vx_sent: Vec<VxFrame> = Vec::new();
//@ contract
    requires
        self.wf(), message.wf(), message@.len() + 20 <= usize::MAX,
        control.ipv4() matches Some(h) ==> rt_hdr_ok(h),
    ensures
        // no header in the context: refused
        control.ipv4() is None ==> r is Err,
        // (C16) forwarding never multiplies packets: one call puts at most one frame on a wire
        r matches Ok(fs) ==> fs@.len() <= 1,   //# forwarding_never_multiplies_packets [C16]
        // (C16) TTL bounds every packet's life: a datagram that arrives with TTL 0 or 1 is never forwarded
        r matches Ok(fs) ==> (fs@.len() == 1 ==> (control.ipv4() matches Some(h) && h.time_to_live >= 2)),   //# an_expired_datagram_is_never_forwarded [C16]
        control.ipv4() matches Some(h) ==> (h.time_to_live <= 1 ==> (r matches Ok(fs) && fs@.len() == 0)),   //# an_expired_datagram_is_never_forwarded [C16]
        // (C16) each hop decrements the time-to-live by exactly one, every other header field and the payload are
        //       forwarded unchanged (the header checksum is recomputed)
        r matches Ok(fs) ==> (fs@.len() == 1 ==> (control.ipv4() matches Some(h) && fs@[0].message.wf()
            && fs@[0].message@ == (Ipv4Header { time_to_live: (h.time_to_live - 1) as u8, ..h }).wire() + message@)),   //# each_hop_decrements_ttl_by_one_payload_unchanged [C16]
        // (C16) forwarded along the configured route and to no other host: the frame goes out on the tap slot of the
        //       longest-prefix route for the destination, unicast to the hardware address ARP resolved for that route's
        //       gateway (for a directly attached subnet: for the destination itself), asked from the router's own
        //       address on that slot - never as a link broadcast
        r matches Ok(fs) ==> (fs@.len() == 1 ==> (control.ipv4() matches Some(h) && ({
            let f = fs@[0];
            &&& (route_is(self.ip_table.table@, val(h.destination), Some(f.asked.remote), f.slot)
                 || (route_is(self.ip_table.table@, val(h.destination), None, f.slot) && f.asked.remote == h.destination))
            &&& (f.slot as int) < self.local_ips@.len() && f.asked.local == self.local_ips@[f.slot as int]
            &&& f.destination is Some && f.destination == arp.answer(f.asked, f.slot)
        }))),   //# forwarded_unicast_along_the_longest_prefix_route [C16]
        // (C16) a route that leads nowhere: without a route, or when the next hop does not answer ARP, nothing is forwarded
        control.ipv4() matches Some(h) ==> (is_lpm(self.ip_table.table@, val(h.destination), None::<(Option<Ipv4Address>, PciSlot)>) ==> !(r matches Ok(fs) && fs@.len() > 0)),   //# no_route_no_forwarding [C16]
        (forall|p: AddressPair, sl: PciSlot| #![trigger arp.answer(p, sl)] arp.answer(p, sl) is None) ==> (r matches Ok(fs) ==> fs@.len() == 0),   //# unresolved_next_hop_is_dropped_not_flooded [C16]
//@ before 1 `let gateway = match pair.0`
        proof {
            assert((pair.0, pair.1) == pair);
            assert(route_is(self.ip_table.table@, val(ipv4_header.destination), pair.0, pair.1));
        }
//@ after 1 `let slot = pair.1;`
        proof {
            let ghost h0 = control.ipv4()->0;
            assert(h0.destination == ipv4_header.destination);
            assert(route_is(self.ip_table.table@, val(h0.destination), pair.0, slot));
            let ghost via_gateway = route_is(self.ip_table.table@, val(h0.destination), Some(gateway), slot);
            if pair.0 is Some { assert(via_gateway); } else { assert(gateway == h0.destination); }
        }
//@ end
}

/// (C16) "dropped after at most its initial time-to-live hops": every forwarding strictly decreases the TTL and a
/// datagram with TTL <= 1 is not forwarded, so a datagram that starts with TTL t is forwarded by at most t - 1
/// routers, whatever the routes are (loops included).  Stated over the two demux clauses above: `fwd(t)` is the
/// TTL after a forwarding step that `demux` performs on TTL t.
pub open spec fn hops_left(ttl: nat) -> nat
    decreases ttl,
{
    if ttl <= 1 { 0 } else { 1 + hops_left((ttl - 1) as nat) }
}
pub proof fn lemma_ttl_bounds_the_number_of_hops(ttl: nat)   //# [C16]
    ensures hops_left(ttl) <= ttl, ttl >= 1 ==> hops_left(ttl) == ttl - 1,
    decreases ttl,
{
    if ttl > 1 { lemma_ttl_bounds_the_number_of_hops((ttl - 1) as nat); }
}

} // verus!

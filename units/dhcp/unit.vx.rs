//@ unit dhcp props=C14,C08
//@ include vx/prelude.rs
//@ include vx/be_bytes.rs
use vstd::std_specs::iter::IteratorSpec;
use vstd::std_specs::convert::*;
verus! {

/// ASSUMED: String::from_utf8 is total (returns Ok or Err, never panics); on success the string's bytes are the input
#[verifier::external_type_specification]
#[verifier::external_body]
pub struct ExFromUtf8Error(std::string::FromUtf8Error);
pub assume_specification [String::from_utf8] (v: Vec<u8>) -> (r: Result<String, std::string::FromUtf8Error>)
    ensures true;

//@ item sim/elvis-core/src/protocols/ipv4/ipv4_address.rs :: struct Ipv4Address
//@ rewrite `pub struct Ipv4Address\(\[u8; 4\]\);` => `pub struct Ipv4Address(pub [u8; 4]);` ## visibility only
//@ end
impl FromSpecImpl<u32> for Ipv4Address {
    open spec fn obeys_from_spec() -> bool { true }
    open spec fn from_spec(n: u32) -> Self { Ipv4Address(spec_to_be(n)) }
}
impl FromSpecImpl<[u8; 4]> for Ipv4Address {
    open spec fn obeys_from_spec() -> bool { true }
    open spec fn from_spec(n: [u8; 4]) -> Self { Ipv4Address(n) }
}
//@ item sim/elvis-core/src/protocols/ipv4/ipv4_address.rs :: impl From<u32> for Ipv4Address id=Ipv4Address.from_u32
//@ rewrite `n\.to_be_bytes\(\)` => `vx_u32_to_be(n)` ## core::to_be_bytes routed through the contract-carrying wrapper
//@ end
//@ item sim/elvis-core/src/protocols/ipv4/ipv4_address.rs :: impl From<[u8; 4]> for Ipv4Address id=Ipv4Address.from_bytes
//@ end

// ---------------------------------------------------------------------------
// utility.rs: BytesExt readers over an arbitrary byte iterator
// ---------------------------------------------------------------------------
/// taking n bytes off the front of an iterator
pub open spec fn took(before: Seq<u8>, after: Seq<u8>, n: int) -> bool {
    before.len() >= n && after == before.subrange(n, before.len() as int)
}

pub trait BytesExt: Iterator<Item = u8> {
//@ item sim/elvis-core/src/protocols/utility.rs :: trait BytesExt / fn next_u8 id=BytesExt.next_u8
//@ contract
    requires (*old(self)).obeys_prophetic_iter_laws(),
    ensures
        (*final(self)).obeys_prophetic_iter_laws(),
        (*old(self)).remaining().len() >= 1 ==> r == Some((*old(self)).remaining()[0]) && took((*old(self)).remaining(), (*final(self)).remaining(), 1),   //# reads_one_byte [C08,C14]
        (*old(self)).remaining().len() < 1 ==> r is None,   //# none_when_exhausted [C14]
//@ end
//@ item sim/elvis-core/src/protocols/utility.rs :: trait BytesExt / fn next_u16_be id=BytesExt.next_u16_be
//@ rewrite `u16::from_be_bytes\(arr\)` => `vx_u16_from_be(arr)` ## core::from_be_bytes routed through the contract-carrying wrapper
//@ contract
    requires (*old(self)).obeys_prophetic_iter_laws(),
    ensures
        (*final(self)).obeys_prophetic_iter_laws(),
        (*old(self)).remaining().len() >= 2 ==> r == Some(be16([(*old(self)).remaining()[0], (*old(self)).remaining()[1]])) && took((*old(self)).remaining(), (*final(self)).remaining(), 2),   //# reads_big_endian_u16 [C08,C14]
        (*old(self)).remaining().len() < 2 ==> r is None,   //# none_when_too_short [C14]
//@ after 1 `let arr = [self.next()?, self.next()?];`
        proof {
            let r0 = (*old(self)).remaining();
            assert((*self).remaining() =~= r0.subrange(2, r0.len() as int));
            assert(arr@ =~= seq![r0[0], r0[1]]);
        }
//@ end
//@ item sim/elvis-core/src/protocols/utility.rs :: trait BytesExt / fn next_u32_be id=BytesExt.next_u32_be
//@ rewrite `u32::from_be_bytes\(arr\)` => `vx_u32_from_be(arr)` ## core::from_be_bytes routed through the contract-carrying wrapper
//@ contract
    requires (*old(self)).obeys_prophetic_iter_laws(),
    ensures
        (*final(self)).obeys_prophetic_iter_laws(),
        (*old(self)).remaining().len() >= 4 ==> r == Some(be32([(*old(self)).remaining()[0], (*old(self)).remaining()[1], (*old(self)).remaining()[2], (*old(self)).remaining()[3]])) && took((*old(self)).remaining(), (*final(self)).remaining(), 4),   //# reads_big_endian_u32 [C08,C14]
        (*old(self)).remaining().len() < 4 ==> r is None,   //# none_when_too_short [C14]
//@ after 1 `let arr = [self.next()?, self.next()?, self.next()?, self.next()?];`
        proof {
            let r0 = (*old(self)).remaining();
            assert((*self).remaining() =~= r0.subrange(4, r0.len() as int));
            assert(arr@ =~= seq![r0[0], r0[1], r0[2], r0[3]]);
        }
//@ end
//@ item sim/elvis-core/src/protocols/utility.rs :: trait BytesExt / fn next_ipv4addr id=BytesExt.next_ipv4addr mode=sig
//@ contract
    // ASSUMED contract (one-line body `self.next_u32_be().map(Ipv4Address::from)` not verified here: Verus' trait-cycle
    // check rejects a call to `From<u32> for Ipv4Address` from a default method of a blanket-implemented trait)
    requires (*old(self)).obeys_prophetic_iter_laws(),
    ensures
        (*final(self)).obeys_prophetic_iter_laws(),
        (*old(self)).remaining().len() >= 4 ==> r is Some && took((*old(self)).remaining(), (*final(self)).remaining(), 4),
        (*old(self)).remaining().len() < 4 ==> r is None,   //# none_when_too_short [C14]
//@ end
}
//@ item sim/elvis-core/src/protocols/utility.rs :: impl BytesExt for T id=BytesExt.blanket_impl
//@ end


// ---------------------------------------------------------------------------
// dhcp/dhcp_parsing.rs
// ---------------------------------------------------------------------------
//@ item sim/elvis-core/src/protocols/dhcp/dhcp_parsing.rs :: enum MessageType strip-attrs
//@ end
//@ item sim/elvis-core/src/protocols/dhcp/dhcp_parsing.rs :: enum ParseError
//@ rewrite `#\[derive\(Debug, ThisError, Clone, Copy, PartialEq, Eq\)\]` => `#[derive(Debug, Clone, Copy, PartialEq, Eq)]` ## thiserror derive dropped (Display impl only)
//@ rewrite `#\[error\("[^"]*"\)\]` => `` ## thiserror attribute dropped
//@ end
//@ item sim/elvis-core/src/protocols/dhcp/dhcp_parsing.rs :: struct DhcpMessage strip-attrs
//@ rewrite `(\n\s*)(htype|hlen|hops|transaction_id|seconds|flags|client_ip|server_ip|router_ip|client_hardware_address|server_name|boot_file): ` => `\1pub \2: ` ## visibility only
//@ end

impl TryFromSpecImpl<u8> for MessageType {
    open spec fn obeys_try_from_spec() -> bool { false }   // contract is the `ensures` below
    open spec fn try_from_spec(v: u8) -> Result<Self, ParseError> { arbitrary() }
}
impl TryFrom<u8> for MessageType {
    type Error = ParseError;
//@ item sim/elvis-core/src/protocols/dhcp/dhcp_parsing.rs :: impl TryFrom<u8> for MessageType / fn try_from id=MessageType.try_from
//@ contract
    ensures
        // every byte value is either one of the seven message types or rejected with an error: no panic
        (1 <= msg_type <= 7) ==> r is Ok,   //# accepts_types_1_to_7 [C08,C14]
        !(1 <= msg_type <= 7) ==> r is Err,   //# rejects_everything_else [C14]
//@ end
}

impl DhcpMessage {
//@ item sim/elvis-core/src/protocols/dhcp/dhcp_parsing.rs :: impl DhcpMessage / fn from_bytes id=DhcpMessage.from_bytes
//@ rewrite `pub fn from_bytes\(` => `#[verifier::exec_allows_no_decreases_clause] pub fn from_bytes(` ## termination of the two name loops is NOT verified (finiteness of the caller's iterator)
//@ rewrite `\.map_err\(\|_\| ` => `.map_err(|_e| ` ## Verus needs a named closure parameter
//@ contract
    // (C14) for every byte string the decoder returns a value or an error: every unwrap / unreachable! / index is an obligation
    requires bytes.obeys_prophetic_iter_laws(),
    ensures
        bytes.remaining().len() < 30 ==> r is Err,   //# truncated_fixed_part_is_rejected [C14]
        r matches Ok(m) ==> bytes.remaining().len() >= 32 && m.op == bytes.remaining()[0] && m.htype == bytes.remaining()[1]
            && m.hlen == bytes.remaining()[2] && m.hops == bytes.remaining()[3]
            && m.transaction_id == be32([bytes.remaining()[4], bytes.remaining()[5], bytes.remaining()[6], bytes.remaining()[7]])
            && m.seconds == be16([bytes.remaining()[8], bytes.remaining()[9]]) && m.flags == bytes.remaining()[10]
            && m.client_hardware_address == be16([bytes.remaining()[27], bytes.remaining()[28]]),   //# fixed_fields_at_their_offsets [C08]
//@ after 1 `let op = bytes.next_`
        proof { assert(bytes.remaining() =~= all.subrange(1, all.len() as int)); }
//@ after 1 `let htype = bytes.next_`
        proof { assert(bytes.remaining() =~= all.subrange(2, all.len() as int)); }
//@ after 1 `let hlen = bytes.next_`
        proof { assert(bytes.remaining() =~= all.subrange(3, all.len() as int)); }
//@ after 1 `let hops = bytes.next_`
        proof { assert(bytes.remaining() =~= all.subrange(4, all.len() as int)); }
//@ after 1 `let transaction_id = bytes.next_`
        proof { assert(bytes.remaining() =~= all.subrange(8, all.len() as int)); }
//@ after 1 `let seconds = bytes.next_`
        proof { assert(bytes.remaining() =~= all.subrange(10, all.len() as int)); }
//@ after 1 `let flags = bytes.next_`
        proof { assert(bytes.remaining() =~= all.subrange(11, all.len() as int)); }
//@ after 1 `let client_ip = bytes.next_`
        proof { assert(bytes.remaining() =~= all.subrange(15, all.len() as int)); }
//@ after 1 `let your_ip = bytes.next_`
        proof { assert(bytes.remaining() =~= all.subrange(19, all.len() as int)); }
//@ after 1 `let server_ip = bytes.next_`
        proof { assert(bytes.remaining() =~= all.subrange(23, all.len() as int)); }
//@ after 1 `let router_ip = bytes.next_`
        proof { assert(bytes.remaining() =~= all.subrange(27, all.len() as int)); }
//@ after 1 `let client_hardware_address = bytes.next_`
        proof { assert(bytes.remaining() =~= all.subrange(29, all.len() as int)); }
//@ after 1 `let msg_type = MessageType::try_from(`
        proof { assert(bytes.remaining() =~= all.subrange(30, all.len() as int)); }
//@ loop 1
            invariant bytes.obeys_prophetic_iter_laws(), bytes.remaining().len() + 31 <= all.len(), all.len() >= 31,
                op == all[0], htype == all[1], hlen == all[2], hops == all[3], transaction_id == be32([all[4], all[5], all[6], all[7]]), seconds == be16([all[8], all[9]]), flags == all[10], client_hardware_address == be16([all[27], all[28]]), all == bytes0,
//@ loop 2
            invariant bytes.obeys_prophetic_iter_laws(), bytes.remaining().len() + 32 <= all.len(), all.len() >= 32,
                op == all[0], htype == all[1], hlen == all[2], hops == all[3], transaction_id == be32([all[4], all[5], all[6], all[7]]), seconds == be16([all[8], all[9]]), flags == all[10], client_hardware_address == be16([all[27], all[28]]), all == bytes0,
//@ start
        let ghost all = bytes.remaining();
        let ghost bytes0 = all;
//@ end
}

} // verus!

//@ unit dhcp props=C14,C08
//@ include vx/prelude.rs
//@ include vx/be_bytes.rs
use vstd::std_specs::iter::IteratorSpec;
use vstd::std_specs::convert::*;
//@ import-unit message
verus! {

/// ASSUMED: String::from_utf8 is total (returns Ok or Err, never panics); on success the string's bytes are the input
#[verifier::external_type_specification]
#[verifier::external_body]
pub struct ExFromUtf8Error(std::string::FromUtf8Error);
/// the bytes of a String / "is valid UTF-8" (uninterpreted: Verus has no byte-level model of str)
pub uninterp spec fn sbytes(s: String) -> Seq<u8>;
pub uninterp spec fn utf8_ok(v: Seq<u8>) -> bool;
pub assume_specification [String::from_utf8] (v: Vec<u8>) -> (r: Result<String, std::string::FromUtf8Error>)
    ensures
        r is Ok <==> utf8_ok(v@),
        r matches Ok(s) ==> sbytes(s) == v@;
/// ASSUMED (std): a String's bytes are valid UTF-8, and a String is determined by its bytes
#[verifier::external_body]
pub proof fn axiom_string_bytes(s: String)
    ensures utf8_ok(sbytes(s)),
{}
#[verifier::external_body]
pub proof fn axiom_string_inj(a: String, b: String)
    requires sbytes(a) == sbytes(b),
    ensures a == b,
{}
pub proof fn axiom_string_inj_all()
    ensures forall|a: String, b: String| #![trigger sbytes(a), sbytes(b)] sbytes(a) == sbytes(b) ==> a == b,
{
    assert forall|a: String, b: String| #![trigger sbytes(a), sbytes(b)] sbytes(a) == sbytes(b) implies a == b by { axiom_string_inj(a, b); }
}
/// `vec.extend(s.as_bytes())` (ASSUMED: appends exactly the string's bytes)
#[verifier::external_body]
pub fn vx_extend_str(v: &mut Vec<u8>, s: &String)
    ensures final(v)@ == old(v)@ + sbytes(*s),
{ v.extend(s.as_bytes()) }

//@ item sim/elvis-core/src/protocols/ipv4/ipv4_address.rs :: struct Ipv4Address
//@ rewrite `pub struct Ipv4Address\(\[u8; 4\]\);` => `pub struct Ipv4Address(pub [u8; 4]);` ## visibility only
//@ end
impl FromSpecImpl<u32> for Ipv4Address {
    open spec fn obeys_from_spec() -> bool { true }
    open spec fn from_spec(n: u32) -> Self { Ipv4Address(spec_to_be(n)) }
}
impl FromSpecImpl<[u8; 4]> for Ipv4Address {
    open spec fn obeys_from_spec() -> bool { true }
    open spec fn from_spec(n: [u8; 4]) -> Self { Ipv4Address(n) }
}
//@ item sim/elvis-core/src/protocols/ipv4/ipv4_address.rs :: impl From<u32> for Ipv4Address id=Ipv4Address.from_u32
//@ rewrite `n\.to_be_bytes\(\)` => `vx_u32_to_be(n)` ## core::to_be_bytes routed through the contract-carrying wrapper
//@ end
//@ item sim/elvis-core/src/protocols/ipv4/ipv4_address.rs :: impl From<[u8; 4]> for Ipv4Address id=Ipv4Address.from_bytes
//@ end
impl FromSpecImpl<Ipv4Address> for [u8; 4] {
    open spec fn obeys_from_spec() -> bool { true }
    open spec fn from_spec(a: Ipv4Address) -> Self { a.0 }
}
//@ item sim/elvis-core/src/protocols/ipv4/ipv4_address.rs :: impl From<Ipv4Address> for [u8; 4] id=bytes.from_Ipv4Address
//@ end
impl Ipv4Address {
//@ item sim/elvis-core/src/protocols/ipv4/ipv4_address.rs :: impl Ipv4Address / fn to_bytes id=Ipv4Address.to_bytes
//@ contract
    ensures r == self.0,
//@ end
}

// ---------------------------------------------------------------------------
// utility.rs: BytesExt readers over an arbitrary byte iterator
// ---------------------------------------------------------------------------
/// taking n bytes off the front of an iterator
pub open spec fn took(before: Seq<u8>, after: Seq<u8>, n: int) -> bool {
    before.len() >= n && after == before.subrange(n, before.len() as int)
}

pub trait BytesExt: Iterator<Item = u8> {
//@ item sim/elvis-core/src/protocols/utility.rs :: trait BytesExt / fn next_u8 id=BytesExt.next_u8
//@ contract
    requires (*old(self)).obeys_prophetic_iter_laws(),
    ensures
        (*final(self)).obeys_prophetic_iter_laws(),
        (*old(self)).remaining().len() >= 1 ==> r == Some((*old(self)).remaining()[0]) && took((*old(self)).remaining(), (*final(self)).remaining(), 1),   //# reads_one_byte [C08,C14]
        (*old(self)).remaining().len() < 1 ==> r is None,   //# none_when_exhausted [C14]
//@ end
//@ item sim/elvis-core/src/protocols/utility.rs :: trait BytesExt / fn next_u16_be id=BytesExt.next_u16_be
//@ rewrite `u16::from_be_bytes\(arr\)` => `vx_u16_from_be(arr)` ## core::from_be_bytes routed through the contract-carrying wrapper
//@ contract
    requires (*old(self)).obeys_prophetic_iter_laws(),
    ensures
        (*final(self)).obeys_prophetic_iter_laws(),
        (*old(self)).remaining().len() >= 2 ==> r == Some(be16([(*old(self)).remaining()[0], (*old(self)).remaining()[1]])) && took((*old(self)).remaining(), (*final(self)).remaining(), 2),   //# reads_big_endian_u16 [C08,C14]
        (*old(self)).remaining().len() < 2 ==> r is None,   //# none_when_too_short [C14]
//@ after 1 `let arr = [self.next()?, self.next()?];`
        proof {
            let r0 = (*old(self)).remaining();
            assert((*self).remaining() =~= r0.subrange(2, r0.len() as int));
            assert(arr@ =~= seq![r0[0], r0[1]]);
        }
//@ end
//@ item sim/elvis-core/src/protocols/utility.rs :: trait BytesExt / fn next_u32_be id=BytesExt.next_u32_be
//@ rewrite `u32::from_be_bytes\(arr\)` => `vx_u32_from_be(arr)` ## core::from_be_bytes routed through the contract-carrying wrapper
//@ contract
    requires (*old(self)).obeys_prophetic_iter_laws(),
    ensures
        (*final(self)).obeys_prophetic_iter_laws(),
        (*old(self)).remaining().len() >= 4 ==> r == Some(be32([(*old(self)).remaining()[0], (*old(self)).remaining()[1], (*old(self)).remaining()[2], (*old(self)).remaining()[3]])) && took((*old(self)).remaining(), (*final(self)).remaining(), 4),   //# reads_big_endian_u32 [C08,C14]
        (*old(self)).remaining().len() < 4 ==> r is None,   //# none_when_too_short [C14]
//@ after 1 `let arr = [self.next()?, self.next()?, self.next()?, self.next()?];`
        proof {
            let r0 = (*old(self)).remaining();
            assert((*self).remaining() =~= r0.subrange(4, r0.len() as int));
            assert(arr@ =~= seq![r0[0], r0[1], r0[2], r0[3]]);
        }
//@ end
//@ item sim/elvis-core/src/protocols/utility.rs :: trait BytesExt / fn next_ipv4addr id=BytesExt.next_ipv4addr mode=sig
//@ contract
    // ASSUMED contract (one-line body `self.next_u32_be().map(Ipv4Address::from)` not verified here: Verus' trait-cycle
    // check rejects a call to `From<u32> for Ipv4Address` from a default method of a blanket-implemented trait)
    requires (*old(self)).obeys_prophetic_iter_laws(),
    ensures
        (*final(self)).obeys_prophetic_iter_laws(),
        (*old(self)).remaining().len() >= 4 ==> r == Some(Ipv4Address([(*old(self)).remaining()[0], (*old(self)).remaining()[1], (*old(self)).remaining()[2], (*old(self)).remaining()[3]])) && took((*old(self)).remaining(), (*final(self)).remaining(), 4),
        (*old(self)).remaining().len() < 4 ==> r is None,   //# none_when_too_short [C14]
//@ end
}
//@ item sim/elvis-core/src/protocols/utility.rs :: impl BytesExt for T id=BytesExt.blanket_impl
//@ end


// ---------------------------------------------------------------------------
// dhcp/dhcp_parsing.rs
// ---------------------------------------------------------------------------
//@ item sim/elvis-core/src/protocols/dhcp/dhcp_parsing.rs :: enum MessageType strip-attrs
//@ end
//@ item sim/elvis-core/src/protocols/dhcp/dhcp_parsing.rs :: enum ParseError
//@ rewrite `#\[derive\(Debug, ThisError, Clone, Copy, PartialEq, Eq\)\]` => `#[derive(Debug, Clone, Copy, PartialEq, Eq)]` ## thiserror derive dropped (Display impl only)
//@ rewrite `#\[error\("[^"]*"\)\]` => `` ## thiserror attribute dropped
//@ end
//@ item sim/elvis-core/src/protocols/dhcp/dhcp_parsing.rs :: struct DhcpMessage strip-attrs
//@ rewrite `(\n\s*)(htype|hlen|hops|transaction_id|seconds|flags|client_ip|server_ip|router_ip|client_hardware_address|server_name|boot_file): ` => `\1pub \2: ` ## visibility only
//@ end

impl TryFromSpecImpl<u8> for MessageType {
    open spec fn obeys_try_from_spec() -> bool { false }   // contract is the `ensures` below
    open spec fn try_from_spec(v: u8) -> Result<Self, ParseError> { arbitrary() }
}
impl TryFrom<u8> for MessageType {
    type Error = ParseError;
//@ item sim/elvis-core/src/protocols/dhcp/dhcp_parsing.rs :: impl TryFrom<u8> for MessageType / fn try_from id=MessageType.try_from
//@ contract
    ensures
        // every byte value is either one of the seven message types or rejected with an error: no panic
        (1 <= msg_type <= 7) ==> r is Ok,   //# accepts_types_1_to_7 [C08,C14]
        r matches Ok(t) ==> type_code(t) == msg_type,   //# code_of_the_returned_type_is_the_byte [C08]
        !(1 <= msg_type <= 7) ==> r is Err,   //# rejects_everything_else [C14]
//@ end
}

// ---------------------------------------------------------------------------
// wire format (the specification the encoder and the decoder are both checked against)
// ---------------------------------------------------------------------------
pub open spec fn type_code(t: MessageType) -> u8 {
    match t {
        MessageType::Discover => 1u8, MessageType::Offer => 2u8, MessageType::Request => 3u8, MessageType::Decline => 4u8,
        MessageType::Ack => 5u8, MessageType::Nack => 6u8, MessageType::Release => 7u8,
    }
}
pub open spec fn no_nul(b: Seq<u8>) -> bool { forall|i: int| 0 <= i < b.len() ==> b[i] != 0u8 }
/// the 30 fixed octets: op htype hlen hops | xid (4) | secs (2) | flags | ciaddr yiaddr siaddr giaddr (4 each) | chaddr (2) | type
pub open spec fn dhcp_fixed(m: DhcpMessage) -> Seq<u8> {
    let x = spec_to_be(m.transaction_id);
    let s = spec_to_be16(m.seconds);
    let h = spec_to_be16(m.client_hardware_address);
    seq![m.op, m.htype, m.hlen, m.hops, x[0], x[1], x[2], x[3], s[0], s[1], m.flags,
         m.client_ip.0[0], m.client_ip.0[1], m.client_ip.0[2], m.client_ip.0[3],
         m.your_ip.0[0], m.your_ip.0[1], m.your_ip.0[2], m.your_ip.0[3],
         m.server_ip.0[0], m.server_ip.0[1], m.server_ip.0[2], m.server_ip.0[3],
         m.router_ip.0[0], m.router_ip.0[1], m.router_ip.0[2], m.router_ip.0[3],
         h[0], h[1], type_code(m.msg_type)]
}
/// fixed part, then the two NUL-terminated names
pub open spec fn dhcp_enc(m: DhcpMessage) -> Seq<u8> {
    dhcp_fixed(m) + sbytes(m.server_name) + seq![0u8] + sbytes(m.boot_file) + seq![0u8]
}
/// 'representable': the names do not contain the terminator
pub open spec fn dhcp_representable(m: DhcpMessage) -> bool { no_nul(sbytes(m.server_name)) && no_nul(sbytes(m.boot_file)) }


// ---------------------------------------------------------------------------
// proof scaffolding for the decoder contract
// ---------------------------------------------------------------------------
pub open spec fn is_prefix(p: Seq<u8>, s: Seq<u8>) -> bool { p.len() <= s.len() && s.subrange(0, p.len() as int) == p }
pub open spec fn pre(x: DhcpMessage, all: Seq<u8>) -> bool { dhcp_representable(x) && is_prefix(dhcp_enc(x), all) }
/// what `all` looks like when it starts with the encoding of x
pub open spec fn pre_facts(x: DhcpMessage, all: Seq<u8>) -> bool {
    let xs = sbytes(x.server_name);
    let xb = sbytes(x.boot_file);
    &&& no_nul(xs) && no_nul(xb)
    &&& all.len() >= 32 + (xs.len() as int) + (xb.len() as int)
    &&& (forall|i: int| 0 <= i < 30 ==> all[i] == #[trigger] dhcp_fixed(x)[i])
    &&& (forall|i: int| 0 <= i < (xs.len() as int) ==> all[30 + i] == #[trigger] xs[i])
    &&& all[30 + (xs.len() as int)] == 0u8
    &&& (forall|i: int| 0 <= i < (xb.len() as int) ==> all[31 + (xs.len() as int) + i] == #[trigger] xb[i])
    &&& all[31 + (xs.len() as int) + (xb.len() as int)] == 0u8
}
pub ghost struct Fixed {
    pub op: u8, pub htype: u8, pub hlen: u8, pub hops: u8, pub transaction_id: u32, pub seconds: u16, pub flags: u8,
    pub client_ip: Ipv4Address, pub your_ip: Ipv4Address, pub server_ip: Ipv4Address, pub router_ip: Ipv4Address,
    pub client_hardware_address: u16, pub code: u8,
}
/// the fixed fields as the decoder reads them off the wire
pub open spec fn fixed_ok(all: Seq<u8>, f: Fixed) -> bool {
    &&& all.len() >= 31
    &&& f.op == all[0] && f.htype == all[1] && f.hlen == all[2] && f.hops == all[3]
    &&& f.transaction_id == be32([all[4], all[5], all[6], all[7]])
    &&& f.seconds == be16([all[8], all[9]]) && f.flags == all[10]
    &&& f.client_ip == Ipv4Address([all[11], all[12], all[13], all[14]])
    &&& f.your_ip == Ipv4Address([all[15], all[16], all[17], all[18]])
    &&& f.server_ip == Ipv4Address([all[19], all[20], all[21], all[22]])
    &&& f.router_ip == Ipv4Address([all[23], all[24], all[25], all[26]])
    &&& f.client_hardware_address == be16([all[27], all[28]])
    &&& f.code == all[29] && 1 <= f.code <= 7
}
pub proof fn lemma_enc_index(m: DhcpMessage)
    ensures
        dhcp_fixed(m).len() == 30,
        dhcp_enc(m).len() == 32 + (sbytes(m.server_name).len() as int) + (sbytes(m.boot_file).len() as int),
        forall|i: int| 0 <= i < 30 ==> dhcp_enc(m)[i] == dhcp_fixed(m)[i],
        forall|i: int| 0 <= i < (sbytes(m.server_name).len() as int) ==> dhcp_enc(m)[30 + i] == sbytes(m.server_name)[i],
        dhcp_enc(m)[30 + (sbytes(m.server_name).len() as int)] == 0u8,
        forall|i: int| 0 <= i < (sbytes(m.boot_file).len() as int) ==> dhcp_enc(m)[31 + (sbytes(m.server_name).len() as int) + i] == sbytes(m.boot_file)[i],
        dhcp_enc(m)[31 + (sbytes(m.server_name).len() as int) + (sbytes(m.boot_file).len() as int)] == 0u8,
{
}
pub proof fn lemma_pre_facts(x: DhcpMessage, all: Seq<u8>)
    requires pre(x, all),
    ensures pre_facts(x, all),
{
    lemma_enc_index(x);
    let e = dhcp_enc(x);
    assert forall|i: int| 0 <= i < (e.len() as int) implies all[i] == e[i] by {
        assert(all.subrange(0, e.len() as int)[i] == all[i]);
    }
}
pub proof fn lemma_be_inverse(b: [u8; 4])
    ensures spec_to_be(be32(b)) == b,
{
    lemma_to_be_roundtrip(be32(b));
    lemma_be32_inj(spec_to_be(be32(b)), b);
}
pub proof fn lemma_be16_inverse(b: [u8; 2])
    ensures spec_to_be16(be16(b)) == b,
{
    let (b0, b1) = (b[0], b[1]);
    assert(((((b0 as u16) << 8) | (b1 as u16)) >> 8) as u8 == b0 && ((((b0 as u16) << 8) | (b1 as u16)) & 0xff) as u8 == b1) by (bit_vector);
    assert(spec_to_be16(be16(b)) =~= b);
}
pub proof fn lemma_type_code_inj(a: MessageType, b: MessageType)
    requires type_code(a) == type_code(b),
    ensures a == b,
{
}
/// the decoded value re-encodes to the consumed prefix
pub proof fn lemma_reencode(m: DhcpMessage, all: Seq<u8>, f: Fixed, sn: Seq<u8>, bf: Seq<u8>)
    requires
        fixed_ok(all, f),
        f == (Fixed { op: m.op, htype: m.htype, hlen: m.hlen, hops: m.hops, transaction_id: m.transaction_id, seconds: m.seconds, flags: m.flags,
                      client_ip: m.client_ip, your_ip: m.your_ip, server_ip: m.server_ip, router_ip: m.router_ip,
                      client_hardware_address: m.client_hardware_address, code: type_code(m.msg_type) }),
        sbytes(m.server_name) == sn, sbytes(m.boot_file) == bf, no_nul(sn), no_nul(bf),
        32 + (sn.len() as int) + (bf.len() as int) <= all.len(),
        sn == all.subrange(30, 30 + (sn.len() as int)), all[30 + (sn.len() as int)] == 0u8,
        bf == all.subrange(31 + (sn.len() as int), 31 + (sn.len() as int) + (bf.len() as int)), all[31 + (sn.len() as int) + (bf.len() as int)] == 0u8,
    ensures dhcp_representable(m), is_prefix(dhcp_enc(m), all),
{
    lemma_enc_index(m);
    lemma_be_inverse([all[4], all[5], all[6], all[7]]);
    lemma_be16_inverse([all[8], all[9]]);
    lemma_be16_inverse([all[27], all[28]]);
    let e = dhcp_enc(m);
    let fx = dhcp_fixed(m);
    assert forall|i: int| 0 <= i < (e.len() as int) implies all[i] == e[i] by {
        if i < 30 {
            assert(e[i] == fx[i]);
            assert(fx[i] == all[i]);
        } else if i < 30 + (sn.len() as int) {
            assert(e[30 + (i - 30)] == sn[i - 30]);
            assert(sn[i - 30] == all[i]);
        } else if i == 30 + (sn.len() as int) {
        } else if i < 31 + (sn.len() as int) + (bf.len() as int) {
            assert(e[31 + (sn.len() as int) + (i - 31 - (sn.len() as int))] == bf[i - 31 - (sn.len() as int)]);
            assert(bf[i - 31 - (sn.len() as int)] == all[i]);
        } else {
        }
    }
    assert(all.subrange(0, e.len() as int) =~= e);
}
/// two values whose fixed fields and names agree on the wire are the same value
pub proof fn lemma_same_value(m: DhcpMessage, x: DhcpMessage, all: Seq<u8>, f: Fixed)
    requires
        pre_facts(x, all), fixed_ok(all, f),
        f == (Fixed { op: m.op, htype: m.htype, hlen: m.hlen, hops: m.hops, transaction_id: m.transaction_id, seconds: m.seconds, flags: m.flags,
                      client_ip: m.client_ip, your_ip: m.your_ip, server_ip: m.server_ip, router_ip: m.router_ip,
                      client_hardware_address: m.client_hardware_address, code: type_code(m.msg_type) }),
        m.server_name == x.server_name, m.boot_file == x.boot_file,
    ensures m == x,
{
    let fx = dhcp_fixed(x);
    assert(fx.len() == 30);
    assert(all[0] == fx[0] && all[1] == fx[1] && all[2] == fx[2] && all[3] == fx[3] && all[4] == fx[4] && all[5] == fx[5] && all[6] == fx[6] && all[7] == fx[7]
        && all[8] == fx[8] && all[9] == fx[9] && all[10] == fx[10] && all[11] == fx[11] && all[12] == fx[12] && all[13] == fx[13] && all[14] == fx[14]
        && all[15] == fx[15] && all[16] == fx[16] && all[17] == fx[17] && all[18] == fx[18] && all[19] == fx[19] && all[20] == fx[20] && all[21] == fx[21]
        && all[22] == fx[22] && all[23] == fx[23] && all[24] == fx[24] && all[25] == fx[25] && all[26] == fx[26] && all[27] == fx[27] && all[28] == fx[28] && all[29] == fx[29]);
    lemma_to_be_roundtrip(x.transaction_id);
    lemma_to_be16_roundtrip(x.seconds);
    lemma_to_be16_roundtrip(x.client_hardware_address);
    assert([all[4], all[5], all[6], all[7]] =~= spec_to_be(x.transaction_id));
    assert([all[8], all[9]] =~= spec_to_be16(x.seconds));
    assert([all[27], all[28]] =~= spec_to_be16(x.client_hardware_address));
    assert([all[11], all[12], all[13], all[14]] =~= x.client_ip.0);
    assert([all[15], all[16], all[17], all[18]] =~= x.your_ip.0);
    assert([all[19], all[20], all[21], all[22]] =~= x.server_ip.0);
    assert([all[23], all[24], all[25], all[26]] =~= x.router_ip.0);
    lemma_type_code_inj(m.msg_type, x.msg_type);
}


// `bytes.remaining()` is prophetic and may not be passed to a proof function: the lemmas are used in their all-quantified form
pub open spec fn reencode_pre(m: DhcpMessage, all: Seq<u8>, f: Fixed, sn: Seq<u8>, bf: Seq<u8>) -> bool {
    &&& fixed_ok(all, f)
    &&& f == (Fixed { op: m.op, htype: m.htype, hlen: m.hlen, hops: m.hops, transaction_id: m.transaction_id, seconds: m.seconds, flags: m.flags,
                      client_ip: m.client_ip, your_ip: m.your_ip, server_ip: m.server_ip, router_ip: m.router_ip,
                      client_hardware_address: m.client_hardware_address, code: type_code(m.msg_type) })
    &&& sbytes(m.server_name) == sn && sbytes(m.boot_file) == bf && no_nul(sn) && no_nul(bf)
    &&& 32 + sn.len() + bf.len() <= all.len()
    &&& sn == all.subrange(30, 30 + sn.len() as int) && all[30 + sn.len() as int] == 0u8
    &&& bf == all.subrange(31 + sn.len() as int, 31 + sn.len() as int + bf.len() as int) && all[31 + sn.len() as int + bf.len() as int] == 0u8
}
pub proof fn lemma_pre_facts_all(x: DhcpMessage)
    ensures forall|all: Seq<u8>| #[trigger] pre(x, all) ==> pre_facts(x, all),
{
    assert forall|all: Seq<u8>| #[trigger] pre(x, all) implies pre_facts(x, all) by { lemma_pre_facts(x, all); }
}
pub proof fn lemma_reencode_all(m: DhcpMessage, f: Fixed, sn: Seq<u8>, bf: Seq<u8>)
    ensures forall|all: Seq<u8>| #[trigger] reencode_pre(m, all, f, sn, bf) ==> dhcp_representable(m) && is_prefix(dhcp_enc(m), all),
{
    assert forall|all: Seq<u8>| #[trigger] reencode_pre(m, all, f, sn, bf) implies dhcp_representable(m) && is_prefix(dhcp_enc(m), all) by { lemma_reencode(m, all, f, sn, bf); }
}
pub open spec fn same_value_pre(m: DhcpMessage, x: DhcpMessage, all: Seq<u8>, f: Fixed) -> bool {
    &&& pre_facts(x, all) && fixed_ok(all, f)
    &&& f == (Fixed { op: m.op, htype: m.htype, hlen: m.hlen, hops: m.hops, transaction_id: m.transaction_id, seconds: m.seconds, flags: m.flags,
                      client_ip: m.client_ip, your_ip: m.your_ip, server_ip: m.server_ip, router_ip: m.router_ip,
                      client_hardware_address: m.client_hardware_address, code: type_code(m.msg_type) })
    &&& m.server_name == x.server_name && m.boot_file == x.boot_file
}
pub proof fn lemma_same_value_all(m: DhcpMessage, x: DhcpMessage, f: Fixed)
    ensures forall|all: Seq<u8>| #[trigger] same_value_pre(m, x, all, f) ==> m == x,
{
    assert forall|all: Seq<u8>| #[trigger] same_value_pre(m, x, all, f) implies m == x by { lemma_same_value(m, x, all, f); }
}


/// the round-trip clause is not vacuous: the encoding of a representable value satisfies the decoder clause's hypothesis
pub proof fn lemma_roundtrip_hypothesis_is_satisfiable(x: DhcpMessage)
    requires dhcp_representable(x),
    ensures pre(x, dhcp_enc(x)),
{
    assert(dhcp_enc(x).subrange(0, dhcp_enc(x).len() as int) =~= dhcp_enc(x));
}
/// (C08) decode(encode(x)) == x, as a lemma over the two contracts: `wire` is what to_message's contract says it emits,
/// `r` is any result allowed by from_bytes' contract on that input
pub proof fn lemma_dhcp_roundtrip(x: DhcpMessage, wire: Seq<u8>, r: Result<DhcpMessage, ParseError>)
    requires
        dhcp_representable(x),
        wire == dhcp_enc(x),                                                                       // DhcpMessage.to_message.emits_the_wire_layout
        (dhcp_representable(x) && is_prefix(dhcp_enc(x), wire)) ==> r == Ok::<DhcpMessage, ParseError>(x),   // DhcpMessage.from_bytes.decoding_the_encoding_gives_back_the_value
    ensures r == Ok::<DhcpMessage, ParseError>(x),
{
    lemma_roundtrip_hypothesis_is_satisfiable(x);
}

impl DhcpMessage {
//@ item sim/elvis-core/src/protocols/dhcp/dhcp_parsing.rs :: impl DhcpMessage / fn to_message id=DhcpMessage.to_message
//@ rewrite `message\.transaction_id\.to_be_bytes\(\)` => `vx_u32_to_be(message.transaction_id)` ## core::to_be_bytes routed through the contract-carrying wrapper
//@ rewrite `message\.(seconds|client_hardware_address)\.to_be_bytes\(\)` => `vx_u16_to_be(message.\1)` ## core::to_be_bytes routed through the contract-carrying wrapper
//@ rewrite `vec_message\.extend\((client|your|server|router)\);` => `vec_message.extend_from_slice(&\1);` ## Vec::extend(array) (IntoIterator for [u8; 4]) expressed as extend_from_slice of the same array
//@ rewrite `vec_message\.extend\(message\.(server_name|boot_file)\.as_bytes\(\)\);` => `vx_extend_str(&mut vec_message, &message.\1);` ## Vec::extend(str::as_bytes()) routed through the assumed-contract wrapper vx_extend_str
//@ rewrite `Message::new\(vec_message\)` => `Message::new_inner(Chunk::new(vec_message))` ## Message::new(impl Into<Chunk>) is the generic wrapper `Self::new_inner(body.into())` with `From<Vec<u8>> for Chunk = Chunk::new`; inlined
//@ contract
    ensures
        // (C08) the encoder emits exactly the wire layout
        r matches Ok(msg) && msg.wf() && msg@ == dhcp_enc(message),   //# emits_the_wire_layout [C08]
//@ end
//@ item sim/elvis-core/src/protocols/dhcp/dhcp_parsing.rs :: impl DhcpMessage / fn from_bytes id=DhcpMessage.from_bytes
//@ rewrite `pub fn from_bytes\(mut bytes: impl Iterator<Item = u8>\)` => `#[verifier::exec_allows_no_decreases_clause] pub fn from_bytes(bytes0: impl Iterator<Item = u8>, Ghost(x): Ghost<DhcpMessage>)` ## ghost parameter x (erased at run time): the value whose encoding the input may start with, for the round-trip clause; the `mut` parameter is renamed bytes0 and rebound by `let mut bytes = bytes0;` as the first statement (so that loop invariants can name the entry value); termination of the two name loops is NOT verified (finiteness of the caller's iterator)
//@ rewrite `\.map_err\(\|_\| ` => `.map_err(|_e| ` ## Verus needs a named closure parameter
//@ rewrite `current = bytes\.next_u8\(\)\.ok_or\(HTS\)\?\n` => `current = bytes.next_u8().ok_or(HTS)?;\n` ## the loop body's unit-typed tail expression is made a statement so that a proof block can follow it
//@ contract
    // (C14) for every byte string the decoder returns a value or an error: every unwrap / unreachable! / index is an obligation
    requires bytes0.obeys_prophetic_iter_laws(),
    ensures
        bytes0.remaining().len() < 30 ==> r is Err,   //# truncated_fixed_part_is_rejected [C14]
        r matches Ok(m) ==> bytes0.remaining().len() >= 32 && m.op == bytes0.remaining()[0] && m.htype == bytes0.remaining()[1]
            && m.hlen == bytes0.remaining()[2] && m.hops == bytes0.remaining()[3]
            && m.transaction_id == be32([bytes0.remaining()[4], bytes0.remaining()[5], bytes0.remaining()[6], bytes0.remaining()[7]])
            && m.seconds == be16([bytes0.remaining()[8], bytes0.remaining()[9]]) && m.flags == bytes0.remaining()[10]
            && m.client_hardware_address == be16([bytes0.remaining()[27], bytes0.remaining()[28]]),   //# fixed_fields_at_their_offsets [C08]
        // (C08) for every byte string the decoder accepts, re-encoding the decoded value reproduces the bytes that were consumed
        r matches Ok(m) ==> dhcp_representable(m) && is_prefix(dhcp_enc(m), bytes0.remaining()),   //# reencoding_reproduces_the_consumed_bytes [C08]
        // (C08) for every representable value x, decoding (anything that starts with) the encoding of x gives back x
        (dhcp_representable(x) && is_prefix(dhcp_enc(x), bytes0.remaining())) ==> r == Ok::<DhcpMessage, ParseError>(x),   //# decoding_the_encoding_gives_back_the_value [C08]
//@ start
        let mut bytes = bytes0;
        let ghost all = bytes0.remaining();
        proof { lemma_pre_facts_all(x); }
//@ after 1 `let op = bytes.next_`
        proof { assert(bytes.remaining() =~= all.subrange(1, all.len() as int)); }
//@ after 1 `let htype = bytes.next_`
        proof { assert(bytes.remaining() =~= all.subrange(2, all.len() as int)); }
//@ after 1 `let hlen = bytes.next_`
        proof { assert(bytes.remaining() =~= all.subrange(3, all.len() as int)); }
//@ after 1 `let hops = bytes.next_`
        proof { assert(bytes.remaining() =~= all.subrange(4, all.len() as int)); }
//@ after 1 `let transaction_id = bytes.next_`
        proof { assert(bytes.remaining() =~= all.subrange(8, all.len() as int)); }
//@ after 1 `let seconds = bytes.next_`
        proof { assert(bytes.remaining() =~= all.subrange(10, all.len() as int)); }
//@ after 1 `let flags = bytes.next_`
        proof { assert(bytes.remaining() =~= all.subrange(11, all.len() as int)); }
//@ after 1 `let client_ip = bytes.next_`
        proof { assert(bytes.remaining() =~= all.subrange(15, all.len() as int)); }
//@ after 1 `let your_ip = bytes.next_`
        proof { assert(bytes.remaining() =~= all.subrange(19, all.len() as int)); }
//@ after 1 `let server_ip = bytes.next_`
        proof { assert(bytes.remaining() =~= all.subrange(23, all.len() as int)); }
//@ after 1 `let router_ip = bytes.next_`
        proof { assert(bytes.remaining() =~= all.subrange(27, all.len() as int)); }
//@ after 1 `let client_hardware_address = bytes.next_`
        proof { assert(bytes.remaining() =~= all.subrange(29, all.len() as int)); }
//@ before 1 `let msg_type = MessageType::try_from(`
        proof {
            // under pre the type octet is the code of x's message type
            assert(pre(x, all) ==> all[29] == dhcp_fixed(x)[29]);
        }
//@ after 1 `let msg_type = MessageType::try_from(`
        proof { assert(bytes.remaining() =~= all.subrange(30, all.len() as int)); }
//@ after 1 `let mut current = bytes.next_u8().ok_or(HTS)?;`
        proof {
            assert(bytes.remaining() =~= all.subrange(31, all.len() as int));
            assert(server_name@ =~= all.subrange(30, 30));
        }
        let ghost fx = Fixed { op, htype, hlen, hops, transaction_id, seconds, flags, client_ip, your_ip, server_ip, router_ip, client_hardware_address, code: type_code(msg_type) };
        assert(fixed_ok(all, fx));
//@ loop 1
            invariant bytes.obeys_prophetic_iter_laws(), fixed_ok(all, fx), all == bytes0.remaining(),
                fx == (Fixed { op, htype, hlen, hops, transaction_id, seconds, flags, client_ip, your_ip, server_ip, router_ip, client_hardware_address, code: type_code(msg_type) }),
                31 + server_name@.len() <= all.len(),
                bytes.remaining() == all.subrange(31 + server_name@.len() as int, all.len() as int),
                server_name@ == all.subrange(30, 30 + server_name@.len() as int),
                no_nul(server_name@),
                current == all[30 + server_name@.len() as int],
                pre(x, all) ==> pre_facts(x, all) && server_name@.len() <= sbytes(x.server_name).len(),
//@ loop-start 1
            proof {
                // under pre the name being read has not reached x's terminator yet, so another byte is there
                assert(pre(x, all) ==> server_name@.len() < sbytes(x.server_name).len());
            }
//@ loop-end 1
            proof {
                assert(bytes.remaining() =~= all.subrange(31 + server_name@.len() as int, all.len() as int));
                assert(server_name@ =~= all.subrange(30, 30 + server_name@.len() as int));
                // under pre: the byte just pushed was nonzero, but x's terminator would sit there had we passed the end of x's name
                assert((pre(x, all) && server_name@.len() > sbytes(x.server_name).len())
                    ==> server_name@[sbytes(x.server_name).len() as int] == all[30 + sbytes(x.server_name).len() as int]);
            }
//@ before 1 `let server_name = String::from_utf8(server_name)`
        let ghost sn = server_name@;
        proof {
            let xs = sbytes(x.server_name);
            assert(all[30 + sn.len() as int] == 0u8);
            assert((pre(x, all) && sn.len() < xs.len()) ==> all[30 + sn.len() as int] == xs[sn.len() as int]);
            assert(pre(x, all) ==> sn =~= xs);
            axiom_string_bytes(x.server_name);
        }
//@ after 1 `let server_name = String::from_utf8(server_name)`
        proof { axiom_string_inj_all(); }
//@ after 3 `current = bytes.next_u8().ok_or(HTS)?;`
        proof {
            assert(bytes.remaining() =~= all.subrange(32 + sn.len() as int, all.len() as int));
            assert(boot_file@ =~= all.subrange(31 + sn.len() as int, 31 + sn.len() as int));
        }
//@ loop 2
            invariant bytes.obeys_prophetic_iter_laws(), fixed_ok(all, fx), all == bytes0.remaining(),
                fx == (Fixed { op, htype, hlen, hops, transaction_id, seconds, flags, client_ip, your_ip, server_ip, router_ip, client_hardware_address, code: type_code(msg_type) }),
                sbytes(server_name) == sn, 31 + sn.len() <= all.len(), sn == all.subrange(30, 30 + sn.len() as int), no_nul(sn), all[30 + sn.len() as int] == 0u8,
                32 + sn.len() + boot_file@.len() <= all.len(),
                bytes.remaining() == all.subrange(32 + sn.len() as int + boot_file@.len() as int, all.len() as int),
                boot_file@ == all.subrange(31 + sn.len() as int, 31 + sn.len() as int + boot_file@.len() as int),
                no_nul(boot_file@),
                current == all[31 + sn.len() as int + boot_file@.len() as int],
                pre(x, all) ==> pre_facts(x, all) && server_name == x.server_name && sn == sbytes(x.server_name) && boot_file@.len() <= sbytes(x.boot_file).len(),
//@ loop-start 2
            proof {
                assert(pre(x, all) ==> boot_file@.len() < sbytes(x.boot_file).len());
            }
//@ loop-end 2
            proof {
                assert(bytes.remaining() =~= all.subrange(32 + sn.len() as int + boot_file@.len() as int, all.len() as int));
                assert(boot_file@ =~= all.subrange(31 + sn.len() as int, 31 + sn.len() as int + boot_file@.len() as int));
                assert((pre(x, all) && boot_file@.len() > sbytes(x.boot_file).len())
                    ==> boot_file@[sbytes(x.boot_file).len() as int] == all[31 + sn.len() as int + sbytes(x.boot_file).len() as int]);
            }
//@ before 1 `let boot_file = String::from_utf8(boot_file)`
        let ghost bf = boot_file@;
        proof {
            let xb = sbytes(x.boot_file);
            assert(all[31 + sn.len() as int + bf.len() as int] == 0u8);
            assert((pre(x, all) && bf.len() < xb.len()) ==> all[31 + sn.len() as int + bf.len() as int] == xb[bf.len() as int]);
            assert(pre(x, all) ==> bf =~= xb);
            axiom_string_bytes(x.boot_file);
        }
//@ after 1 `let boot_file = String::from_utf8(boot_file)`
        proof {
            axiom_string_inj_all();
            let m = DhcpMessage { op, htype, hlen, hops, transaction_id, seconds, flags, client_ip, your_ip, server_ip, router_ip, client_hardware_address, server_name, boot_file, msg_type };
            lemma_reencode_all(m, fx, sn, bf);
            assert(reencode_pre(m, all, fx, sn, bf));
            lemma_same_value_all(m, x, fx);
            assert(pre(x, all) ==> same_value_pre(m, x, all, fx));
        }
//@ end
}

} // verus!

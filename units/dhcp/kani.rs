// Harnesses for dhcp/dhcp_parsing.rs — injected (add-only) as `mod vx_kani_dhcp`.
//   kind=witness : concrete byte strings demonstrating a failed Verus obligation on the real code
use super::*;
#[path = "/verif/vx/kani_support.rs"]
mod sup;
use sup::*;

fn packet(msg_type: u8, server_name: &[u8], boot_file: &[u8]) -> Vec<u8> {
    let mut p = vec![1u8, 1, 6, 0, 0, 0, 0, 2, 0, 0, 0, 10, 0, 0, 1, 10, 0, 0, 2, 10, 0, 0, 3, 10, 0, 0, 4, 0, 99, msg_type];
    p.extend_from_slice(server_name);
    p.push(0);
    p.extend_from_slice(boot_file);
    p.push(0);
    p
}

//# id=witness.decoder_panics props=C14 kind=witness pair=dhcp.MessageType.try_from.safety,dhcp.DhcpMessage.from_bytes.safety
// no byte string may make the DHCP decoder panic: it has to return a value or an error
#[cfg(vx_replay)]
#[test]
fn h_w_dhcp_decoder_total() {
    use std::panic::catch_unwind;
    let cases: Vec<(&str, Vec<u8>)> = vec![
        ("message type 0", packet(0, b"srv", b"boot")),
        ("message type 9", packet(9, b"srv", b"boot")),
        ("server name is not UTF-8", packet(1, &[0xff, 0xfe], b"boot")),
        ("boot file is not UTF-8", packet(1, b"srv", &[0xc3, 0x28])),
    ];
    let mut panicked = vec![];
    for (name, bytes) in cases {
        if catch_unwind(|| DhcpMessage::from_bytes(bytes.into_iter()).is_ok()).is_err() {
            panicked.push(name);
        }
    }
    assert!(panicked.is_empty(), "decoder panicked on: {:?}", panicked);
    // and the well-formed packet still decodes
    assert!(DhcpMessage::from_bytes(packet(2, b"srv", b"boot").into_iter()).is_ok());
}

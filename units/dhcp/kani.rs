// Harnesses for dhcp/dhcp_parsing.rs — injected (add-only) as `mod vx_kani_dhcp`.
//   kind=witness : concrete byte strings demonstrating a failed Verus obligation on the real code
use super::*;
#[path = "/verif/vx/kani_support.rs"]
mod sup;
use sup::*;

fn packet(msg_type: u8, server_name: &[u8], boot_file: &[u8]) -> Vec<u8> {
    let mut p = vec![1u8, 1, 6, 0, 0, 0, 0, 2, 0, 0, 0, 10, 0, 0, 1, 10, 0, 0, 2, 10, 0, 0, 3, 10, 0, 0, 4, 0, 99, msg_type];
    p.extend_from_slice(server_name);
    p.push(0);
    p.extend_from_slice(boot_file);
    p.push(0);
    p
}

//# id=witness.decoder_panics props=C14 kind=witness pair=dhcp.MessageType.try_from.safety,dhcp.DhcpMessage.from_bytes.safety
// no byte string may make the DHCP decoder panic: it has to return a value or an error
#[cfg(vx_replay)]
#[test]
fn h_w_dhcp_decoder_total() {
    use std::panic::catch_unwind;
    let cases: Vec<(&str, Vec<u8>)> = vec![
        ("message type 0", packet(0, b"srv", b"boot")),
        ("message type 9", packet(9, b"srv", b"boot")),
        ("server name is not UTF-8", packet(1, &[0xff, 0xfe], b"boot")),
        ("boot file is not UTF-8", packet(1, b"srv", &[0xc3, 0x28])),
    ];
    let mut panicked = vec![];
    for (name, bytes) in cases {
        if catch_unwind(|| DhcpMessage::from_bytes(bytes.into_iter()).is_ok()).is_err() {
            panicked.push(name);
        }
    }
    assert!(panicked.is_empty(), "decoder panicked on: {:?}", panicked);
    // and the well-formed packet still decodes
    assert!(DhcpMessage::from_bytes(packet(2, b"srv", b"boot").into_iter()).is_ok());
}

//# id=assume.next_ipv4addr fns=BytesExt::next_ipv4addr props=C08,C14 kind=complete pair=
// validates the ASSUMED contract of BytesExt::next_ipv4addr used by the Verus unit (body: next_u32_be().map(Ipv4Address::from))
#[cfg_attr(kani, kani::proof)]
#[cfg_attr(kani, kani::unwind(8))]
#[cfg_attr(vx_replay, test)]
fn h_assume_next_ipv4addr() {
    let b: [u8; 5] = any();
    let n = (any::<u8>() % 6) as usize;
    let mut it = b.into_iter().take(n);
    let r = it.next_ipv4addr();
    if n >= 4 {
        assert_eq!(r, Some(Ipv4Address::new([b[0], b[1], b[2], b[3]])));
        assert_eq!(it.count(), n - 4);
    } else {
        assert!(r.is_none());
    }
}

//# id=witness.roundtrip props=C08 kind=witness pair=dhcp.DhcpMessage.to_message.emits_the_wire_layout,dhcp.DhcpMessage.from_bytes.decoding_the_encoding_gives_back_the_value,dhcp.DhcpMessage.from_bytes.reencoding_reproduces_the_consumed_bytes
// decode(encode(x)) == x and encode(decode(b)) == b on a few concrete values (all message types, empty and non-ASCII names)
#[cfg(vx_replay)]
#[test]
fn h_w_dhcp_roundtrip() {
    for (t, sn, bf) in [(1u8, "", ""), (2, "srv", "boot"), (5, "s\u{e9}rv", ""), (7, "", "b")] {
        let wire = packet(t, sn.as_bytes(), bf.as_bytes());
        let m = DhcpMessage::from_bytes(wire.clone().into_iter()).expect("decodes");
        assert_eq!(m.msg_type as u8, t);
        let m = DhcpMessage::from_bytes(wire.clone().into_iter()).unwrap();
        assert_eq!((m.server_name.as_str(), m.boot_file.as_str()), (sn, bf));
        let again = DhcpMessage::to_message(m).unwrap().to_vec();
        assert_eq!(again, wire, "re-encoding differs from the consumed bytes");
        let m2 = DhcpMessage::from_bytes(again.into_iter()).unwrap();
        assert_eq!(m2, DhcpMessage::from_bytes(wire.into_iter()).unwrap());
    }
}

// ---------------------------------------------------------------------------
// BOUNDED stand-in for the DHCP codec (kind=witness: never run by Kani, never counted as proved).  Run on the real code
// only when the Verus unit `dhcp` cannot ingest a changed function (the unit is then UNDECIDED): every truncation of a set
// of well-formed packets, single-byte corruptions of them and 20000 pseudo-random byte strings of length 0..=48 are fed to
// the decoder: it must not panic, and whatever it accepts must re-encode to a prefix of the input (the bytes consumed).
// ---------------------------------------------------------------------------
//# id=witness.decoder_accepts_only_what_reencodes props=C08,C14 kind=witness pair=dhcp.DhcpMessage.from_bytes.reencoding_reproduces_the_consumed_bytes,dhcp.DhcpMessage.from_bytes.safety,dhcp.DhcpMessage.to_message.emits_the_wire_layout,dhcp.DhcpMessage.from_bytes.decoding_the_encoding_gives_back_the_value
#[cfg(vx_replay)]
#[test]
fn h_w_dhcp_decode_model() {
    use std::panic::catch_unwind;
    fn check(input: Vec<u8>, what: &str) {
        let inp = input.clone();
        let r = catch_unwind(move || DhcpMessage::from_bytes(inp.into_iter()).ok().map(|m| DhcpMessage::to_message(m).map(|x| x.to_vec())));
        match r {
            Err(_) => panic!("decoder or encoder panicked on {what}: {input:02x?}"),
            Ok(None) => {}
            Ok(Some(Err(_))) => panic!("an accepted message cannot be re-encoded ({what}): {input:02x?}"),
            Ok(Some(Ok(again))) => assert!(again.len() <= input.len() && again[..] == input[..again.len()],
                "decoder accepted {what} but re-encoding gives different bytes\n input    {input:02x?}\n re-coded {again:02x?}"),
        }
    }
    let mut good: Vec<Vec<u8>> = Vec::new();
    for t in 1u8..=7 {
        for (sn, bf) in [("", ""), ("srv", "boot"), ("s\u{e9}", "b"), ("", "file.img")] {
            good.push(packet(t, sn.as_bytes(), bf.as_bytes()));
        }
    }
    for p in &good {
        check(p.clone(), "a well-formed packet");
        for n in 0..p.len() { check(p[..n].to_vec(), "a truncated packet"); }
        for i in 0..p.len() { for v in [0u8, 1, 0x7f, 0x80, 0xff] { let mut q = p.clone(); q[i] = v; check(q, "a corrupted packet"); } }
        let mut q = p.clone(); q.extend_from_slice(&[1, 2, 3]); check(q, "a packet with trailing bytes");
    }
    let mut s: u64 = 0x1234_5678_9abc_def1;
    let mut next = |n: usize| { s = s.wrapping_mul(6364136223846793005).wrapping_add(1442695040888963407); ((s >> 33) as usize) % n.max(1) };
    for _ in 0..20000 {
        let n = next(49);
        let mut v: Vec<u8> = (0..n).map(|_| match next(4) { 0 => 0, 1 => next(8) as u8, _ => next(256) as u8 }).collect();
        if n > 29 && next(2) == 0 { v[29] = 1 + next(7) as u8; }
        check(v, "a pseudo-random byte string");
    }
}

// Harnesses for dhcp/dhcp_parsing.rs — injected (add-only) as `mod vx_kani_dhcp`.
//   kind=witness : concrete byte strings demonstrating a failed Verus obligation on the real code
use super::*;
#[path = "/verif/vx/kani_support.rs"]
mod sup;
use sup::*;

fn packet(msg_type: u8, server_name: &[u8], boot_file: &[u8]) -> Vec<u8> {
    let mut p = vec![1u8, 1, 6, 0, 0, 0, 0, 2, 0, 0, 0, 10, 0, 0, 1, 10, 0, 0, 2, 10, 0, 0, 3, 10, 0, 0, 4, 0, 99, msg_type];
    p.extend_from_slice(server_name);
    p.push(0);
    p.extend_from_slice(boot_file);
    p.push(0);
    p
}

//# id=witness.decoder_panics props=C14 kind=witness pair=dhcp.MessageType.try_from.safety,dhcp.DhcpMessage.from_bytes.safety
// no byte string may make the DHCP decoder panic: it has to return a value or an error
#[cfg(vx_replay)]
#[test]
fn h_w_dhcp_decoder_total() {
    use std::panic::catch_unwind;
    let cases: Vec<(&str, Vec<u8>)> = vec![
        ("message type 0", packet(0, b"srv", b"boot")),
        ("message type 9", packet(9, b"srv", b"boot")),
        ("server name is not UTF-8", packet(1, &[0xff, 0xfe], b"boot")),
        ("boot file is not UTF-8", packet(1, b"srv", &[0xc3, 0x28])),
    ];
    let mut panicked = vec![];
    for (name, bytes) in cases {
        if catch_unwind(|| DhcpMessage::from_bytes(bytes.into_iter()).is_ok()).is_err() {
            panicked.push(name);
        }
    }
    assert!(panicked.is_empty(), "decoder panicked on: {:?}", panicked);
    // and the well-formed packet still decodes
    assert!(DhcpMessage::from_bytes(packet(2, b"srv", b"boot").into_iter()).is_ok());
}

//# id=assume.next_ipv4addr fns=BytesExt::next_ipv4addr props=C08,C14 kind=complete pair=
// validates the ASSUMED contract of BytesExt::next_ipv4addr used by the Verus unit (body: next_u32_be().map(Ipv4Address::from))
#[cfg_attr(kani, kani::proof)]
#[cfg_attr(kani, kani::unwind(8))]
#[cfg_attr(vx_replay, test)]
fn h_assume_next_ipv4addr() {
    let b: [u8; 5] = any();
    let n = (any::<u8>() % 6) as usize;
    let mut it = b.into_iter().take(n);
    let r = it.next_ipv4addr();
    if n >= 4 {
        assert_eq!(r, Some(Ipv4Address::new([b[0], b[1], b[2], b[3]])));
        assert_eq!(it.count(), n - 4);
    } else {
        assert!(r.is_none());
    }
}

//# id=witness.roundtrip props=C08 kind=witness pair=dhcp.DhcpMessage.to_message.emits_the_wire_layout,dhcp.DhcpMessage.from_bytes.decoding_the_encoding_gives_back_the_value,dhcp.DhcpMessage.from_bytes.reencoding_reproduces_the_consumed_bytes
// decode(encode(x)) == x and encode(decode(b)) == b on a few concrete values (all message types, empty and non-ASCII names)
#[cfg(vx_replay)]
#[test]
fn h_w_dhcp_roundtrip() {
    for (t, sn, bf) in [(1u8, "", ""), (2, "srv", "boot"), (5, "s\u{e9}rv", ""), (7, "", "b")] {
        let wire = packet(t, sn.as_bytes(), bf.as_bytes());
        let m = DhcpMessage::from_bytes(wire.clone().into_iter()).expect("decodes");
        assert_eq!(m.msg_type as u8, t);
        let m = DhcpMessage::from_bytes(wire.clone().into_iter()).unwrap();
        assert_eq!((m.server_name.as_str(), m.boot_file.as_str()), (sn, bf));
        let again = DhcpMessage::to_message(m).unwrap().to_vec();
        assert_eq!(again, wire, "re-encoding differs from the consumed bytes");
        let m2 = DhcpMessage::from_bytes(again.into_iter()).unwrap();
        assert_eq!(m2, DhcpMessage::from_bytes(wire.into_iter()).unwrap());
    }
}

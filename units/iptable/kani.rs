// Kani harnesses for ip_table.rs — injected (add-only) as `mod vx_kani_iptable`.
// Loop-free, full domain => complete.  (Whole-table harnesses are infeasible
// in CBMC: a BTreeMap with two symbolic routes exhausted 62 GB.)
use super::*;
#[path = "/verif/vx/kani_support.rs"]
mod sup;
use sup::*;
use std::cmp::Ordering;

fn any_obm() -> (Obm, u32, u32) {
    let ip: u32 = any();
    let n: u32 = any();
    let net = Ipv4Net::new(Ipv4Address::from(ip), Ipv4Mask::from_bitcount(n));
    (Obm(net), net.id().to_u32(), net.mask().to_u32())
}
fn spec_cmp(ida: u32, ma: u32, idb: u32, mb: u32) -> Ordering {
    if ma > mb { Ordering::Less } else if ma < mb { Ordering::Greater } else { ida.cmp(&idb) }
}

//# id=obm.cmp_is_mask_desc_then_id fns=Obm::cmp+Obm::partial_cmp props=C09 kind=complete pair=iptable.Obm.cmp.safety,iptable.Obm.partial_cmp.safety
#[cfg_attr(kani, kani::proof)]
#[cfg_attr(vx_replay, test)]
fn h_obm_cmp() {
    let (a, ida, ma) = any_obm();
    let (b, idb, mb) = any_obm();
    let (c, idc, mc) = any_obm();
    assert_eq!(a.cmp(&b), spec_cmp(ida, ma, idb, mb));
    assert_eq!(a.partial_cmp(&b), Some(spec_cmp(ida, ma, idb, mb)));
    // lawful total order consistent with ==
    assert_eq!(a.cmp(&b) == Ordering::Equal, a == b);
    assert_eq!(a.cmp(&b) == Ordering::Less, b.cmp(&a) == Ordering::Greater);
    if a.cmp(&b) == Ordering::Less && b.cmp(&c) == Ordering::Less {
        assert!(a.cmp(&c) == Ordering::Less);
    }
    // a more specific network that contains an address sorts before a less specific one
    let x: u32 = any();
    if a.0.contains(Ipv4Address::from(x)) && b.0.contains(Ipv4Address::from(x)) && ma > mb {
        assert!(a < b);
    }
    // two networks with the same mask containing the same address are the same key
    if a.0.contains(Ipv4Address::from(x)) && b.0.contains(Ipv4Address::from(x)) && ma == mb {
        assert!(a == b);
    }
}

// Kani harnesses for ip_table.rs — injected (add-only) as `mod vx_kani_iptable`.
// Loop-free, full domain => complete.  (Whole-table harnesses are infeasible
// in CBMC: a BTreeMap with two symbolic routes exhausted 62 GB.)
use super::*;
#[path = "/verif/vx/kani_support.rs"]
mod sup;
use sup::*;
use std::cmp::Ordering;

fn any_obm() -> (Obm, u32, u32) {
    let ip: u32 = any();
    let n: u32 = any();
    let net = Ipv4Net::new(Ipv4Address::from(ip), Ipv4Mask::from_bitcount(n));
    (Obm(net), net.id().to_u32(), net.mask().to_u32())
}
fn spec_cmp(ida: u32, ma: u32, idb: u32, mb: u32) -> Ordering {
    if ma > mb { Ordering::Less } else if ma < mb { Ordering::Greater } else { ida.cmp(&idb) }
}

//# id=obm.cmp_is_mask_desc_then_id fns=Obm::cmp+Obm::partial_cmp props=C09 kind=complete pair=iptable.Obm.cmp.safety,iptable.Obm.partial_cmp.safety
#[cfg_attr(kani, kani::proof)]
#[cfg_attr(vx_replay, test)]
fn h_obm_cmp() {
    let (a, ida, ma) = any_obm();
    let (b, idb, mb) = any_obm();
    let (c, idc, mc) = any_obm();
    assert_eq!(a.cmp(&b), spec_cmp(ida, ma, idb, mb));
    assert_eq!(a.partial_cmp(&b), Some(spec_cmp(ida, ma, idb, mb)));
    // lawful total order consistent with ==
    assert_eq!(a.cmp(&b) == Ordering::Equal, a == b);
    assert_eq!(a.cmp(&b) == Ordering::Less, b.cmp(&a) == Ordering::Greater);
    if a.cmp(&b) == Ordering::Less && b.cmp(&c) == Ordering::Less {
        assert!(a.cmp(&c) == Ordering::Less);
    }
    // a more specific network that contains an address sorts before a less specific one
    let x: u32 = any();
    if a.0.contains(Ipv4Address::from(x)) && b.0.contains(Ipv4Address::from(x)) && ma > mb {
        assert!(a < b);
    }
    // two networks with the same mask containing the same address are the same key
    if a.0.contains(Ipv4Address::from(x)) && b.0.contains(Ipv4Address::from(x)) && ma == mb {
        assert!(a == b);
    }
}

// ---------------------------------------------------------------------------
// BOUNDED stand-in for the whole IpTable API (kind=witness: never run by Kani, never counted as proved).  It is run on the
// real code only when the Verus unit `iptable` cannot ingest a changed function (the unit is then UNDECIDED): 3000
// deterministic pseudo-random histories of 30 add / add_direct / remove / remove_direct / get_recipient operations over
// nets drawn from a small address space (prefix lengths 0, 8, 16, 24..=32, nested and overlapping on purpose), compared
// after every step with a naive model (association list, longest prefix by linear scan).
// ---------------------------------------------------------------------------
#[cfg(vx_replay)]
struct VxLcg(u64);
#[cfg(vx_replay)]
impl VxLcg {
    fn next(&mut self, n: usize) -> usize {
        self.0 = self.0.wrapping_mul(6364136223846793005).wrapping_add(1442695040888963407);
        ((self.0 >> 33) as usize) % n.max(1)
    }
}

//# id=witness.table_matches_the_naive_longest_prefix_model props=C09,C16 kind=witness pair=iptable.IpTable.get_recipient.longest_prefix_match,iptable.IpTable.get_recipient.safety,iptable.IpTable.add.safety,iptable.IpTable.remove.safety,iptable.IpTable.add_direct.safety,iptable.IpTable.remove_direct.safety
#[cfg(vx_replay)]
#[test]
fn h_w_iptable_model() {
    const LENS: [u32; 12] = [0, 8, 16, 24, 25, 26, 27, 28, 29, 30, 31, 32];
    for seed in 0..3000u64 {
        let mut g = VxLcg(seed.wrapping_mul(0x9e3779b97f4a7c15) ^ 0x2545f4914f6cdd1d);
        let mut t: IpTable<u32> = IpTable::new();
        let mut model: Vec<(u32, u32, u32)> = Vec::new(); // (network id, prefix length, value)
        let addr = |g: &mut VxLcg| -> u32 { 0x0a00_0000 | ((g.next(2) as u32) << 16) | ((g.next(2) as u32) << 8) | (g.next(8) as u32) | if g.next(8) == 0 { 0xc0 } else { 0 } };
        for step in 0..30usize {
            let a = addr(&mut g);
            let len = LENS[g.next(LENS.len())];
            let mask: u32 = if len == 0 { 0 } else { u32::MAX << (32 - len) };
            let id = a & mask;
            let net = Ipv4Net::new(Ipv4Address::from(a), Ipv4Mask::from_bitcount(len));
            match g.next(6) {
                0 | 1 => {
                    let v = (seed as u32) * 100 + step as u32;
                    let prev = t.add(net, v);
                    let old = model.iter().position(|e| e.0 == id && e.1 == len);
                    assert_eq!(prev, old.map(|k| model[k].2), "add returns the replaced value (seed {seed}, step {step})");
                    match old { Some(k) => model[k].2 = v, None => model.push((id, len, v)) }
                }
                2 => {
                    let v = (seed as u32) * 100 + step as u32;
                    t.add_direct(Ipv4Address::from(a), v);
                    match model.iter().position(|e| e.0 == a && e.1 == 32) { Some(k) => model[k].2 = v, None => model.push((a, 32, v)) }
                }
                3 => {
                    let prev = t.remove(net);
                    let old = model.iter().position(|e| e.0 == id && e.1 == len);
                    assert_eq!(prev, old.map(|k| model[k].2), "remove returns the removed value (seed {seed}, step {step})");
                    if let Some(k) = old { model.remove(k); }
                }
                4 => {
                    let prev = t.remove_direct(Ipv4Address::from(a));
                    let old = model.iter().position(|e| e.0 == a && e.1 == 32);
                    assert_eq!(prev, old.map(|k| model[k].2), "remove_direct returns the removed value (seed {seed}, step {step})");
                    if let Some(k) = old { model.remove(k); }
                }
                _ => {}
            }
            // every lookup in the neighbourhood agrees with the longest matching prefix of the model
            for _ in 0..6 {
                let q = addr(&mut g);
                let want = model.iter().filter(|e| (if e.1 == 0 { 0 } else { q & (u32::MAX << (32 - e.1)) }) == e.0).max_by_key(|e| e.1).map(|e| e.2);
                assert_eq!(t.get_recipient(Ipv4Address::from(q)), want, "lookup of {q:#x} (seed {seed}, step {step})");
            }
            assert_eq!(t.iter().count(), model.len(), "number of routes (seed {seed}, step {step})");
        }
    }
}

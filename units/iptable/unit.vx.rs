//@ unit iptable props=C09
//@ include vx/prelude.rs
//@ include vx/be_bytes.rs
//@ include vx/std_specs.rs
use std::collections::BTreeMap;
use vstd::std_specs::iter::IteratorSpec;
use vstd::std_specs::btree::*;
//@ import-unit subnet
verus! {
broadcast use group_btree_axioms;

pub assume_specification [core::cmp::Ordering::reverse] (o: Ordering) -> (r: Ordering)
    ensures r == (match o { Ordering::Less => Ordering::Greater, Ordering::Equal => Ordering::Equal, Ordering::Greater => Ordering::Less });


/// "order by mask": longer mask first, then by network id
pub open spec fn obm_cmp(a: Obm, b: Obm) -> Ordering {
    if a.0.mask.0 > b.0.mask.0 { Ordering::Less }
    else if a.0.mask.0 < b.0.mask.0 { Ordering::Greater }
    else if val(a.0.network_id) < val(b.0.network_id) { Ordering::Less }
    else if val(a.0.network_id) > val(b.0.network_id) { Ordering::Greater }
    else { Ordering::Equal }
}
pub open spec fn obm_lt(a: Obm, b: Obm) -> bool { obm_cmp(a, b) == Ordering::Less }

/// obm_cmp is a lawful total order whose `Equal` coincides with structural equality
pub proof fn lemma_obm_total_order(a: Obm, b: Obm, c: Obm)
    ensures
        obm_cmp(a, a) == Ordering::Equal,
        (obm_cmp(a, b) == Ordering::Equal) <==> (a == b),
        (obm_cmp(a, b) == Ordering::Less) <==> (obm_cmp(b, a) == Ordering::Greater),
        (obm_cmp(a, b) == Ordering::Less && obm_cmp(b, c) == Ordering::Less) ==> obm_cmp(a, c) == Ordering::Less,
{
    lemma_be32_inj(a.0.network_id.0, b.0.network_id.0);
}

/// ASSUMPTION (glue to vstd): `key_obeys_cmp_spec::<K>()` is vstd's opaque
/// licence to use a key type in BTreeMap specifications; vstd can only
/// establish it for primitive keys.  For Obm it is assumed here; what it
/// stands for is proved above: Obm::cmp is verified against obm_cmp
/// (OrdSpecImpl) and obm_cmp is a lawful total order consistent with `==`
/// (lemma_obm_total_order).
#[verifier::external_body]
pub proof fn axiom_obm_key_obeys_cmp_spec()
    ensures key_obeys_cmp_spec::<Obm>(),
{}

pub open spec fn net_contains(n: Ipv4Net, a: u32) -> bool { n.lo() <= a && a <= n.hi() }

/// `r` is the value attached to the most specific (longest-mask) network of
/// the table that contains `a`; None iff no network contains `a`.
pub open spec fn is_lpm<T>(m: Map<Obm, T>, a: u32, r: Option<T>) -> bool {
    match r {
        Some(v) => exists|k: Obm| #![trigger m.contains_key(k)]
            m.contains_key(k) && m[k] == v && net_contains(k.0, a)
            && forall|k2: Obm| #![trigger m.contains_key(k2)] m.contains_key(k2) && net_contains(k2.0, a) ==> k2.0.mask.0 <= k.0.mask.0,
        None => forall|k: Obm| #![trigger m.contains_key(k)] m.contains_key(k) ==> !net_contains(k.0, a),
    }
}

pub open spec fn keys_wf<T>(m: Map<Obm, T>) -> bool {
    forall|k: Obm| #![trigger m.contains_key(k)] m.contains_key(k) ==> k.0.wf()
}

/// two well-formed networks with the same mask that both contain `a` are the same network:
/// the longest-prefix answer is unique, hence independent of insertion order
pub proof fn lemma_lpm_unique(k1: Obm, k2: Obm, a: u32)
    requires k1.0.wf(), k2.0.wf(), k1.0.mask == k2.0.mask, net_contains(k1.0, a), net_contains(k2.0, a),
    ensures k1 == k2,
{
    lemma_contains_interval(k1.0.lo(), k1.0.mask.0, a);
    lemma_contains_interval(k2.0.lo(), k2.0.mask.0, a);
    lemma_be32_inj(k1.0.network_id.0, k2.0.network_id.0);
}

//@ item sim/elvis-core/src/ip_table.rs :: struct Obm strip-attrs
//@ rewrite `struct Obm\(Ipv4Net\);` => `#[derive(Clone, Copy, PartialEq, Eq)] pub struct Obm(pub Ipv4Net);` ## visibility only; derive(Debug) dropped
//@ end

impl PartialEqSpecImpl for Obm {
    open spec fn obeys_eq_spec() -> bool { true }
    open spec fn eq_spec(&self, other: &Self) -> bool { *self == *other }
}
impl PartialOrdSpecImpl for Obm {
    open spec fn obeys_partial_cmp_spec() -> bool { true }
    open spec fn partial_cmp_spec(&self, other: &Self) -> Option<Ordering> { Some(obm_cmp(*self, *other)) }
}
impl OrdSpecImpl for Obm {
    open spec fn obeys_cmp_spec() -> bool { true }
    open spec fn cmp_spec(&self, other: &Self) -> Ordering { obm_cmp(*self, *other) }
}

//@ item sim/elvis-core/src/ip_table.rs :: impl PartialOrd for Obm id=Obm.partial_cmp
//@ end
//@ item sim/elvis-core/src/ip_table.rs :: impl Ord for Obm id=Obm.cmp
//@ end

//@ item sim/elvis-core/src/ip_table.rs :: struct IpTable strip-attrs
//@ rewrite `(\n\s*)table: BTreeMap<Obm, T>,` => `\1pub table: BTreeMap<Obm, T>,` ## visibility only
//@ end

impl<T: Copy> IpTable<T> {
    pub open spec fn wf(&self) -> bool { keys_wf(self.table@) }

//@ item sim/elvis-core/src/ip_table.rs :: impl IpTable<T> / fn new id=IpTable.new
//@ rewrite `Default::default\(\)` => `BTreeMap::new()` ## Default for BTreeMap is BTreeMap::new() (std)
//@ contract
    ensures r.table@ == Map::<Obm, T>::empty(), r.wf(),
//@ end

//@ item sim/elvis-core/src/ip_table.rs :: impl IpTable<T> / fn get_recipient id=IpTable.get_recipient
//@ rewrite `for \(net, value\) in self\.iter\(\) \{` => `for (vx_k, vx_v) in vx_it: self.table.iter() { let (net, value) = (vx_k.0, *vx_v);` ## IpTable::iter() is `self.table.iter().map(|(net, value)| (net.0, *value))`; the one-line adapter is inlined (closures passed to Iterator::map are outside Verus)
//@ contract
    requires self.wf(),
    ensures is_lpm(self.table@, val(address), r),   //# longest_prefix_match [C09,C16]
//@ start
        proof { axiom_obm_key_obeys_cmp_spec(); }
//@ before 1 `if net.contains(address)`
            proof {
                axiom_obm_key_obeys_cmp_spec();
                let ghost ks = vx_it.seq().map_values(|p: (&Obm, &T)| *p.0);
                axiom_increasing_seq_meaning(ks);
                let ghost idx = vx_it.index() as int;
                assert(ks[idx] == *vx_k);
                assert forall|k2: Obm| #![trigger self.table@.contains_key(k2)] self.table@.contains_key(k2) && net_contains(k2.0, val(address)) && net.wf() && net_contains(net, val(address)) implies k2.0.mask.0 <= net.mask.0 by {
                    let j = choose|j: int| 0 <= j < vx_it.seq().len() && *(#[trigger] vx_it.seq()[j]).0 == k2;
                    assert(ks[j] == k2);
                    if j < idx { assert(!net_contains(vx_it.seq()[j].0.0, val(address))); }
                    if j > idx { assert(OrdSpec::cmp_spec(&ks[idx], &ks[j]) == Ordering::Less); }
                }
            }
//@ loop 1
            invariant
                self.wf(),
                vx_it.seq().len() == self.table@.len(),
                forall|i: int| 0 <= i < vx_it.seq().len() ==> self.table@.contains_key(*(#[trigger] vx_it.seq()[i]).0) && self.table@[*vx_it.seq()[i].0] == *vx_it.seq()[i].1,
                forall|k: Obm| self.table@.contains_key(k) ==> exists|i: int| 0 <= i < vx_it.seq().len() && *(#[trigger] vx_it.seq()[i]).0 == k,
                increasing_seq(vx_it.seq().map_values(|p: (&Obm, &T)| *p.0)),
                forall|i: int| 0 <= i < vx_it.index() ==> !net_contains((#[trigger] vx_it.seq()[i]).0.0, val(address)),
//@ end

//@ item sim/elvis-core/src/ip_table.rs :: impl IpTable<T> / fn remove id=IpTable.remove
//@ start
        proof { axiom_obm_key_obeys_cmp_spec(); }
//@ contract
    requires old(self).wf(),
    ensures
        final(self).wf(),
        final(self).table@ == old(self).table@.remove(Obm(key)),   //# removes_exactly_that_network [C09]
        r == (if old(self).table@.contains_key(Obm(key)) { Some(old(self).table@[Obm(key)]) } else { None::<T> }),
//@ end

//@ item sim/elvis-core/src/ip_table.rs :: impl IpTable<T> / fn remove_direct id=IpTable.remove_direct
//@ start
        proof {
            let v = val(address);
            assert(v & 0xffff_ffffu32 == v) by (bit_vector);
            assert(top_ones(32) == 0xffff_ffffu32);
            lemma_be32_inj_all();
        }
//@ contract
    requires old(self).wf(),
    ensures
        final(self).wf(),
        final(self).table@ == old(self).table@.remove(Obm(Ipv4Net { network_id: address, mask: Ipv4Mask(0xffff_ffffu32) })),   //# removes_the_host_route [C09]
//@ end

//@ item sim/elvis-core/src/ip_table.rs :: impl IpTable<T> / fn add id=IpTable.add
//@ start
        proof { axiom_obm_key_obeys_cmp_spec(); }
//@ contract
    requires old(self).wf(), key.wf(),
    ensures
        final(self).wf(),
        final(self).table@ == old(self).table@.insert(Obm(key), value),   //# add_twice_replaces [C09]
        r == (if old(self).table@.contains_key(Obm(key)) { Some(old(self).table@[Obm(key)]) } else { None::<T> }),
//@ end

//@ item sim/elvis-core/src/ip_table.rs :: impl IpTable<T> / fn add_direct id=IpTable.add_direct
//@ start
        proof {
            let v = val(address);
            assert(v & 0xffff_ffffu32 == v) by (bit_vector);
            assert(top_ones(32) == 0xffff_ffffu32);
            lemma_be32_inj_all();
        }
//@ contract
    requires old(self).wf(),
    ensures
        final(self).wf(),
        final(self).table@ == old(self).table@.insert(Obm(Ipv4Net { network_id: address, mask: Ipv4Mask(0xffff_ffffu32) }), value),   //# adds_the_host_route [C09]
//@ end
}

} // verus!

// Kani harnesses for tcp/tcb/modular_cmp.rs — injected (add-only) into a
// scratch copy of the crate as `mod vx_kani_modcmp` of modular_cmp.rs.
// All harnesses are loop-free over the full scalar domain => complete proofs.
use super::*;
#[path = "/verif/vx/kani_support.rs"]
mod sup;
use sup::*;

const M: u64 = 1 << 32;
const H: u64 = 1 << 31;

/// b - a modulo 2^32 computed in 64-bit arithmetic (independent of wrapping_*)
fn cdist(a: u32, b: u32) -> u64 {
    (b as u64 + M - a as u64) % M
}

//# id=mod_lt.exact fns=mod_lt+mod_gt props=C12 kind=complete pair=modcmp.mod_lt.exact
#[cfg_attr(kani, kani::proof)]
#[cfg_attr(vx_replay, test)]
fn h_mod_lt_exact() {
    let a: u32 = any();
    let b: u32 = any();
    let d = cdist(a, b);
    assert_eq!(mod_lt(a, b), 0 < d && d < H);
    assert_eq!(mod_gt(b, a), 0 < d && d < H);
}

//# id=mod_leq.agrees_with_circular_order fns=mod_leq props=C12 kind=complete pair=modcmp.mod_leq.agrees_with_circular_order,modcmp.mod_leq.consistent_with_strict
#[cfg_attr(kani, kani::proof)]
#[cfg_attr(vx_replay, test)]
fn h_mod_leq() {
    let a: u32 = any();
    let b: u32 = any();
    let d = cdist(a, b);
    vx_assume!(d < H);
    vx_cover!(d == H - 1);
    // pairs less than 2^31 apart: a <= b in the circular order
    assert!(mod_leq(a, b));
    // strict vs non-strict consistency
    assert_eq!(mod_leq(a, b), mod_lt(a, b) || a == b);
}

//# id=mod_geq.agrees_with_circular_order fns=mod_geq props=C12 kind=complete pair=modcmp.mod_geq.agrees_with_circular_order,modcmp.mod_geq.consistent_with_strict
#[cfg_attr(kani, kani::proof)]
#[cfg_attr(vx_replay, test)]
fn h_mod_geq() {
    let a: u32 = any();
    let b: u32 = any();
    let d = cdist(b, a);
    vx_assume!(d < H);
    vx_cover!(d == H - 1);
    assert!(mod_geq(a, b));
    assert_eq!(mod_geq(a, b), mod_gt(a, b) || a == b);
}

//# id=mod_bounded.agrees_with_circular_order fns=mod_bounded props=C12 kind=complete pair=modcmp.mod_bounded.exact,modcmp.mod_bounded.agrees_with_circular_order
#[cfg_attr(kani, kani::proof)]
#[cfg_attr(vx_replay, test)]
fn h_mod_bounded() {
    let a: u32 = any();
    let b: u32 = any();
    let c: u32 = any();
    let ab = if any::<bool>() { Lt } else { Leq };
    let bc = if any::<bool>() { Lt } else { Leq };
    vx_assume!(cdist(a, c) < H);
    let lo_ok = if ab == Lt { 0 < cdist(a, b) } else { true };
    let hi_ok = if bc == Lt { cdist(a, b) < cdist(a, c) } else { cdist(a, b) <= cdist(a, c) };
    assert_eq!(mod_bounded(a, ab, b, bc, c), lo_ok && hi_ok);
}

//# id=translation_invariance fns=mod_lt+mod_leq+mod_gt+mod_geq+mod_bounded props=C12 kind=complete pair=modcmp.lemma.lemma_circ_shift,modcmp.lemma.lemma_arc_shift
#[cfg_attr(kani, kani::proof)]
#[cfg_attr(vx_replay, test)]
fn h_shift_invariance() {
    let a: u32 = any();
    let b: u32 = any();
    let c: u32 = any();
    let k: u32 = any();
    let ab = if any::<bool>() { Lt } else { Leq };
    let bc = if any::<bool>() { Lt } else { Leq };
    let (a2, b2, c2) = (a.wrapping_add(k), b.wrapping_add(k), c.wrapping_add(k));
    assert_eq!(mod_lt(a, b), mod_lt(a2, b2));
    assert_eq!(mod_leq(a, b), mod_leq(a2, b2));
    assert_eq!(mod_gt(a, b), mod_gt(a2, b2));
    assert_eq!(mod_geq(a, b), mod_geq(a2, b2));
    assert_eq!(mod_bounded(a, ab, b, bc, c), mod_bounded(a2, ab, b2, bc, c2));
}

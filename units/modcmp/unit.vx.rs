//@ unit modcmp props=C12
//@ include vx/prelude.rs
verus! {

// ---------------------------------------------------------------------------
// Mathematical circular order on sequence numbers (RFC 9293 3.4): all
// arithmetic modulo 2^32.  cdist(a, b) is how far one has to walk forward from
// a to reach b.
// ---------------------------------------------------------------------------
pub open spec fn cdist(a: u32, b: u32) -> int {
    (b as int - a as int) % 0x1_0000_0000
}

/// a strictly precedes b: 0 < b - a < 2^31 (mod 2^32)
pub open spec fn circ_lt(a: u32, b: u32) -> bool {
    0 < cdist(a, b) && cdist(a, b) < 0x8000_0000
}

/// a precedes or equals b: 0 <= b - a < 2^31 (mod 2^32)
pub open spec fn circ_leq(a: u32, b: u32) -> bool {
    cdist(a, b) < 0x8000_0000
}

/// walking forward from a one meets b strictly before c
pub open spec fn arc_open(a: u32, b: u32, c: u32) -> bool {
    0 < cdist(a, b) && cdist(a, b) < cdist(a, c)
}

pub open spec fn off(c: ModCmp) -> u32 {
    match c { ModCmp::Lt => 0u32, ModCmp::Leq => 1u32 }
}

/// b lies on the arc from a to c, each end open (Lt) or closed (Leq)
pub open spec fn on_arc(a: u32, ab: ModCmp, b: u32, bc: ModCmp, c: u32) -> bool {
    (if ab == ModCmp::Lt { 0 < cdist(a, b) } else { true })
    && (if bc == ModCmp::Lt { cdist(a, b) < cdist(a, c) } else { cdist(a, b) <= cdist(a, c) })
}

pub open spec fn add32(a: u32, k: u32) -> u32 {
    ((a as int + k as int) % 0x1_0000_0000) as u32
}

//@ item sim/elvis-core/src/protocols/tcp/tcb/modular_cmp.rs :: use ModCmp
//@ end

//@ item sim/elvis-core/src/protocols/tcp/tcb/modular_cmp.rs :: fn mod_lt
//@ contract
    ensures
        r == circ_lt(a, b),   //# exact [C12]
//@ start
    assert((1u32 << 31) == 0x8000_0000u32) by (bit_vector);
//@ end

//@ item sim/elvis-core/src/protocols/tcp/tcb/modular_cmp.rs :: fn mod_leq
//@ contract
    ensures
        cdist(a, b) < 0x8000_0000 ==> r == circ_leq(a, b),   //# agrees_with_circular_order [C12]
        r == (circ_lt(a, b) || a == b),                        //# consistent_with_strict [C12]
//@ end

//@ item sim/elvis-core/src/protocols/tcp/tcb/modular_cmp.rs :: fn mod_gt
//@ contract
    ensures
        r == circ_lt(b, a),   //# exact [C12]
//@ end

//@ item sim/elvis-core/src/protocols/tcp/tcb/modular_cmp.rs :: fn mod_geq
//@ contract
    ensures
        cdist(b, a) < 0x8000_0000 ==> r == circ_leq(b, a),   //# agrees_with_circular_order [C12]
        r == (circ_lt(b, a) || a == b),                        //# consistent_with_strict [C12]
//@ end

//@ item sim/elvis-core/src/protocols/tcp/tcb/modular_cmp.rs :: fn mod_bounded
//@ contract
    ensures
        r == arc_open(a.wrapping_sub(off(ab_cmp)), b, c.wrapping_add(off(bc_cmp))),   //# exact [C12]
        cdist(a, c) < 0x8000_0000 ==> r == on_arc(a, ab_cmp, b, bc_cmp, c),          //# agrees_with_circular_order [C12]
//@ end

//@ item sim/elvis-core/src/protocols/tcp/tcb/modular_cmp.rs :: enum ModCmp
//@ end

impl ModCmp {
//@ item sim/elvis-core/src/protocols/tcp/tcb/modular_cmp.rs :: impl ModCmp / fn offset id=ModCmp.offset
//@ contract
    ensures
        r == off(self),   //# exact [C12]
//@ end
}

// ---------------------------------------------------------------------------
// Translation invariance: shifting every argument by the same k (mod 2^32)
// never changes a comparison.  These are lemmas over the contracts above.
// ---------------------------------------------------------------------------
pub proof fn lemma_cdist_shift(a: u32, b: u32, k: u32)   //# [C12]
    ensures cdist(add32(a, k), add32(b, k)) == cdist(a, b),
{
}

pub proof fn lemma_circ_shift(a: u32, b: u32, k: u32)   //# [C12]
    ensures
        circ_lt(add32(a, k), add32(b, k)) == circ_lt(a, b),
        circ_leq(add32(a, k), add32(b, k)) == circ_leq(a, b),
{
    lemma_cdist_shift(a, b, k);
}

pub proof fn lemma_arc_shift(a: u32, ab: ModCmp, b: u32, bc: ModCmp, c: u32, k: u32)   //# [C12]
    ensures
        on_arc(add32(a, k), ab, add32(b, k), bc, add32(c, k)) == on_arc(a, ab, b, bc, c),
        arc_open(add32(a, k), add32(b, k), add32(c, k)) == arc_open(a, b, c),
{
    lemma_cdist_shift(a, b, k);
    lemma_cdist_shift(a, c, k);
}

/// the order is a strict order on every half-circle: irreflexive, asymmetric,
/// and total for distinct numbers not exactly 2^31 apart
pub proof fn lemma_circ_order(a: u32, b: u32)   //# [C12]
    ensures
        !circ_lt(a, a),
        !(circ_lt(a, b) && circ_lt(b, a)),
        (a != b && cdist(a, b) != 0x8000_0000) ==> (circ_lt(a, b) || circ_lt(b, a)),
        circ_leq(a, b) == (circ_lt(a, b) || a == b),
{
}

} // verus!

// Kani harnesses for arp/subnetting.rs + ipv4/ipv4_address.rs — injected
// (add-only) as `mod vx_kani_subnet` of subnetting.rs.  All loop-free over
// the full scalar domain => complete proofs.  The h_assume_* harnesses validate
// the ASSUMED specifications used by the Verus unit against the real core.
use super::*;
#[path = "/verif/vx/kani_support.rs"]
mod sup;
use sup::*;

fn be32(b: [u8; 4]) -> u32 {
    ((b[0] as u32) << 24) | ((b[1] as u32) << 16) | ((b[2] as u32) << 8) | (b[3] as u32)
}
fn top_ones(n: u32) -> u32 {
    if n == 0 { 0 } else if n >= 32 { 0xffff_ffff } else { ((1u32 << n) - 1) << (32 - n) }
}
fn mask_ok(m: u32) -> bool {
    (!m) & ((!m).wrapping_add(1)) == 0
}
fn any_net() -> Ipv4Net {
    let ip: u32 = any();
    let n: u32 = any();
    Ipv4Net::new(Ipv4Address::from(ip), Ipv4Mask::from_bitcount(n))
}

//# id=assume.be_bytes props=C09,C15 kind=complete pair=
#[cfg_attr(kani, kani::proof)]
#[cfg_attr(vx_replay, test)]
fn h_assume_be_bytes() {
    let x: u32 = any();
    let b = x.to_be_bytes();
    assert!(b[0] == (x >> 24) as u8 && b[1] == ((x >> 16) & 0xff) as u8 && b[2] == ((x >> 8) & 0xff) as u8 && b[3] == (x & 0xff) as u8);
    assert!(be32(b) == x);
    let c: [u8; 4] = any();
    assert!(u32::from_be_bytes(c) == be32(c));
    let y: u16 = any();
    let d = y.to_be_bytes();
    assert!(d[0] == (y >> 8) as u8 && d[1] == (y & 0xff) as u8);
    let e: [u8; 2] = any();
    assert!(u16::from_be_bytes(e) == ((e[0] as u16) << 8) | (e[1] as u16));
}

//# id=assume.count_ones props=C09,C15 kind=complete pair=
#[cfg_attr(kani, kani::proof)]
#[cfg_attr(vx_replay, test)]
fn h_assume_count_ones() {
    let x: u32 = any();
    let r = x.count_ones();
    assert!(r <= 32);
    if mask_ok(x) {
        assert!(top_ones(r) == x);
    }
    let n: u32 = any();
    assert!(mask_ok(top_ones(n)));
}

//# id=assume.derive_order props=C09,C15 kind=complete pair=
#[cfg_attr(kani, kani::proof)]
#[cfg_attr(vx_replay, test)]
fn h_assume_derive_order() {
    let a: [u8; 4] = any();
    let b: [u8; 4] = any();
    let (x, y) = (Ipv4Address::new(a), Ipv4Address::new(b));
    assert_eq!(x == y, be32(a) == be32(b));
    assert_eq!(x < y, be32(a) < be32(b));
    assert_eq!(x <= y, be32(a) <= be32(b));
    assert_eq!(x >= y, be32(a) >= be32(b));
    assert_eq!(x.cmp(&y), be32(a).cmp(&be32(b)));
    let (m, n): (u32, u32) = (any(), any());
    assert_eq!(Ipv4Mask(m) == Ipv4Mask(n), m == n);
    assert_eq!(Ipv4Mask(m).cmp(&Ipv4Mask(n)), m.cmp(&n));
    // RangeInclusive: is_empty and == on fresh ranges
    let (c, d): ([u8; 4], [u8; 4]) = (any(), any());
    let (z, w) = (Ipv4Address::new(c), Ipv4Address::new(d));
    assert_eq!((x..=y).is_empty(), !(be32(a) <= be32(b)));
    assert_eq!((x..=y) == (z..=w), a == c && b == d);
}

//# id=mask.from_bitcount fns=Ipv4Mask::from_bitcount+count_ones+try_from+ips_in_net+usable_ips props=C09 kind=complete pair=subnet.Ipv4Mask.from_bitcount.top_n_ones,subnet.Ipv4Mask.from_bitcount.contiguous,subnet.Ipv4Mask.count_ones.inverse_of_from_bitcount,subnet.Ipv4Mask.try_from_u32.safety
#[cfg_attr(kani, kani::proof)]
#[cfg_attr(vx_replay, test)]
fn h_mask() {
    let n: u32 = any();
    let m = Ipv4Mask::from_bitcount(n);
    assert_eq!(m.to_u32(), top_ones(n));
    assert_eq!(m.count_ones(), if n > 32 { 32 } else { n });
    let x: u32 = any();
    match Ipv4Mask::try_from(x) {
        Ok(k) => assert!(mask_ok(x) && k.to_u32() == x),
        Err(e) => assert!(!mask_ok(x) && e == x),
    }
    assert_eq!(m.ips_in_net(), (!m.to_u32()) as u64 + 1);
    let w = !m.to_u32();
    assert_eq!(m.usable_ips(), if w <= 1 { 0 } else { w - 1 });
}

//# id=net.contains_overlaps fns=Ipv4Net::new+id+broadcast+contains+overlaps+range+new_1+from((Ipv4Address,Ipv4Mask))+mask props=C09 kind=complete pair=subnet.Ipv4Net.new.establishes_invariant,subnet.Ipv4Net.new.id_is_masked_ip,subnet.Ipv4Net.new.contains_its_seed,subnet.Ipv4Net.broadcast.last_address,subnet.Ipv4Net.broadcast.safety,subnet.Ipv4Net.contains.exactly_id_to_broadcast,subnet.Ipv4Net.overlaps.iff_ranges_intersect,subnet.Ipv4Net.range.id_to_broadcast,subnet.Ipv4Net.new_1.single_address
#[cfg_attr(kani, kani::proof)]
#[cfg_attr(vx_replay, test)]
fn h_net() {
    let ip: u32 = any();
    let n: u32 = any();
    let mask = Ipv4Mask::from_bitcount(n);
    let net = Ipv4Net::new(Ipv4Address::from(ip), mask);
    let lo = net.id().to_u32();
    let hi = net.broadcast().to_u32();
    assert_eq!(lo, ip & mask.to_u32());
    assert_eq!(hi, lo | !mask.to_u32());
    assert!(lo <= ip && ip <= hi);
    let a: u32 = any();
    assert_eq!(net.contains(Ipv4Address::from(a)), lo <= a && a <= hi);
    let other = any_net();
    let (lo2, hi2) = (other.id().to_u32(), other.broadcast().to_u32());
    assert_eq!(net.overlaps(other), lo <= hi2 && lo2 <= hi);
    let r = net.range();
    assert!(r.start().to_u32() == lo && r.end().to_u32() == hi);
    let one = Ipv4Net::new_1(Ipv4Address::from(ip));
    assert!(one.id().to_u32() == ip && one.broadcast().to_u32() == ip);
    // the tuple conversion used by the CIDR parser builds the same network
    assert!(Ipv4Net::from((Ipv4Address::from(ip), mask)) == net);
    assert!(net.mask() == mask);
}

//# id=net.try_from_range fns=Ipv4Net::try_from(RangeInclusive) props=C09 kind=complete pair=subnet.Ipv4Net.try_from_range.iff_aligned_power_of_two_block,subnet.Ipv4Net.try_from_range.returns_that_network,subnet.Ipv4Net.try_from_range.safety
#[cfg_attr(kani, kani::proof)]
#[cfg_attr(vx_replay, test)]
fn h_try_from_range() {
    let s: u32 = any();
    let e: u32 = any();
    let r = Ipv4Net::try_from(Ipv4Address::from(s)..=Ipv4Address::from(e));
    // aligned power-of-two block, computed in 64-bit arithmetic
    let block = s <= e && {
        let size = e as u64 - s as u64 + 1;
        size & (size - 1) == 0 && (s as u64) % size == 0
    };
    match r {
        Ok(n) => assert!(block && n.id().to_u32() == s && n.broadcast().to_u32() == e),
        Err(_) => assert!(!block),
    }
}

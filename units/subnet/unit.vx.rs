//@ unit subnet props=C09
//@ include vx/prelude.rs
//@ include vx/be_bytes.rs
//@ include vx/std_specs.rs
use vstd::std_specs::cmp::*;
use vstd::std_specs::convert::*;
use core::cmp::Ordering;
use core::ops::RangeInclusive;
verus! {

// ---------------------------------------------------------------------------
// Specification vocabulary
// ---------------------------------------------------------------------------

/// numeric value of an address
pub open spec fn val(a: Ipv4Address) -> u32 { be32(a.0) }

/// `n` one bits at the top of a 32-bit word (n clamped to 32)
pub open spec fn top_ones(n: u32) -> u32 {
    if n == 0 { 0 } else if n >= 32 { 0xffff_ffffu32 } else { (((1u32 << n) - 1) as u32) << ((32 - n) as u32) }
}

/// a mask is contiguous: its complement is 2^k - 1
pub open spec fn mask_ok(m: u32) -> bool { (!m) & ((!m).wrapping_add(1)) == 0 }

pub uninterp spec fn popcount(x: u32) -> u32;

// ----- assumed specifications of core (validated against real core by Kani
// ----- harnesses h_assume_* in units/subnet/kani.rs, loop-free, full domain)
pub assume_specification [u32::count_ones] (x: u32) -> (r: u32)
    ensures r <= 32, r == popcount(x),
        mask_ok(x) ==> top_ones(r) == x;

// derive(PartialEq, Eq, PartialOrd, Ord) on the newtypes: structural equality
// and numeric order of the big-endian value (validated by Kani h_assume_derive_order)
impl PartialEqSpecImpl for Ipv4Address {
    open spec fn obeys_eq_spec() -> bool { true }
    open spec fn eq_spec(&self, other: &Self) -> bool { val(*self) == val(*other) }
}
impl PartialOrdSpecImpl for Ipv4Address {
    open spec fn obeys_partial_cmp_spec() -> bool { true }
    open spec fn partial_cmp_spec(&self, other: &Self) -> Option<Ordering> {
        if val(*self) < val(*other) { Some(Ordering::Less) } else if val(*self) == val(*other) { Some(Ordering::Equal) } else { Some(Ordering::Greater) }
    }
}
impl OrdSpecImpl for Ipv4Address {
    open spec fn obeys_cmp_spec() -> bool { true }
    open spec fn cmp_spec(&self, other: &Self) -> Ordering {
        if val(*self) < val(*other) { Ordering::Less } else if val(*self) == val(*other) { Ordering::Equal } else { Ordering::Greater }
    }
}
impl PartialEqSpecImpl for Ipv4Mask {
    open spec fn obeys_eq_spec() -> bool { true }
    open spec fn eq_spec(&self, other: &Self) -> bool { self.0 == other.0 }
}
impl PartialOrdSpecImpl for Ipv4Mask {
    open spec fn obeys_partial_cmp_spec() -> bool { true }
    open spec fn partial_cmp_spec(&self, other: &Self) -> Option<Ordering> {
        if self.0 < other.0 { Some(Ordering::Less) } else if self.0 == other.0 { Some(Ordering::Equal) } else { Some(Ordering::Greater) }
    }
}
impl OrdSpecImpl for Ipv4Mask {
    open spec fn obeys_cmp_spec() -> bool { true }
    open spec fn cmp_spec(&self, other: &Self) -> Ordering {
        if self.0 < other.0 { Ordering::Less } else if self.0 == other.0 { Ordering::Equal } else { Ordering::Greater }
    }
}

// ----- bit-vector lemmas -----

pub proof fn lemma_top_ones_ok(n: u32)
    ensures mask_ok(top_ones(n)),
{
    assert(mask_ok(top_ones(n))) by (bit_vector);
}

/// membership by mask == membership in the closed interval [id, id | !m]
pub proof fn lemma_contains_interval(id: u32, m: u32, a: u32)
    requires mask_ok(m), id & !m == 0,
    ensures
        (a & m == id) <==> (id <= a && a <= (id | !m)),
        (id as int) + ((!m) as int) <= 0xffff_ffff,
        ((id + !m) as u32) == (id | !m),
{
    assert(((!m) & ((!m).wrapping_add(1)) == 0 && id & !m == 0) ==> ((a & m == id) <==> (id <= a && a <= (id | !m)))) by (bit_vector);
    assert(id & !m == 0 ==> id.wrapping_add(!m) == (id | !m) && (id | !m) >= id) by (bit_vector);
    assert(id & !m == 0 ==> (id as int) + ((!m) as int) == (id | !m) as int) by {
        assert(id & !m == 0 ==> id.wrapping_add(!m) == (id | !m) && id.wrapping_add(!m) >= id) by (bit_vector);
    }
}

// ---------------------------------------------------------------------------
// ipv4_address.rs
// ---------------------------------------------------------------------------
//@ item sim/elvis-core/src/protocols/ipv4/ipv4_address.rs :: struct Ipv4Address
//@ rewrite `pub struct Ipv4Address\(\[u8; 4\]\);` => `pub struct Ipv4Address(pub [u8; 4]);` ## visibility only: lets public contracts mention the field
//@ end

impl Ipv4Address {
//@ item sim/elvis-core/src/protocols/ipv4/ipv4_address.rs :: impl Ipv4Address / fn new id=Ipv4Address.new
//@ contract
    ensures r.0 == address,
//@ end
//@ item sim/elvis-core/src/protocols/ipv4/ipv4_address.rs :: impl Ipv4Address / fn to_u32 id=Ipv4Address.to_u32
//@ contract
    ensures r == val(self),   //# numeric_value [C09]
//@ end
//@ item sim/elvis-core/src/protocols/ipv4/ipv4_address.rs :: impl Ipv4Address / fn to_bytes id=Ipv4Address.to_bytes
//@ contract
    ensures r == self.0,
//@ end
}

impl FromSpecImpl<u32> for Ipv4Address {
    open spec fn obeys_from_spec() -> bool { true }
    open spec fn from_spec(n: u32) -> Self { Ipv4Address(spec_to_be(n)) }
}
impl FromSpecImpl<[u8; 4]> for Ipv4Address {
    open spec fn obeys_from_spec() -> bool { true }
    open spec fn from_spec(n: [u8; 4]) -> Self { Ipv4Address(n) }
}
impl FromSpecImpl<Ipv4Address> for u32 {
    open spec fn obeys_from_spec() -> bool { true }
    open spec fn from_spec(a: Ipv4Address) -> Self { val(a) }
}
impl FromSpecImpl<Ipv4Address> for [u8; 4] {
    open spec fn obeys_from_spec() -> bool { true }
    open spec fn from_spec(a: Ipv4Address) -> Self { a.0 }
}

//@ item sim/elvis-core/src/protocols/ipv4/ipv4_address.rs :: impl From<u32> for Ipv4Address id=Ipv4Address.from_u32
//@ rewrite `n\.to_be_bytes\(\)` => `vx_u32_to_be(n)` ## core::to_be_bytes routed through the contract-carrying wrapper (vx/be_bytes.rs)
//@ end
//@ item sim/elvis-core/src/protocols/ipv4/ipv4_address.rs :: impl From<[u8; 4]> for Ipv4Address id=Ipv4Address.from_bytes
//@ end
//@ item sim/elvis-core/src/protocols/ipv4/ipv4_address.rs :: impl From<Ipv4Address> for u32 id=u32.from_Ipv4Address
//@ rewrite `u32::from_be_bytes\(` => `vx_u32_from_be(` ## core::from_be_bytes routed through the contract-carrying wrapper (vx/be_bytes.rs)
//@ end
//@ item sim/elvis-core/src/protocols/ipv4/ipv4_address.rs :: impl From<Ipv4Address> for [u8; 4] id=bytes.from_Ipv4Address
//@ end


// ---------------------------------------------------------------------------
// arp/subnetting.rs
// ---------------------------------------------------------------------------
//@ item sim/elvis-core/src/protocols/arp/subnetting.rs :: struct Ipv4Mask
//@ rewrite `pub struct Ipv4Mask\(u32\);` => `pub struct Ipv4Mask(pub u32);` ## visibility only
//@ end

//@ item sim/elvis-core/src/protocols/arp/subnetting.rs :: fn clamp
//@ contract
    requires min <= max,
    ensures r == (if num < min { min } else if num > max { max } else { num }),
//@ end

impl Ipv4Mask {
    /// type invariant of Ipv4Mask (private field, only built by from_bitcount / try_from)
    pub open spec fn wf(&self) -> bool { mask_ok(self.0) }

//@ item sim/elvis-core/src/protocols/arp/subnetting.rs :: impl Ipv4Mask / fn from_bitcount id=Ipv4Mask.from_bitcount
//@ contract
    ensures
        r.0 == top_ones(size),   //# top_n_ones [C09]
        r.wf(),                  //# contiguous [C09]
//@ start
        proof {
            assert(mask_ok(top_ones(size))) by { lemma_top_ones_ok(size); }
            assert(0 < size < 32 ==> (1u32 << size) >= 1 && (32 - size) as u32 <= 31) by (bit_vector);
        }
//@ end
//@ item sim/elvis-core/src/protocols/arp/subnetting.rs :: impl Ipv4Mask / fn count_ones id=Ipv4Mask.count_ones
//@ contract
    ensures
        r <= 32,
        self.wf() ==> top_ones(r) == self.0,   //# inverse_of_from_bitcount [C09]
//@ end
//@ item sim/elvis-core/src/protocols/arp/subnetting.rs :: impl Ipv4Mask / fn to_u32 id=Ipv4Mask.to_u32
//@ contract
    ensures r == self.0,
//@ end
//@ item sim/elvis-core/src/protocols/arp/subnetting.rs :: impl Ipv4Mask / fn to_ipv4_address id=Ipv4Mask.to_ipv4_address
//@ rewrite `self\.to_u32\(\)\.to_be_bytes\(\)` => `vx_u32_to_be(self.to_u32())` ## core::to_be_bytes routed through the contract-carrying wrapper
//@ contract
    ensures val(r) == self.0,
//@ end
//@ item sim/elvis-core/src/protocols/arp/subnetting.rs :: impl Ipv4Mask / fn ips_in_net id=Ipv4Mask.ips_in_net
//@ contract
    ensures r == (!self.0) as u64 + 1,   //# size_of_block [C09]
//@ end
//@ item sim/elvis-core/src/protocols/arp/subnetting.rs :: impl Ipv4Mask / fn usable_ips id=Ipv4Mask.usable_ips
//@ contract
    ensures r == (if (!self.0) <= 1 { 0u32 } else { ((!self.0) - 1) as u32 }),   //# hosts_without_ends [C09]
//@ end
}

impl FromSpecImpl<Ipv4Mask> for u32 {
    open spec fn obeys_from_spec() -> bool { true }
    open spec fn from_spec(m: Ipv4Mask) -> Self { m.0 }
}
impl FromSpecImpl<Ipv4Mask> for Ipv4Address {
    open spec fn obeys_from_spec() -> bool { true }
    open spec fn from_spec(m: Ipv4Mask) -> Self { Ipv4Address(spec_to_be(m.0)) }
}
//@ item sim/elvis-core/src/protocols/arp/subnetting.rs :: impl From<Ipv4Mask> for u32 id=u32.from_Ipv4Mask
//@ end
//@ item sim/elvis-core/src/protocols/arp/subnetting.rs :: impl From<Ipv4Mask> for Ipv4Address id=Ipv4Address.from_Ipv4Mask
//@ end

impl TryFromSpecImpl<u32> for Ipv4Mask {
    open spec fn obeys_try_from_spec() -> bool { true }
    open spec fn try_from_spec(mask: u32) -> Result<Self, u32> {
        if mask_ok(mask) { Ok(Ipv4Mask(mask)) } else { Err(mask) }   // accepts exactly the contiguous masks
    }
}
//@ item sim/elvis-core/src/protocols/arp/subnetting.rs :: impl TryFrom<u32> for Ipv4Mask id=Ipv4Mask.try_from_u32 props=C09
//@ end


impl TryFromSpecImpl<Ipv4Address> for Ipv4Mask {
    open spec fn obeys_try_from_spec() -> bool { true }
    open spec fn try_from_spec(mask: Ipv4Address) -> Result<Self, Ipv4Address> {
        if mask_ok(val(mask)) { Ok(Ipv4Mask(val(mask))) } else { Err(mask) }
    }
}
//@ item sim/elvis-core/src/protocols/arp/subnetting.rs :: impl TryFrom<Ipv4Address> for Ipv4Mask id=Ipv4Mask.try_from_Ipv4Address props=C09
//@ end

//@ item sim/elvis-core/src/protocols/arp/subnetting.rs :: struct Ipv4Net
//@ rewrite `(\n\s*)network_id: Ipv4Address,` => `\1pub network_id: Ipv4Address,` ## visibility only
//@ rewrite `(\n\s*)mask: Ipv4Mask,` => `\1pub mask: Ipv4Mask,` ## visibility only
//@ end

impl Ipv4Net {
    /// representation invariant: the id has no host bits and the mask is contiguous
    pub open spec fn wf(&self) -> bool { self.mask.wf() && val(self.network_id) & !self.mask.0 == 0 }
    /// first and last address of the network
    pub open spec fn lo(&self) -> u32 { val(self.network_id) }
    pub open spec fn hi(&self) -> u32 { val(self.network_id) | !self.mask.0 }

//@ item sim/elvis-core/src/protocols/arp/subnetting.rs :: impl Ipv4Net / fn new id=Ipv4Net.new
//@ contract
    requires mask.wf(),
    ensures
        r.wf(),                                   //# establishes_invariant [C09]
        r.lo() == val(ip) & mask.0, r.mask == mask,   //# id_is_masked_ip [C09]
        r.lo() <= val(ip) <= r.hi(),              //# contains_its_seed [C09]
//@ start
        proof {
            let (i, m) = (val(ip), mask.0);
            assert((i & m) & !m == 0) by (bit_vector);
            assert((i & m) <= i && i <= ((i & m) | !m)) by (bit_vector);
            lemma_to_be_roundtrip(i & m);
        }
//@ end
//@ item sim/elvis-core/src/protocols/arp/subnetting.rs :: impl Ipv4Net / fn new_short id=Ipv4Net.new_short
//@ contract
    ensures r.wf(),
//@ end
//@ item sim/elvis-core/src/protocols/arp/subnetting.rs :: impl Ipv4Net / fn new_1 id=Ipv4Net.new_1
//@ contract
    ensures
        r.wf(), r.lo() == val(ip), r.hi() == val(ip),   //# single_address [C09]
//@ start
        proof { let i = val(ip); assert(i & !0xffff_ffffu32 == 0 && (i | !0xffff_ffffu32) == i) by (bit_vector); }
//@ end
//@ item sim/elvis-core/src/protocols/arp/subnetting.rs :: impl Ipv4Net / fn id id=Ipv4Net.id
//@ contract
    ensures r == self.network_id, val(r) == self.lo(),
//@ end
//@ item sim/elvis-core/src/protocols/arp/subnetting.rs :: impl Ipv4Net / fn broadcast id=Ipv4Net.broadcast
//@ rewrite `new_ip_u32\.to_be_bytes\(\)` => `vx_u32_to_be(new_ip_u32)` ## core::to_be_bytes routed through the contract-carrying wrapper
//@ contract
    requires self.wf(),
    ensures val(r) == self.hi(),   //# last_address [C09]
//@ start
        proof { lemma_contains_interval(self.lo(), self.mask.0, self.lo()); }
//@ end
//@ item sim/elvis-core/src/protocols/arp/subnetting.rs :: impl Ipv4Net / fn mask id=Ipv4Net.mask
//@ contract
    ensures r == self.mask,
//@ end
//@ item sim/elvis-core/src/protocols/arp/subnetting.rs :: impl Ipv4Net / fn range id=Ipv4Net.range
//@ contract
    requires self.wf(),
    ensures val(r@.start) == self.lo(), val(r@.end) == self.hi(), !r@.exhausted,   //# id_to_broadcast [C09]
//@ end
//@ item sim/elvis-core/src/protocols/arp/subnetting.rs :: impl Ipv4Net / fn contains id=Ipv4Net.contains
//@ contract
    requires self.wf(),
    ensures r == (self.lo() <= val(address) && val(address) <= self.hi()),   //# exactly_id_to_broadcast [C09]
//@ start
        proof { lemma_contains_interval(self.lo(), self.mask.0, val(address)); }
//@ end
//@ item sim/elvis-core/src/protocols/arp/subnetting.rs :: impl Ipv4Net / fn overlaps id=Ipv4Net.overlaps
//@ contract
    requires self.wf(), other.wf(),
    ensures r == (self.lo() <= other.hi() && other.lo() <= self.hi()),   //# iff_ranges_intersect [C09]
//@ end
}


// `impl From<(Ipv4Address, Ipv4Mask)> for Ipv4Net` (one line: Self::new(value.0, value.1)) is NOT under contract:
// a trait impl cannot carry the precondition mask.wf() that `new` needs.
impl FromSpecImpl<Ipv4Net> for (Ipv4Address, Ipv4Mask) {
    open spec fn obeys_from_spec() -> bool { true }
    open spec fn from_spec(v: Ipv4Net) -> Self { (v.network_id, v.mask) }
}
//@ item sim/elvis-core/src/protocols/arp/subnetting.rs :: impl From<Ipv4Net> for (Ipv4Address, Ipv4Mask) id=tuple.from_Ipv4Net
//@ end

//@ item sim/elvis-core/src/protocols/arp/subnetting.rs :: enum TryFromRangeError strip-attrs
//@ end

/// `==` on RangeInclusive<Ipv4Address> (derive(PartialEq) in core compares
/// start, end and the exhausted flag); reached through a declared rewrite
/// because the orphan rule forbids a PartialEqSpecImpl for a core type.
#[verifier::external_body]
pub fn vx_addr_range_eq(a: &RangeInclusive<Ipv4Address>, b: &RangeInclusive<Ipv4Address>) -> (r: bool)
    ensures r == (a@.start == b@.start && a@.end == b@.end && a@.exhausted == b@.exhausted),
{ a == b }

/// [s, e] is an aligned power-of-two block: its size e-s+1 is 2^k and s is a multiple of it
pub open spec fn block_ok(s: u32, e: u32) -> bool {
    s <= e && ((e - s) as u32) & ((e - s) as u32).wrapping_add(1) == 0 && s & ((e - s) as u32) == 0
}

pub proof fn lemma_block(s: u32, e: u32)
    requires s <= e,
    ensures
        block_ok(s, e) <==> (mask_ok(!((e - s) as u32)) && (s & !((e - s) as u32)) == s && ((s & !((e - s) as u32)) | !!((e - s) as u32)) == e),
{
    let d = (e - s) as u32;
    assert(s <= e && d == e - s ==> (
        ((d & d.wrapping_add(1)) == 0 && s & d == 0)
        <==> (((!!d) & ((!!d).wrapping_add(1))) == 0 && (s & !d) == s && ((s & !d) | !!d) == e))) by (bit_vector);
}

impl TryFromSpecImpl<RangeInclusive<Ipv4Address>> for Ipv4Net {
    // the contract is the `ensures` on try_from below, not a spec function
    open spec fn obeys_try_from_spec() -> bool { false }
    open spec fn try_from_spec(v: RangeInclusive<Ipv4Address>) -> Result<Self, TryFromRangeError> { arbitrary() }
}
impl TryFrom<RangeInclusive<Ipv4Address>> for Ipv4Net {
    type Error = TryFromRangeError;
//@ item sim/elvis-core/src/protocols/arp/subnetting.rs :: impl TryFrom<RangeInclusive<Ipv4Address>> for Ipv4Net / fn try_from id=Ipv4Net.try_from_range
//@ rewrite `result\.range\(\) == value` => `vx_addr_range_eq(&result.range(), &value)` ## `==` on a core type routed through a contract-carrying wrapper (orphan rule)
//@ contract
    ensures
        (r is Ok) <==> (!value@.exhausted && block_ok(val(value@.start), val(value@.end))),   //# iff_aligned_power_of_two_block [C09]
        r matches Ok(n) ==> n.wf() && n.lo() == val(value@.start) && n.hi() == val(value@.end),   //# returns_that_network [C09]
//@ before 1 `let mask = !(`
        proof {
            lemma_block(val(value@.start), val(value@.end));
            lemma_be32_inj(value@.start.0, value@.end.0);
        }
//@ before 1 `if vx_addr_range_eq`
        proof {
            let (s, e) = (val(value@.start), val(value@.end));
            lemma_to_be_roundtrip(s & !((e - s) as u32));
            lemma_be32_inj(result.network_id.0, value@.start.0);
            lemma_be32_inj_all();
        }
//@ end
}

} // verus!

// Witness scenario (ported mechanically from seeded/C10-1, module refragmentation_demo: `#[test] fn` -> `pub fn`); runs only under
// --cfg vx_replay, as a concrete call sequence on the real code when a paired Verus obligation fails.
#![allow(dead_code, unused_imports, unused_must_use)]

use super::super::*;
use crate::protocols::ipv4::test_header_builder::TestHeaderBuilder;

/// Checks that `pieces` is a faithful partition of `payload`, the payload
/// carried by `original` (which may itself be a fragment).
fn check_partition(original: Ipv4Header, payload: &[u8], pieces: &[Fragment], mtu: Mtu) {
    let mut position = 0usize;
    for (i, (header, body)) in pieces.iter().enumerate() {
        assert!(header.total_length <= mtu, "piece {i} exceeds the MTU");
        assert_eq!(header.total_length as usize, 20 + body.len());
        assert_eq!(
            header.fragment_offset as usize * 8,
            original.fragment_offset as usize * 8 + position,
            "piece {i} has the wrong offset"
        );
        assert_eq!(
            body.to_vec(),
            payload[position..position + body.len()],
            "piece {i} has the wrong content"
        );
        position += body.len();

        // MF is clear only on the piece that ends the *original datagram*
        let ends_piece = position == payload.len();
        let expect_last = ends_piece && original.flags.is_last_fragment();
        assert_eq!(
            header.flags.is_last_fragment(),
            expect_last,
            "piece {i} has the wrong more-fragments flag"
        );

        // Everything else is preserved
        let mut normalized = *header;
        normalized.total_length = original.total_length;
        normalized.fragment_offset = original.fragment_offset;
        normalized.flags = original.flags;
        assert_eq!(normalized, original, "piece {i} changed other fields");
    }
    assert_eq!(position, payload.len());
}

pub fn refragmenting_a_middle_fragment_keeps_more_fragments_set() {
    const LEN: u16 = 2000;
    const MTU_1: Mtu = 1300;
    const MTU_2: Mtu = 500;

    let bytes: Vec<u8> = (0..LEN).map(|i| (i % 251) as u8).collect();
    let header = TestHeaderBuilder::new(LEN).ihl().build();

    let first_pass = match fragment(header, Message::new(bytes.clone()), MTU_1) {
        Fragments::Fragmented(fragments) => fragments,
        _ => panic!("Expected fragmented packet"),
    };
    check_partition(header, &bytes, &first_pass, MTU_1);
    assert_eq!(first_pass.len(), 2);

    // Re-fragment the FIRST (non-final) fragment for a smaller MTU, as a
    // router further along the path would.
    let (middle_header, middle_body) = first_pass[0].clone();
    assert!(!middle_header.flags.is_last_fragment());
    let middle_bytes = middle_body.to_vec();
    let second_pass = match fragment(middle_header, middle_body, MTU_2) {
        Fragments::Fragmented(fragments) => fragments,
        _ => panic!("Expected fragmented packet"),
    };
    assert_eq!(second_pass.len(), 3);
    check_partition(middle_header, &middle_bytes, &second_pass, MTU_2);
}


// Witness scenario (ported mechanically from seeded/C10-2: `#[test] fn` -> `pub fn`, crate paths adjusted); runs only under
// --cfg vx_replay, as a concrete call sequence on the real code when a paired Verus obligation fails.
#![allow(dead_code, unused_imports, unused_must_use)]
//! Demonstration for property C10: every fragment produced for an MTU fits
//! that MTU, also when the MTU is not of the form 8k+4 (i.e. MTU-20 is not a
//! multiple of 8), and the pieces tile the original payload.

use crate::{
    network::Mtu,
    protocols::ipv4::{
        fragmentation::{fragment, Fragments},
        ipv4_parsing::{ControlFlags, Ipv4Header, TypeOfService},
        Ipv4Address,
    },
    Message,
};

fn header(payload_len: u16) -> Ipv4Header {
    Ipv4Header {
        ihl: 5,
        type_of_service: TypeOfService::DEFAULT,
        total_length: payload_len + 20,
        identification: 1337,
        fragment_offset: 0,
        flags: ControlFlags::new(true, true),
        time_to_live: 30,
        protocol: 17,
        checksum: 0,
        source: Ipv4Address::CURRENT_NETWORK,
        destination: Ipv4Address::CURRENT_NETWORK,
    }
}

fn check(payload_len: u16, mtu: Mtu) {
    let bytes: Vec<u8> = (0..payload_len as u32)
        .map(|i| (i.wrapping_mul(31) >> 2) as u8)
        .collect();
    let original = header(payload_len);
    let fragments = match fragment(original, Message::new(bytes.clone()), mtu) {
        Fragments::Fragmented(fragments) => fragments,
        other => panic!("Expected fragments, got {other:?}"),
    };

    let mut next = 0usize;
    let count = fragments.len();
    for (i, (h, body)) in fragments.into_iter().enumerate() {
        assert!(
            h.total_length <= mtu,
            "mtu {mtu}: fragment {i} has total length {} which exceeds the MTU",
            h.total_length
        );
        assert_eq!(h.total_length as usize, 20 + body.len());
        assert_eq!(h.fragment_offset as usize * 8, next);
        assert_eq!(body.to_vec(), &bytes[next..next + body.len()]);
        assert_eq!(h.flags.is_last_fragment(), i + 1 == count);
        next += body.len();
    }
    assert_eq!(next, bytes.len());
}

/// MTU-20 divisible by 8, the only shape the in-tree unit tests use
pub fn fragments_fit_aligned_mtu() {
    check(2000, 1500);
    check(2000, 500);
    check(2000, 68);
}

/// MTUs with MTU % 8 in 0..=3, e.g. the classic 576 and 1496/1280
pub fn fragments_fit_unaligned_mtu() {
    check(2000, 576);
    check(2000, 1280);
    check(3000, 1496);
    check(1000, 73);
    check(65515, 65531);
}

/// Every MTU residue modulo 8
pub fn fragments_fit_all_residues() {
    for mtu in 68..=140 {
        check(1000, mtu);
    }
}

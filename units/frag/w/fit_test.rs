// Witness scenario (ported mechanically from seeded/C10-3, module seeded_c10c_demo: `#[test] fn` -> `pub fn`); runs only under
// --cfg vx_replay, as a concrete call sequence on the real code when a paired Verus obligation fails.
#![allow(dead_code, unused_imports, unused_must_use)]

use super::super::*;
use crate::protocols::ipv4::test_header_builder::TestHeaderBuilder;

/// MTU whose payload room (MTU - 20 = 986) is not a multiple of 8.
const ODD_MTU: Mtu = 1006;

/// A datagram that fits the MTU is passed through unchanged, even when
/// its total length lies in the last few octets below an MTU for which
/// MTU-20 is not a multiple of 8.
pub fn fitting_datagram_passes_through_for_unaligned_mtu() {
    for total in [1004u16, 1005, 1006] {
        let payload = total - 20;
        let bytes: Vec<u8> = (0..payload).map(|i| (i % 251) as u8).collect();
        let body = Message::new(bytes);
        let header = TestHeaderBuilder::new(payload).ihl().build();
        assert_eq!(header.total_length, total);
        assert_eq!(
            fragment(header, body.clone(), ODD_MTU),
            Fragments::DontFragment((header, body)),
            "total_length {total} fits MTU {ODD_MTU} and must not be fragmented"
        );
    }
}

/// Same, with DF set: a datagram that fits must not be discarded.
pub fn fitting_df_datagram_is_not_discarded_for_unaligned_mtu() {
    for total in [1004u16, 1005, 1006] {
        let payload = total - 20;
        let body = Message::new(vec![7u8; payload as usize]);
        let header = TestHeaderBuilder::new(payload)
            .ihl()
            .dont_fragment()
            .build();
        assert_eq!(
            fragment(header, body.clone(), ODD_MTU),
            Fragments::DontFragment((header, body)),
            "DF datagram with total_length {total} fits MTU {ODD_MTU}"
        );
    }
    // One that really does not fit is still discarded
    let body = Message::new(vec![7u8; 987]);
    let header = TestHeaderBuilder::new(987).ihl().dont_fragment().build();
    assert_eq!(fragment(header, body, ODD_MTU), Fragments::Discard);
}


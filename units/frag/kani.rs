// Witnesses for ipv4/fragmentation.rs - injected (add-only) as `mod vx_kani_frag`.
//   kind=witness : concrete call sequences on the real code, replayed when a paired Verus obligation fails
//   (Kani harnesses on fragmentation are infeasible: Message::cut over VecDeque<Chunk> + Arc)
use super::*;

#[cfg(vx_replay)]
#[path = "/verif/units/frag/w/mtu_fit.rs"]
mod w_mtu_fit;

//# id=witness.fragments_fit_the_mtu props=C10 kind=witness pair=frag.Fragmentation.fragment.faithful_partition,frag.Fragmentation.fragment.safety,frag.fragment.otherwise_faithful_partition,frag.fragment.fits_passes_through_unchanged,frag.fragment.safety
// every fragment fits the MTU, for aligned and unaligned MTUs and every residue of (MTU - 20) mod 8
#[cfg(vx_replay)]
#[test]
fn h_w_mtu_fit() {
    w_mtu_fit::fragments_fit_aligned_mtu();
    w_mtu_fit::fragments_fit_unaligned_mtu();
    w_mtu_fit::fragments_fit_all_residues();
}

#[cfg(vx_replay)]
#[path = "/verif/units/frag/w/fit_test.rs"]
mod w_fit_test;
#[cfg(vx_replay)]
#[path = "/verif/units/frag/w/refragmentation.rs"]
mod w_refragmentation;

//# id=witness.fitting_datagram_passes_through props=C10 kind=witness pair=frag.fragment.fits_passes_through_unchanged,frag.fragment.too_big_and_df_is_discarded,frag.fragment.otherwise_faithful_partition,frag.fragment.safety
// a datagram that fits the MTU is passed through (and not discarded when DF is set), also when (MTU - 20) is not a multiple of 8
#[cfg(vx_replay)]
#[test]
fn h_w_fit_test() {
    w_fit_test::fitting_datagram_passes_through_for_unaligned_mtu();
    w_fit_test::fitting_df_datagram_is_not_discarded_for_unaligned_mtu();
}

//# id=witness.refragmentation_keeps_more_fragments props=C10 kind=witness pair=frag.Fragmentation.fragment.faithful_partition,frag.Fragmentation.fragment.safety
// re-fragmenting a middle fragment (MF set) keeps MF on all its pieces
#[cfg(vx_replay)]
#[test]
fn h_w_refragmentation() {
    w_refragmentation::refragmenting_a_middle_fragment_keeps_more_fragments_set();
}

// Witnesses for ipv4/fragmentation.rs - injected (add-only) as `mod vx_kani_frag`.
//   kind=witness : concrete call sequences on the real code, replayed when a paired Verus obligation fails
//   (Kani harnesses on fragmentation are infeasible: Message::cut over VecDeque<Chunk> + Arc)
use super::*;

#[cfg(vx_replay)]
#[path = "/verif/units/frag/w/mtu_fit.rs"]
mod w_mtu_fit;

//# id=witness.fragments_fit_the_mtu props=C10 kind=witness pair=frag.Fragmentation.fragment.faithful_partition,frag.Fragmentation.fragment.safety,frag.fragment.otherwise_faithful_partition,frag.fragment.fits_passes_through_unchanged,frag.fragment.safety
// every fragment fits the MTU, for aligned and unaligned MTUs and every residue of (MTU - 20) mod 8
#[cfg(vx_replay)]
#[test]
fn h_w_mtu_fit() {
    w_mtu_fit::fragments_fit_aligned_mtu();
    w_mtu_fit::fragments_fit_unaligned_mtu();
    w_mtu_fit::fragments_fit_all_residues();
}

#[cfg(vx_replay)]
#[path = "/verif/units/frag/w/fit_test.rs"]
mod w_fit_test;
#[cfg(vx_replay)]
#[path = "/verif/units/frag/w/refragmentation.rs"]
mod w_refragmentation;

//# id=witness.fitting_datagram_passes_through props=C10 kind=witness pair=frag.fragment.fits_passes_through_unchanged,frag.fragment.too_big_and_df_is_discarded,frag.fragment.otherwise_faithful_partition,frag.fragment.safety
// a datagram that fits the MTU is passed through (and not discarded when DF is set), also when (MTU - 20) is not a multiple of 8
#[cfg(vx_replay)]
#[test]
fn h_w_fit_test() {
    w_fit_test::fitting_datagram_passes_through_for_unaligned_mtu();
    w_fit_test::fitting_df_datagram_is_not_discarded_for_unaligned_mtu();
}

//# id=witness.refragmentation_keeps_more_fragments props=C10 kind=witness pair=frag.Fragmentation.fragment.faithful_partition,frag.Fragmentation.fragment.safety
// re-fragmenting a middle fragment (MF set) keeps MF on all its pieces
#[cfg(vx_replay)]
#[test]
fn h_w_refragmentation() {
    w_refragmentation::refragmenting_a_middle_fragment_keeps_more_fragments_set();
}

// ---------------------------------------------------------------------------
// BOUNDED stand-in for the fragmenter (kind=witness: never run by Kani, never counted as proved).  Run on the real code only
// when the Verus unit `frag` cannot ingest a changed function: 1500 pseudo-random datagrams (payload 0..=4000 octets, DF on
// one in eight) fragmented for a random MTU (68..=1500, all residues mod 8), every piece fragmented again for a smaller
// MTU, and once more; after every pass the pieces are compared with the partition C10 describes, relative to the ORIGINAL
// datagram.
// ---------------------------------------------------------------------------
#[cfg(vx_replay)]
fn vx_check_partition(original: Ipv4Header, payload: &[u8], pieces: &[Fragment], mtu: Mtu, what: &str) {
    let mut position = 0usize;
    for (i, (header, body)) in pieces.iter().enumerate() {
        assert!(header.total_length <= mtu, "{what}: piece {i} exceeds the MTU {mtu}");
        assert_eq!(header.total_length as usize, 20 + body.len(), "{what}: piece {i} total length");
        assert_eq!(header.fragment_offset as usize * 8, original.fragment_offset as usize * 8 + position, "{what}: piece {i} has the wrong offset");
        assert_eq!(body.to_vec(), payload[position..position + body.len()], "{what}: piece {i} has the wrong content");
        position += body.len();
        let expect_last = position == payload.len() && original.flags.is_last_fragment();
        assert_eq!(header.flags.is_last_fragment(), expect_last, "{what}: piece {i} has the wrong more-fragments flag");
        assert!(position == payload.len() || body.len() % 8 == 0, "{what}: piece {i} is not a multiple of 8 octets although more follow");
        let mut normalized = *header;
        normalized.total_length = original.total_length;
        normalized.fragment_offset = original.fragment_offset;
        normalized.flags = original.flags;
        assert_eq!(normalized, original, "{what}: piece {i} changed other header fields");
    }
    assert_eq!(position, payload.len(), "{what}: the pieces do not cover the payload");
}

//# id=witness.fragmenter_matches_the_partition_model props=C10 kind=witness pair=frag.Fragmentation.fragment.faithful_partition,frag.Fragmentation.fragment.safety,frag.fragment.otherwise_faithful_partition,frag.fragment.fits_passes_through_unchanged,frag.fragment.too_big_and_df_is_discarded,frag.fragment.safety
#[cfg(vx_replay)]
#[test]
fn h_w_frag_model() {
    use crate::protocols::ipv4::test_header_builder::TestHeaderBuilder;
    let mut s: u64 = 0x0123_4567_89ab_cdef;
    let mut next = |n: usize| { s = s.wrapping_mul(6364136223846793005).wrapping_add(1442695040888963407); ((s >> 33) as usize) % n.max(1) };
    // one pass: fragment `piece` for `mtu`, compare with the model, return the pieces (a datagram that fits comes back whole)
    fn pass(header: Ipv4Header, body: &Message, mtu: Mtu, what: &str) -> Option<Vec<Fragment>> {
        let bytes = body.to_vec();
        match fragment(header, body.clone(), mtu) {
            Fragments::DontFragment((h, b)) => {
                assert!(header.total_length <= mtu, "{what}: a datagram of {} octets was passed through for MTU {mtu}", header.total_length);
                assert_eq!((h, b.to_vec()), (header, bytes), "{what}: a datagram that fits was changed");
                Some(vec![(header, body.clone())])
            }
            Fragments::Discard => {
                assert!(header.total_length > mtu && !header.flags.may_fragment(), "{what}: discarded although it fits or may be fragmented");
                None
            }
            Fragments::Fragmented(fs) => {
                assert!(header.total_length > mtu && header.flags.may_fragment(), "{what}: fragmented although it fits or forbids fragmentation");
                vx_check_partition(header, &bytes, &fs, mtu, what);
                Some(fs)
            }
        }
    }
    for case in 0..1500 {
        let len = match next(4) { 0 => next(64), 1 => 1400 + next(200), _ => next(4001) } as u16;
        let bytes: Vec<u8> = (0..len).map(|i| (i as u32 * 7 + case as u32) as u8).collect();
        let mut header = TestHeaderBuilder::new(len).ihl().build();
        if next(8) == 0 { header.flags.set_may_fragment(false); }
        let mtu1 = 68 + next(1433) as Mtu;
        let Some(first) = pass(header, &Message::new(bytes), mtu1, &format!("case {case} pass 1 (len {len}, mtu {mtu1})")) else { continue };
        for (h1, b1) in first.iter() {
            let mtu2 = 68 + next((mtu1 - 67) as usize) as Mtu;
            let Some(second) = pass(*h1, b1, mtu2, &format!("case {case} pass 2 (mtu {mtu1} then {mtu2})")) else { continue };
            for (h2, b2) in second.iter() {
                let mtu3 = 68 + next((mtu2 - 67) as usize) as Mtu;
                let _ = pass(*h2, b2, mtu3, &format!("case {case} pass 3 (mtu {mtu1}, {mtu2}, {mtu3})"));
            }
        }
    }
}

//@ unit frag props=C10
//@ include vx/prelude.rs
//@ import-unit message
verus! {

pub type Mtu = u16;

//@ item sim/elvis-core/src/protocols/ipv4/ipv4_address.rs :: struct Ipv4Address strip-attrs
//@ rewrite `pub struct Ipv4Address\(\[u8; 4\]\);` => `#[derive(Clone, Copy)] pub struct Ipv4Address(pub [u8; 4]);` ## visibility only; other derives dropped (not used here)
//@ end
//@ item sim/elvis-core/src/protocols/ipv4/ipv4_parsing.rs :: struct TypeOfService strip-attrs
//@ rewrite `pub struct TypeOfService\(u8\);` => `#[derive(Clone, Copy)] pub struct TypeOfService(pub u8);` ## visibility only; other derives dropped
//@ end
//@ item sim/elvis-core/src/protocols/ipv4/ipv4_parsing.rs :: struct ControlFlags strip-attrs
//@ rewrite `pub struct ControlFlags\(u8\);` => `#[derive(Clone, Copy)] pub struct ControlFlags(pub u8);` ## visibility only; other derives dropped
//@ end
//@ item sim/elvis-core/src/protocols/ipv4/ipv4_parsing.rs :: struct Ipv4Header strip-attrs
//@ rewrite `pub struct Ipv4Header \{` => `#[derive(Clone, Copy)] pub struct Ipv4Header {` ## derives other than Clone, Copy dropped (not used here)
//@ end

impl ControlFlags {
    /// DF bit clear
    pub open spec fn df(&self) -> bool { self.0 & 0b10 != 0 }
    /// MF bit set
    pub open spec fn mf(&self) -> bool { self.0 & 0b01 != 0 }

//@ item sim/elvis-core/src/protocols/ipv4/ipv4_parsing.rs :: impl ControlFlags / fn may_fragment id=ControlFlags.may_fragment
//@ contract
    ensures r == !self.df(),   //# reads_df_bit [C10]
//@ end
//@ item sim/elvis-core/src/protocols/ipv4/ipv4_parsing.rs :: impl ControlFlags / fn is_last_fragment id=ControlFlags.is_last_fragment
//@ contract
    ensures r == !self.mf(),   //# reads_mf_bit [C10]
//@ end
//@ item sim/elvis-core/src/protocols/ipv4/ipv4_parsing.rs :: impl ControlFlags / fn set_is_last_fragment id=ControlFlags.set_is_last_fragment
//@ contract
    ensures
        final(self).mf() == !value,                          //# writes_mf_bit [C10]
        final(self).df() == old(self).df(),                  //# keeps_df_bit [C10]
        final(self).0 == (old(self).0 & 0b10) | (if value { 0u8 } else { 1u8 }),
//@ start
        proof {
            let x = self.0;
            assert((((x & 0b10) | 0u8) & 0b01 == 0) && (((x & 0b10) | 1u8) & 0b01 == 1)
                && (((x & 0b10) | 0u8) & 0b10 == x & 0b10) && (((x & 0b10) | 1u8) & 0b10 == x & 0b10)) by (bit_vector);
        }
//@ end
}

//@ item sim/elvis-core/src/protocols/ipv4/fragmentation.rs :: type Fragment
//@ end
//@ item sim/elvis-core/src/protocols/ipv4/fragmentation.rs :: enum Fragments strip-attrs
//@ end
//@ item sim/elvis-core/src/protocols/ipv4/fragmentation.rs :: struct Fragmentation
//@ end

// ---------------------------------------------------------------------------
// Specification: a faithful partition
// ---------------------------------------------------------------------------
/// header describes a datagram (or fragment) whose payload is `body`
pub open spec fn hdr_ok(h: Ipv4Header, body: Seq<u8>) -> bool {
    h.ihl == 5 && h.total_length as int == 20 + body.len() && h.fragment_offset as int * 8 + body.len() <= 65535
}

/// all header fields other than total length, fragment offset and the MF bit agree
pub open spec fn same_other_fields(a: Ipv4Header, b: Ipv4Header) -> bool {
    a.ihl == b.ihl && a.type_of_service == b.type_of_service && a.identification == b.identification
    && a.time_to_live == b.time_to_live && a.protocol == b.protocol && a.checksum == b.checksum
    && a.source == b.source && a.destination == b.destination && a.flags.df() == b.flags.df()
}

/// fs[from..] is a faithful partition of the datagram (header, body) for `mtu`:
/// every piece fits, pieces are consecutive slices of `body` starting at the
/// 8-byte-aligned offsets recorded in their headers, every piece but the one
/// that ends the datagram has MF set, the last one carries the datagram's own
/// MF, and all other header fields are preserved.
pub open spec fn frags_ok(fs: Seq<(Ipv4Header, Message)>, from: int, header: Ipv4Header, body: Seq<u8>, mtu: Mtu) -> bool
    decreases fs.len() - from,
{
    if from < 0 || from >= fs.len() {
        false
    } else {
        let h = fs[from].0;
        let b = fs[from].1@;
        fs[from].1.wf() && same_other_fields(h, header) && h.total_length <= mtu && h.total_length as int == 20 + b.len()
        && h.fragment_offset == header.fragment_offset
        && if from == fs.len() - 1 {
            b == body && h.flags.mf() == header.flags.mf()
        } else {
            &&& h.flags.mf()
            &&& b.len() % 8 == 0 && 0 < b.len() < body.len()
            &&& b == body.subrange(0, b.len() as int)
            &&& frags_ok(fs, from + 1,
                    Ipv4Header { total_length: (header.total_length - b.len()) as u16, fragment_offset: (header.fragment_offset + b.len() / 8) as u16, ..header },
                    body.subrange(b.len() as int, body.len() as int), mtu)
        }
    }
}

/// frags_ok only looks at fs[from..]
pub proof fn lemma_frags_ok_frame(fs1: Seq<(Ipv4Header, Message)>, fs2: Seq<(Ipv4Header, Message)>, from: int, header: Ipv4Header, body: Seq<u8>, mtu: Mtu)
    requires
        fs1.len() == fs2.len(),
        forall|i: int| from <= i < fs1.len() ==> fs1[i] == fs2[i],
    ensures frags_ok(fs1, from, header, body, mtu) == frags_ok(fs2, from, header, body, mtu),
    decreases fs1.len() - from,
{
    if 0 <= from < fs1.len() && from != fs1.len() - 1 {
        let b = fs1[from].1@;
        lemma_frags_ok_frame(fs1, fs2, from + 1,
            Ipv4Header { total_length: (header.total_length - b.len()) as u16, fragment_offset: (header.fragment_offset + b.len() / 8) as u16, ..header },
            body.subrange(b.len() as int, body.len() as int), mtu);
    }
}

impl Fragmentation {
//@ item sim/elvis-core/src/protocols/ipv4/fragmentation.rs :: impl Fragmentation / fn new id=Fragmentation.new
//@ contract
    ensures r.mtu == mtu, r.fragments@.len() == 0,
//@ end

//@ item sim/elvis-core/src/protocols/ipv4/fragmentation.rs :: impl Fragmentation / fn fragment id=Fragmentation.fragment
//@ contract
    requires
        hdr_ok(header, body@), body.wf(), old(self).mtu >= 68,
    ensures
        final(self).mtu == old(self).mtu,
        final(self).fragments@.len() > old(self).fragments@.len(),
        forall|i: int| 0 <= i < old(self).fragments@.len() ==> final(self).fragments@[i] == old(self).fragments@[i],   //# earlier_fragments_untouched [C10]
        frags_ok(final(self).fragments@, old(self).fragments@.len() as int, header, body@, old(self).mtu),              //# faithful_partition [C10]
    decreases body@.len(),
//@ start
        let ghost header0 = header;
        let ghost body0 = body@;
        let ghost n0 = self.fragments@.len() as int;
//@ before 1 `return;`
            proof {
                assert(same_other_fields(header0, header0));
            }
//@ before 1 `let oihl = header.ihl;`
        let ghost fs1 = self.fragments@;
        let ghost b1 = fs1[n0].1@;
        proof {
            assert(b1.len() == fragment_blocks * 8);
            assert(b1 == body0.subrange(0, b1.len() as int));
        }
//@ after 1 `self.fragment(header, body);`
        proof {
            let fs2 = self.fragments@;
            let h1 = fs2[n0].0;
            assert(fs2[n0] == fs1[n0]);
            assert(same_other_fields(h1, header0));
            assert(header == Ipv4Header { total_length: (header0.total_length - b1.len()) as u16, fragment_offset: (header0.fragment_offset + b1.len() / 8) as u16, ..header0 });
        }
//@ end
}

//@ item sim/elvis-core/src/protocols/ipv4/fragmentation.rs :: fn fragment id=fragment
//@ contract
    requires
        body.wf(),
        (header.total_length > mtu && !header.flags.df()) ==> hdr_ok(header, body@) && mtu >= 68,
    ensures
        header.total_length <= mtu ==> (r matches Fragments::DontFragment(f) && f.0 == header && f.1 == body),      //# fits_passes_through_unchanged [C10]
        (header.total_length > mtu && header.flags.df()) ==> r is Discard,                                         //# too_big_and_df_is_discarded [C10]
        (header.total_length > mtu && !header.flags.df()) ==> (r matches Fragments::Fragmented(fs) && frags_ok(fs@, 0, header, body@, mtu)),   //# otherwise_faithful_partition [C10]
//@ end

} // verus!

// Kani harnesses for ipv4/reassembly/bitvec.rs - injected (add-only) as `mod vx_kani_bitvec`.
// BOUNDED twins of the Verus contracts in unit reasm (which are unbounded): every bitmap of at most 3 bytes with every
// byte content, every index / length up to 26.  They exist so that a rewrite of these functions that Verus cannot
// ingest (closures, slices, let-else) is still decided on the real code, with a counterexample.
use super::*;
#[path = "/verif/vx/kani_support.rs"]
mod sup;
use sup::*;

const MAXB: usize = 3;
const MAXI: u16 = 26;

fn any_bitvec() -> BitVec {
    let n = (any::<u8>() as usize) % (MAXB + 1);
    let mut bits = Vec::new();
    let mut i = 0;
    while i < MAXB {
        let b: u8 = any();
        if i < n {
            bits.push(b);
        }
        i += 1;
    }
    BitVec { bits }
}
/// the set-of-bits view, written independently of BitVec::get
fn bit(b: &BitVec, i: u16) -> bool {
    let k = (i / 8) as usize;
    k < b.bits.len() && (b.bits[k] >> (i % 8)) & 1 == 1
}
fn all_set(b: &BitVec, lo: u16, hi: u16) -> bool {
    let mut all = true;
    let mut i = 0;
    while i < MAXI {
        if lo <= i && i < hi && !bit(b, i) {
            all = false;
        }
        i += 1;
    }
    all
}

//# id=bitvec.complete fns=BitVec::complete+get props=C11 kind=bounded bound=bitmaps_of_0_to_3_bytes_all_contents_indices_up_to_26 pair=reasm.BitVec.complete.all_low_bits_set,reasm.BitVec.get.reads_bit
#[cfg_attr(kani, kani::proof)]
#[cfg_attr(kani, kani::unwind(28))]
#[cfg_attr(vx_replay, test)]
fn h_bitvec_complete() {
    let b = any_bitvec();
    let len: u16 = any();
    vx_assume!(len <= MAXI);
    let i: u16 = any();
    vx_assume!(i < MAXI);
    assert_eq!(b.get(i), bit(&b, i));
    assert_eq!(b.complete(len), all_set(&b, 0, len));
}

//# id=bitvec.range_complete fns=BitVec::range_complete props=C11 kind=bounded bound=bitmaps_of_0_to_3_bytes_all_contents_indices_up_to_26 pair=reasm.BitVec.range_complete.all_bits_of_the_range_set
#[cfg_attr(kani, kani::proof)]
#[cfg_attr(kani, kani::unwind(28))]
#[cfg_attr(vx_replay, test)]
fn h_bitvec_range_complete() {
    let b = any_bitvec();
    let (lo, hi): (u16, u16) = (any(), any());
    vx_assume!(lo <= MAXI && hi <= MAXI);
    assert_eq!(b.range_complete(lo, hi), all_set(&b, lo, hi));
}

// (BitVec::set / set_range have no Kani twin: Vec::resize made CBMC run past the 25-minute cap; they are decided by
//  the unbounded Verus contracts in unit reasm only.)

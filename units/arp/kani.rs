// Kani harnesses for arp/arp_parsing.rs — injected (add-only) as `mod vx_kani_arp`.
// Loop-free => complete over all inputs.
use super::*;
#[path = "/verif/vx/kani_support.rs"]
mod sup;
use sup::*;

fn be16(a: u8, b: u8) -> u16 { ((a as u16) << 8) | b as u16 }

//# id=decode.total fns=ArpPacket::from_bytes props=C14,C08 kind=complete pair=
#[cfg_attr(kani, kani::proof)]
#[cfg_attr(vx_replay, test)]
fn h_arp_decode_total() {
    let b: [u8; 30] = any();
    let len: usize = any();
    vx_assume!(len <= 30);
    let r = ArpPacket::from_bytes(b.iter().cloned().take(len));
    if len < 28 {
        assert!(r.is_err());
    }
    vx_cover!(r.is_ok());
}

//# id=decode.reencode fns=ArpPacket::from_bytes+ArpPacket::build props=C08,C14 kind=complete pair=
#[cfg_attr(kani, kani::proof)]
#[cfg_attr(kani, kani::unwind(30))]
#[cfg_attr(vx_replay, test)]
fn h_arp_decode_reencode() {
    let b: [u8; 28] = any();
    if let Ok(p) = ArpPacket::from_bytes(b.into_iter()) {
        // RFC 826 layout (IPv4 over Ethernet)
        assert!(p.htype == be16(b[0], b[1]) && p.ptype == be16(b[2], b[3]) && p.hlen == b[4] && p.plen == b[5]);
        assert!(p.oper as u16 == be16(b[6], b[7]));
        assert!(p.sender_mac < (1 << 48) && p.target_mac < (1 << 48));
        assert!(p.sender_ip.to_bytes() == [b[14], b[15], b[16], b[17]] && p.target_ip.to_bytes() == [b[24], b[25], b[26], b[27]]);
        let out = p.build();
        assert!(out.len() == 28);
        let mut i = 0;
        while i < 28 {
            assert!(out[i] == b[i]);
            i += 1;
        }
    }
}

//# id=encode.decode fns=ArpPacket::new_request+ArpPacket::new_reply+ArpPacket::build+ArpPacket::from_bytes props=C08 kind=complete pair=
#[cfg_attr(kani, kani::proof)]
#[cfg_attr(kani, kani::unwind(30))]
#[cfg_attr(vx_replay, test)]
fn h_arp_encode_decode() {
    let (smac, tmac): (u64, u64) = (any(), any());
    let (sip, tip): ([u8; 4], [u8; 4]) = (any(), any());
    let req: bool = any();
    vx_assume!(smac < (1 << 48) && tmac < (1 << 48));
    let p = if req {
        ArpPacket::new_request(smac, Ipv4Address::new(sip), Ipv4Address::new(tip))
    } else {
        ArpPacket::new_reply(smac, Ipv4Address::new(sip), tmac, Ipv4Address::new(tip))
    };
    let out = p.build();
    assert!(out.len() == 28);
    assert!(out[0] == 0 && out[1] == 1 && out[2] == 8 && out[3] == 0 && out[4] == 6 && out[5] == 4 && out[6] == 0 && out[7] == if req { 1 } else { 2 });
    let q = ArpPacket::from_bytes(out.into_iter());
    assert!(q.is_ok());
    assert!(q.unwrap() == p);
}

//@ unit udpck props=C18
//@ include vx/prelude.rs
//@ include vx/be_bytes.rs
use vstd::std_specs::iter::IteratorSpec;
use vstd::std_specs::convert::*;
//@ import-unit checksum
verus! {

//@ item sim/elvis-core/src/protocols/ipv4/ipv4_address.rs :: struct Ipv4Address
//@ rewrite `pub struct Ipv4Address\(\[u8; 4\]\);` => `pub struct Ipv4Address(pub [u8; 4]);` ## visibility only
//@ end
impl FromSpecImpl<u32> for Ipv4Address {
    open spec fn obeys_from_spec() -> bool { true }
    open spec fn from_spec(n: u32) -> Self { Ipv4Address(spec_to_be(n)) }
}
impl FromSpecImpl<[u8; 4]> for Ipv4Address {
    open spec fn obeys_from_spec() -> bool { true }
    open spec fn from_spec(n: [u8; 4]) -> Self { Ipv4Address(n) }
}
//@ item sim/elvis-core/src/protocols/ipv4/ipv4_address.rs :: impl From<u32> for Ipv4Address id=Ipv4Address.from_u32
//@ rewrite `n\.to_be_bytes\(\)` => `vx_u32_to_be(n)` ## core::to_be_bytes routed through the contract-carrying wrapper
//@ end
//@ item sim/elvis-core/src/protocols/ipv4/ipv4_address.rs :: impl From<[u8; 4]> for Ipv4Address id=Ipv4Address.from_bytes
//@ end
impl FromSpecImpl<Ipv4Address> for [u8; 4] {
    open spec fn obeys_from_spec() -> bool { true }
    open spec fn from_spec(a: Ipv4Address) -> Self { a.0 }
}
//@ item sim/elvis-core/src/protocols/ipv4/ipv4_address.rs :: impl From<Ipv4Address> for [u8; 4] id=bytes.from_Ipv4Address
//@ end
impl Ipv4Address {
//@ item sim/elvis-core/src/protocols/ipv4/ipv4_address.rs :: impl Ipv4Address / fn to_bytes id=Ipv4Address.to_bytes
//@ contract
    ensures r == self.0,
//@ end
}

// ---------------------------------------------------------------------------
// utility.rs: BytesExt readers over an arbitrary byte iterator
// ---------------------------------------------------------------------------
/// taking n bytes off the front of an iterator
pub open spec fn took(before: Seq<u8>, after: Seq<u8>, n: int) -> bool {
    before.len() >= n && after == before.subrange(n, before.len() as int)
}

pub trait BytesExt: Iterator<Item = u8> {
//@ item sim/elvis-core/src/protocols/utility.rs :: trait BytesExt / fn next_u8 id=BytesExt.next_u8
//@ contract
    requires (*old(self)).obeys_prophetic_iter_laws(),
    ensures
        (*final(self)).obeys_prophetic_iter_laws(),
        (*old(self)).remaining().len() >= 1 ==> r == Some((*old(self)).remaining()[0]) && took((*old(self)).remaining(), (*final(self)).remaining(), 1),   //# reads_one_byte [C08,C14]
        (*old(self)).remaining().len() < 1 ==> r is None,   //# none_when_exhausted [C14]
//@ end
//@ item sim/elvis-core/src/protocols/utility.rs :: trait BytesExt / fn next_u16_be id=BytesExt.next_u16_be
//@ rewrite `u16::from_be_bytes\(arr\)` => `vx_u16_from_be(arr)` ## core::from_be_bytes routed through the contract-carrying wrapper
//@ contract
    requires (*old(self)).obeys_prophetic_iter_laws(),
    ensures
        (*final(self)).obeys_prophetic_iter_laws(),
        (*old(self)).remaining().len() >= 2 ==> r == Some(be16([(*old(self)).remaining()[0], (*old(self)).remaining()[1]])) && took((*old(self)).remaining(), (*final(self)).remaining(), 2),   //# reads_big_endian_u16 [C08,C14]
        (*old(self)).remaining().len() < 2 ==> r is None,   //# none_when_too_short [C14]
//@ after 1 `let arr = [self.next()?, self.next()?];`
        proof {
            let r0 = (*old(self)).remaining();
            assert((*self).remaining() =~= r0.subrange(2, r0.len() as int));
            assert(arr@ =~= seq![r0[0], r0[1]]);
        }
//@ end
//@ item sim/elvis-core/src/protocols/utility.rs :: trait BytesExt / fn next_u32_be id=BytesExt.next_u32_be
//@ rewrite `u32::from_be_bytes\(arr\)` => `vx_u32_from_be(arr)` ## core::from_be_bytes routed through the contract-carrying wrapper
//@ contract
    requires (*old(self)).obeys_prophetic_iter_laws(),
    ensures
        (*final(self)).obeys_prophetic_iter_laws(),
        (*old(self)).remaining().len() >= 4 ==> r == Some(be32([(*old(self)).remaining()[0], (*old(self)).remaining()[1], (*old(self)).remaining()[2], (*old(self)).remaining()[3]])) && took((*old(self)).remaining(), (*final(self)).remaining(), 4),   //# reads_big_endian_u32 [C08,C14]
        (*old(self)).remaining().len() < 4 ==> r is None,   //# none_when_too_short [C14]
//@ after 1 `let arr = [self.next()?, self.next()?, self.next()?, self.next()?];`
        proof {
            let r0 = (*old(self)).remaining();
            assert((*self).remaining() =~= r0.subrange(4, r0.len() as int));
            assert(arr@ =~= seq![r0[0], r0[1], r0[2], r0[3]]);
        }
//@ end
//@ item sim/elvis-core/src/protocols/utility.rs :: trait BytesExt / fn next_ipv4addr id=BytesExt.next_ipv4addr mode=sig
//@ contract
    // ASSUMED contract (one-line body `self.next_u32_be().map(Ipv4Address::from)` not verified here: Verus' trait-cycle
    // check rejects a call to `From<u32> for Ipv4Address` from a default method of a blanket-implemented trait)
    requires (*old(self)).obeys_prophetic_iter_laws(),
    ensures
        (*final(self)).obeys_prophetic_iter_laws(),
        (*old(self)).remaining().len() >= 4 ==> r == Some(Ipv4Address([(*old(self)).remaining()[0], (*old(self)).remaining()[1], (*old(self)).remaining()[2], (*old(self)).remaining()[3]])) && took((*old(self)).remaining(), (*final(self)).remaining(), 4),
        (*old(self)).remaining().len() < 4 ==> r is None,   //# none_when_too_short [C14]
//@ end
}
//@ item sim/elvis-core/src/protocols/utility.rs :: impl BytesExt for T id=BytesExt.blanket_impl
//@ end



// ---------------------------------------------------------------------------
// udp/udp_parsing.rs in the compute_checksum configuration (the Checksum functions are the compute_checksum variants,
// imported by contract from unit checksum)
// ---------------------------------------------------------------------------
//@ item sim/elvis-core/src/protocols/udp/udp_parsing.rs :: const HEADER_OCTETS
//@ end
//@ item sim/elvis-core/src/protocols/udp/udp_parsing.rs :: struct UdpHeader strip-attrs
//@ end
//@ item sim/elvis-core/src/protocols/udp/udp_parsing.rs :: enum ParseError
//@ rewrite `#\[derive\(Debug, ThisError, Clone, Copy, PartialEq, Eq\)\]` => `#[derive(Debug, Clone, Copy, PartialEq, Eq)]` ## thiserror derive dropped (Display impl only)
//@ rewrite `#\[error\(\s*"[^"]*"\s*\)\]` => `` ## thiserror attribute dropped
//@ end
//@ item sim/elvis-core/src/protocols/udp/udp_parsing.rs :: enum BuildHeaderError
//@ rewrite `#\[derive\(Debug, ThisError, Clone, Copy, PartialEq, Eq\)\]` => `#[derive(Debug, Clone, Copy, PartialEq, Eq)]` ## thiserror derive dropped
//@ rewrite `#\[error\(\s*"[^"]*"\s*\)\]` => `` ## thiserror attribute dropped
//@ end

/// the one's-complement sum of pseudo header (addresses, zero|protocol 17, UDP length), UDP header without the checksum
/// field (ports, length) and the payload words (odd trailing octet padded with zero): RFC 768 / RFC 1071.
pub open spec fn udp_sum(s: Ipv4Address, d: Ipv4Address, sp: u16, dp: u16, len: u16, pay: Seq<u8>) -> u16 {
    oc_fold(0, seq![be16([s.0[0], s.0[1]]), be16([s.0[2], s.0[3]]), be16([d.0[0], d.0[1]]), be16([d.0[2], d.0[3]]), 17u16, len, sp, dp, len] + words_be(pay))
}
/// the eight header octets
pub open spec fn udp_hdr(sp: u16, dp: u16, len: u16, field: u16) -> Seq<u8> {
    seq![spec_to_be16(sp)[0], spec_to_be16(sp)[1], spec_to_be16(dp)[0], spec_to_be16(dp)[1], spec_to_be16(len)[0], spec_to_be16(len)[1], spec_to_be16(field)[0], spec_to_be16(field)[1]]
}
pub open spec fn f9(a: u16, w1: u16, w2: u16, w3: u16, w4: u16, w5: u16, w6: u16, w7: u16, w8: u16, w9: u16) -> u16 {
    ocadd(ocadd(ocadd(ocadd(ocadd(ocadd(ocadd(ocadd(ocadd(a, w1), w2), w3), w4), w5), w6), w7), w8), w9)
}
pub proof fn lemma_fold9(a: u16, w1: u16, w2: u16, w3: u16, w4: u16, w5: u16, w6: u16, w7: u16, w8: u16, w9: u16)
    ensures oc_fold(a, seq![w1, w2, w3, w4, w5, w6, w7, w8, w9]) == f9(a, w1, w2, w3, w4, w5, w6, w7, w8, w9),
{
    reveal_with_fuel(oc_fold, 10);
    let s = seq![w1, w2, w3, w4, w5, w6, w7, w8, w9];
    assert(s.subrange(1, 9) =~= seq![w2, w3, w4, w5, w6, w7, w8, w9]);
    assert(seq![w2, w3, w4, w5, w6, w7, w8, w9].subrange(1, 8) =~= seq![w3, w4, w5, w6, w7, w8, w9]);
    assert(seq![w3, w4, w5, w6, w7, w8, w9].subrange(1, 7) =~= seq![w4, w5, w6, w7, w8, w9]);
    assert(seq![w4, w5, w6, w7, w8, w9].subrange(1, 6) =~= seq![w5, w6, w7, w8, w9]);
    assert(seq![w5, w6, w7, w8, w9].subrange(1, 5) =~= seq![w6, w7, w8, w9]);
    assert(seq![w6, w7, w8, w9].subrange(1, 4) =~= seq![w7, w8, w9]);
    assert(seq![w7, w8, w9].subrange(1, 3) =~= seq![w8, w9]);
    assert(seq![w8, w9].subrange(1, 2) =~= seq![w9]);
    assert(seq![w9].subrange(1, 1) =~= Seq::<u16>::empty());
}
/// one's-complement addition of nine words is the same in the decoder's order, the encoder's order and the specification's
pub proof fn lemma_f9_orders(a1: u16, a2: u16, a3: u16, a4: u16, len: u16, sp: u16, dp: u16, p: u16)
    ensures
        // decoder: ports, length twice, addresses, protocol, then the payload sum
        ocadd(f9(0, sp, dp, len, len, a1, a2, a3, a4, 17), p) == ocadd(f9(0, a1, a2, a3, a4, 17, len, sp, dp, len), p),
        // encoder: payload sum first, then length twice, addresses, protocol, ports
        f9(p, len, len, a1, a2, a3, a4, 17, sp, dp) == ocadd(f9(0, a1, a2, a3, a4, 17, len, sp, dp, len), p),
{
    assert(forall|x: u16, y: u16| #![trigger ocadd(x, y)] ocadd(x, y) == ocadd(y, x));
    assert(forall|x: u16, y: u16, z: u16| #![trigger ocadd(ocadd(x, y), z)] ocadd(ocadd(x, y), z) == ocadd(x, ocadd(y, z)));
}


/// the accumulator value the decoder reaches: ports, length twice, addresses, protocol, then the payload words
pub open spec fn dec_order(s: Ipv4Address, d: Ipv4Address, sp: u16, dp: u16, len: u16, pay: Seq<u8>) -> u16 {
    oc_fold(f9(0, sp, dp, len, len, be16([s.0[0], s.0[1]]), be16([s.0[2], s.0[3]]), be16([d.0[0], d.0[1]]), be16([d.0[2], d.0[3]]), be16([0u8, 17u8])), words_be(pay))
}
/// the accumulator value the encoder reaches: payload words first, then length twice, addresses, protocol, ports
pub open spec fn enc_order(s: Ipv4Address, d: Ipv4Address, sp: u16, dp: u16, len: u16, pay: Seq<u8>) -> u16 {
    f9(oc_fold(0, words_be(pay)), len, len, be16([s.0[0], s.0[1]]), be16([s.0[2], s.0[3]]), be16([d.0[0], d.0[1]]), be16([d.0[2], d.0[3]]), be16([0u8, 17u8]), sp, dp)
}
pub proof fn lemma_orders(s: Ipv4Address, d: Ipv4Address, sp: u16, dp: u16, len: u16, pay: Seq<u8>)
    ensures
        dec_order(s, d, sp, dp, len, pay) == udp_sum(s, d, sp, dp, len, pay),
        enc_order(s, d, sp, dp, len, pay) == udp_sum(s, d, sp, dp, len, pay),
{
    let (a1, a2, a3, a4) = (be16([s.0[0], s.0[1]]), be16([s.0[2], s.0[3]]), be16([d.0[0], d.0[1]]), be16([d.0[2], d.0[3]]));
    let ws = words_be(pay);
    let p = oc_fold(0, ws);
    assert(be16([0u8, 17u8]) == 17u16) by (compute);
    let nine = seq![a1, a2, a3, a4, 17u16, len, sp, dp, len];
    lemma_fold_append(0, nine, ws);
    lemma_fold9(0, a1, a2, a3, a4, 17, len, sp, dp, len);
    lemma_fold_acc(f9(0, a1, a2, a3, a4, 17, len, sp, dp, len), ws);
    lemma_fold_acc(f9(0, sp, dp, len, len, a1, a2, a3, a4, 17), ws);
    lemma_f9_orders(a1, a2, a3, a4, len, sp, dp, p);
}
pub proof fn lemma_orders_all(s: Ipv4Address, d: Ipv4Address, sp: u16, dp: u16, len: u16)
    ensures forall|pay: Seq<u8>| #![trigger udp_sum(s, d, sp, dp, len, pay)]
        dec_order(s, d, sp, dp, len, pay) == udp_sum(s, d, sp, dp, len, pay) && enc_order(s, d, sp, dp, len, pay) == udp_sum(s, d, sp, dp, len, pay),
{
    assert forall|pay: Seq<u8>| #![trigger udp_sum(s, d, sp, dp, len, pay)]
        dec_order(s, d, sp, dp, len, pay) == udp_sum(s, d, sp, dp, len, pay) && enc_order(s, d, sp, dp, len, pay) == udp_sum(s, d, sp, dp, len, pay) by {
        lemma_orders(s, d, sp, dp, len, pay);
    }
}


/// the decoder's acceptance condition (right-hand side of its contract)
pub open spec fn udp_accepts(all: Seq<u8>, packet_len: usize, s: Ipv4Address, d: Ipv4Address) -> bool {
    all.len() >= 8
    && packet_len == be16([all[4], all[5]])
    && be16([all[6], all[7]]) == cksum_of(udp_sum(s, d, be16([all[0], all[1]]), be16([all[2], all[3]]), be16([all[4], all[5]]), all.subrange(8, all.len() as int)))
}
/// (C18) every datagram the stack emits verifies under the RFC 1071 rule and is accepted by the stack's own decoder -
/// a lemma over the two contracts, for every payload (any length up to the 16-bit limit, odd or even)
pub proof fn lemma_udp_emitted_is_accepted(s: Ipv4Address, d: Ipv4Address, sp: u16, dp: u16, pay: Seq<u8>)
    requires pay.len() + 8 <= 65535,
    ensures
        ({
            let len = (pay.len() + 8) as u16;
            let field = cksum_of(udp_sum(s, d, sp, dp, len, pay));
            &&& verifies(udp_sum(s, d, sp, dp, len, pay), field)                                 // RFC 1071 receiver rule
            &&& udp_accepts(udp_hdr(sp, dp, len, field) + pay, (pay.len() + 8) as usize, s, d)   // build_udp_header's output, then from_bytes_ipv4's condition
        }),
{
    let len = (pay.len() + 8) as u16;
    let field = cksum_of(udp_sum(s, d, sp, dp, len, pay));
    let all = udp_hdr(sp, dp, len, field) + pay;
    lemma_emitted_verifies(udp_sum(s, d, sp, dp, len, pay));
    lemma_to_be16_roundtrip(sp); lemma_to_be16_roundtrip(dp); lemma_to_be16_roundtrip(len); lemma_to_be16_roundtrip(field);
    assert([all[0], all[1]] =~= spec_to_be16(sp));
    assert([all[2], all[3]] =~= spec_to_be16(dp));
    assert([all[4], all[5]] =~= spec_to_be16(len));
    assert([all[6], all[7]] =~= spec_to_be16(field));
    assert(all.subrange(8, all.len() as int) =~= pay);
}

impl UdpHeader {
//@ item sim/elvis-core/src/protocols/udp/udp_parsing.rs :: impl UdpHeader / fn from_bytes_ipv4 id=UdpHeader.from_bytes_ipv4
//@ rewrite `mut packet: impl Iterator<Item = u8>,` => `packet0: impl Iterator<Item = u8>,` ## the `mut` parameter is renamed packet0 and rebound by `let mut packet = packet0;` as the first statement
//@ contract
    requires packet0.obeys_prophetic_iter_laws(),
    ensures
        // (C18) a datagram is accepted exactly when it is complete, its length field agrees with the packet and its
        //       checksum field is the one a conforming sender computes over pseudo header, header and payload
        r is Ok <==> udp_accepts(packet0.remaining(), packet_len, source_address, destination_address),   //# accepts_exactly_the_verifying_datagrams [C18]
        r matches Ok(h) ==> h.source == be16([packet0.remaining()[0], packet0.remaining()[1]]) && h.destination == be16([packet0.remaining()[2], packet0.remaining()[3]])
            && h.length == be16([packet0.remaining()[4], packet0.remaining()[5]]) && h.checksum == be16([packet0.remaining()[6], packet0.remaining()[7]]),   //# fields_at_their_offsets [C18]
//@ start
        let mut packet = packet0;
        let ghost all = packet0.remaining();
//@ after 1 `let source_port = packet.next_u16_be().ok_or(HTS)?;`
        proof { assert(packet.remaining() =~= all.subrange(2, all.len() as int)); }
//@ after 1 `let destination_port = packet.next_u16_be().ok_or(HTS)?;`
        proof { assert(packet.remaining() =~= all.subrange(4, all.len() as int)); }
//@ after 1 `let length = packet.next_u16_be().ok_or(HTS)?;`
        proof { assert(packet.remaining() =~= all.subrange(6, all.len() as int)); }
//@ after 1 `let expected_checksum = packet.next_u16_be().ok_or(HTS)?;`
        proof { assert(packet.remaining() =~= all.subrange(8, all.len() as int)); }
//@ after 1 `checksum.accumulate_remainder(&mut packet);`
        proof {
            lemma_orders_all(source_address, destination_address, source_port, destination_port, length);
            assert(checksum.0 == dec_order(source_address, destination_address, source_port, destination_port, length, all.subrange(8, all.len() as int)));
            assert(checksum.0 == udp_sum(source_address, destination_address, source_port, destination_port, length, all.subrange(8, all.len() as int)));
        }
//@ end
}

//@ item sim/elvis-core/src/protocols/udp/udp_parsing.rs :: fn build_udp_header id=build_udp_header
//@ rewrite `mut text: impl Iterator<Item = u8>,` => `text0: impl Iterator<Item = u8>,` ## the `mut` parameter is renamed text0 and rebound by `let mut text = text0;` as the first statement
//@ rewrite `\.map_err\(\|_\| ` => `.map_err(|_e| ` ## Verus needs a named closure parameter
//@ rewrite `(source_port|destination_port|length)\.to_be_bytes\(\)` => `vx_u16_to_be(\1)` ## core::to_be_bytes routed through the contract-carrying wrapper
//@ rewrite `checksum\.as_u16\(\)\.to_be_bytes\(\)` => `vx_u16_to_be(checksum.as_u16())` ## core::to_be_bytes routed through the contract-carrying wrapper
//@ contract
    requires text0.obeys_prophetic_iter_laws(), text_len <= usize::MAX - 8,
    ensures
        r is Ok <==> text_len + 8 <= 65535,   //# refuses_exactly_oversize [C18]
        // (C18) the emitted header carries the RFC 768 checksum over pseudo header, header and payload
        r matches Ok(out) ==> out@ == udp_hdr(source_port, destination_port, (text_len + 8) as u16,
            cksum_of(udp_sum(source_address, destination_address, source_port, destination_port, (text_len + 8) as u16, text0.remaining()))),   //# emits_the_rfc768_checksum [C18]
//@ start
        let mut text = text0;
//@ before 1 `let mut out = Vec::with_capacity`
        proof {
            lemma_orders_all(source_address, destination_address, source_port, destination_port, length);
            assert(checksum.0 == enc_order(source_address, destination_address, source_port, destination_port, length, text0.remaining()));
            assert(checksum.0 == udp_sum(source_address, destination_address, source_port, destination_port, length, text0.remaining()));
        }
//@ end

} // verus!

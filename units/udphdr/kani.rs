// Kani harnesses for udp/udp_parsing.rs — injected (add-only) as `mod vx_kani_udphdr`.
// Default feature set (Checksum no-op) => loop-free, complete over all inputs.
use super::*;
#[path = "/verif/vx/kani_support.rs"]
mod sup;
use sup::*;

fn be16(a: u8, b: u8) -> u16 { ((a as u16) << 8) | b as u16 }

//# id=decode.total fns=UdpHeader::from_bytes_ipv4 props=C14,C08 kind=complete pair=
#[cfg_attr(kani, kani::proof)]
#[cfg_attr(vx_replay, test)]
fn h_udp_decode_total() {
    let b: [u8; 12] = any();
    let len: usize = any();
    let packet_len: usize = any();
    let (s, d): ([u8; 4], [u8; 4]) = (any(), any());
    vx_assume!(len <= 12);
    let r = UdpHeader::from_bytes_ipv4(b.iter().cloned().take(len), packet_len, Ipv4Address::new(s), Ipv4Address::new(d));
    if len < 8 {
        assert!(r.is_err());
    }
    vx_cover!(r.is_ok());
}

//# id=decode.reencode fns=UdpHeader::from_bytes_ipv4+build_udp_header props=C08,C14 kind=complete pair=
#[cfg_attr(kani, kani::proof)]
#[cfg_attr(kani, kani::unwind(10))]
#[cfg_attr(vx_replay, test)]
fn h_udp_decode_reencode() {
    let b: [u8; 8] = any();
    let packet_len: usize = any();
    let (s, d): ([u8; 4], [u8; 4]) = (any(), any());
    let (sa, da) = (Ipv4Address::new(s), Ipv4Address::new(d));
    if let Ok(h) = UdpHeader::from_bytes_ipv4(b.into_iter(), packet_len, sa, da) {
        // field extraction per RFC 768
        assert!(h.source == be16(b[0], b[1]) && h.destination == be16(b[2], b[3]) && h.length == be16(b[4], b[5]) && h.checksum == be16(b[6], b[7]));
        // the length field counts header + payload and must agree with the packet
        assert!(h.length as usize == packet_len);
        if h.length >= 8 {
            let out = build_udp_header(sa, h.source, da, h.destination, [].into_iter(), h.length as usize - 8);
            assert!(out.is_ok());
            let out = out.unwrap();
            assert!(out.len() == 8);
            let mut i = 0;
            while i < 8 {
                assert!(out[i] == b[i]);
                i += 1;
            }
        }
    }
}

//# id=encode.decode_and_wire_format fns=build_udp_header+UdpHeader::from_bytes_ipv4 props=C08 kind=complete pair=
#[cfg_attr(kani, kani::proof)]
#[cfg_attr(kani, kani::unwind(10))]
#[cfg_attr(vx_replay, test)]
fn h_udp_encode_decode() {
    let (sp, dp): (u16, u16) = (any(), any());
    let text_len: usize = any();
    let (s, d): ([u8; 4], [u8; 4]) = (any(), any());
    let (sa, da) = (Ipv4Address::new(s), Ipv4Address::new(d));
    // lengths of real buffers never exceed isize::MAX (Rust allocation limit)
    vx_assume!(text_len <= isize::MAX as usize);
    let r = build_udp_header(sa, sp, da, dp, [].into_iter(), text_len);
    assert_eq!(r.is_ok(), text_len <= 65535 - 8);
    if let Ok(out) = r {
        let len = (text_len + 8) as u16;
        let want: [u8; 8] = [(sp >> 8) as u8, sp as u8, (dp >> 8) as u8, dp as u8, (len >> 8) as u8, len as u8, out[6], out[7]];
        assert!(out.len() == 8);
        let mut i = 0;
        while i < 8 {
            assert!(out[i] == want[i]);
            i += 1;
        }
        let h = UdpHeader::from_bytes_ipv4(want.into_iter(), text_len + 8, sa, da);
        assert!(h.is_ok());
        let h = h.unwrap();
        assert!(h.source == sp && h.destination == dp && h.length == len);
    }
}

// ---------------------------------------------------------------------------
// compute_checksum configuration (C18): UDP datagrams with a payload of 0..=3 octets (BOUNDED payload: all contents,
// even / odd / empty), all ports and both addresses symbolic; RFC 768 / RFC 1071 reference in 32-bit arithmetic.
// ---------------------------------------------------------------------------
/// one's-complement sum of pseudo header + UDP header (checksum field as given) + payload zero-padded to a word
#[cfg(feature = "compute_checksum")]
fn rfc768_sum(h: &[u8; 8], pay: &[u8; 3], n: usize, s: &[u8; 4], d: &[u8; 4]) -> u16 {
    let mut t: u32 = 0;
    t += be16(s[0], s[1]) as u32 + be16(s[2], s[3]) as u32 + be16(d[0], d[1]) as u32 + be16(d[2], d[3]) as u32;
    t += 17 + (8 + n) as u32;
    t += be16(h[0], h[1]) as u32 + be16(h[2], h[3]) as u32 + be16(h[4], h[5]) as u32 + be16(h[6], h[7]) as u32;
    if n >= 1 { t += be16(pay[0], if n >= 2 { pay[1] } else { 0 }) as u32; }
    if n >= 3 { t += be16(pay[2], 0) as u32; }
    t = (t & 0xffff) + (t >> 16);
    t = (t & 0xffff) + (t >> 16);
    t as u16
}

//# id=checksum.emitted_datagram_verifies fns=build_udp_header+UdpHeader::from_bytes_ipv4+Checksum::* props=C18 kind=bounded bound=payload_of_0_to_3_octets_all_contents features=compute_checksum tier=thorough pair=
// every emitted datagram verifies under the RFC 1071 rule over pseudo header, header and (odd or even) payload,
// never carries the 'no checksum' value 0x0000 (RFC 768), and is accepted by the decoder
#[cfg(feature = "compute_checksum")]
#[cfg_attr(kani, kani::proof)]
#[cfg_attr(kani, kani::unwind(10))]
#[cfg_attr(vx_replay, test)]
fn h_ck_udp_emit_verifies() {
    let (sp, dp): (u16, u16) = (any(), any());
    let (s, d): ([u8; 4], [u8; 4]) = (any(), any());
    let pay: [u8; 3] = any();
    let n = (any::<u8>() % 4) as usize;
    let (sa, da) = (Ipv4Address::new(s), Ipv4Address::new(d));
    let out = build_udp_header(sa, sp, da, dp, pay.into_iter().take(n), n).unwrap();
    assert!(out.len() == 8);
    let h: [u8; 8] = [out[0], out[1], out[2], out[3], out[4], out[5], out[6], out[7]];
    assert!(rfc768_sum(&h, &pay, n, &s, &d) == 0xffff);
    assert!(!(h[6] == 0 && h[7] == 0));
    let r = UdpHeader::from_bytes_ipv4(h.into_iter().chain(pay.into_iter().take(n)), 8 + n, sa, da);
    assert!(r.is_ok());
}

//# id=checksum.decoder_accepts_conforming_rejects_corruption fns=UdpHeader::from_bytes_ipv4+Checksum::* props=C18 kind=bounded bound=payload_of_0_to_3_octets_all_contents features=compute_checksum tier=thorough pair=
// a datagram with a computed checksum (field != 0) whose length field is right is accepted iff it verifies
#[cfg(feature = "compute_checksum")]
#[cfg_attr(kani, kani::proof)]
#[cfg_attr(kani, kani::unwind(10))]
#[cfg_attr(vx_replay, test)]
fn h_ck_udp_accept_iff_verifies() {
    let h: [u8; 8] = any();
    let (s, d): ([u8; 4], [u8; 4]) = (any(), any());
    let pay: [u8; 3] = any();
    let n = (any::<u8>() % 4) as usize;
    vx_assume!(be16(h[4], h[5]) as usize == 8 + n);
    vx_assume!(!(h[6] == 0 && h[7] == 0));
    let r = UdpHeader::from_bytes_ipv4(h.into_iter().chain(pay.into_iter().take(n)), 8 + n, Ipv4Address::new(s), Ipv4Address::new(d));
    assert_eq!(r.is_ok(), rfc768_sum(&h, &pay, n, &s, &d) == 0xffff);
}

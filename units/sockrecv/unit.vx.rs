//@ unit sockrecv props=C02
//@ include vx/prelude.rs
use std::collections::VecDeque;
use vstd::std_specs::iter::IteratorSpec;
//@ import-unit message
verus! {

// ---------------------------------------------------------------------------
// What is NOT the repository's code in this unit (stated exactly):
//  * `struct Socket` is reduced to the three fields `recv` uses; its other thirteen fields (RwLock<Option<Arc<dyn
//    Session>>>, Arc<Machine>, Arc<SocketAPI>, Shutdown, connection receiver, flags, addresses) are outside Verus.
//  * the tokio `mpsc::Receiver<Message>` is replaced by `VxChan`, an opaque queue whose ghost view is the sequence of
//    messages it will still deliver, in delivery order; `recv().await` inside `select!` and `try_recv()` are routed to
//    the two assumed-contract functions below.  ALL concurrency (shutdown racing, wake-ups, the session check and
//    `yield_now().await` at the top of the function) is dropped by declared rewrites.
//  * `Vec::extend(iterator)` is routed to `vx_extend` (assumed: appends exactly what the iterator yields).
// What IS the repository's code: the whole buffer arithmetic of `Socket::recv` - the comparisons against `bytes`,
// the `take(..)`, the `slice(..)`, what is stored for the next call and the loop condition.
// ---------------------------------------------------------------------------
#[verifier::external_body]
pub struct VxChan { _p: core::marker::PhantomData<Message> }
impl VxChan {
    /// the messages this channel will still deliver, in order
    pub uninterp spec fn view(&self) -> Seq<Message>;
}
pub enum VxRecv { Shutdown, Msg(Option<Message>) }

#[verifier::external_body]
pub fn vx_recv_blocking(c: &mut VxChan) -> (r: VxRecv)
    ensures
        r matches VxRecv::Msg(Some(m)) ==> old(c)@.len() > 0 && m == old(c)@[0] && final(c)@ == old(c)@.subrange(1, old(c)@.len() as int),
        !(r matches VxRecv::Msg(Some(_))) ==> final(c)@ == old(c)@,
{ unimplemented!() }
#[verifier::external_body]
pub fn vx_try_recv(c: &mut VxChan) -> (r: Result<Message, ()>)
    ensures
        r matches Ok(m) ==> old(c)@.len() > 0 && m == old(c)@[0] && final(c)@ == old(c)@.subrange(1, old(c)@.len() as int),
        r is Err ==> final(c)@ == old(c)@,
{ unimplemented!() }
#[verifier::external_body]
pub fn vx_extend<I: Iterator<Item = u8>>(buf: &mut Vec<u8>, it: I)
    requires it.obeys_prophetic_iter_laws(),
    ensures final(buf)@ == old(buf)@ + it.remaining(),
{ buf.extend(it) }

pub struct Socket {
    pub is_blocking: bool,
    pub message_receiver: Option<VxChan>,
    pub stored_message: Option<Message>,
}

//@ item sim/elvis-core/src/protocols/socket_api/socket.rs :: enum SocketError
//@ rewrite `#\[derive\(Debug, ThisError, Clone, PartialEq, Eq\)\]` => `#[derive(Debug, Clone, PartialEq, Eq)]` ## thiserror derive dropped (Display impl only)
//@ rewrite `#\[error\("[^"]*"\)\]` => `` ## thiserror attribute dropped
//@ end

/// concatenation of the byte strings of a sequence of messages
pub open spec fn cat_msgs(q: Seq<Message>) -> Seq<u8>
    decreases q.len(),
{
    if q.len() == 0 { Seq::empty() } else { q[0]@ + cat_msgs(q.subrange(1, q.len() as int)) }
}
pub open spec fn all_msgs_wf(q: Seq<Message>) -> bool { forall|i: int| 0 <= i < q.len() ==> (#[trigger] q[i]).wf() }

impl Socket {
    /// everything the application has not read yet: the stored remainder followed by what the channel will deliver
    pub open spec fn pending(&self) -> Seq<u8> {
        (match self.stored_message { Some(m) => m@, None => Seq::<u8>::empty() })
        + (match self.message_receiver { Some(c) => cat_msgs(c@), None => Seq::<u8>::empty() })
    }
    pub open spec fn wf(&self) -> bool {
        (self.stored_message matches Some(m) ==> m.wf()) && (self.message_receiver matches Some(c) ==> all_msgs_wf(c@))
    }

//@ item sim/elvis-core/src/protocols/socket_api/socket.rs :: impl Socket / fn recv id=Socket.recv
//@ rewrite `pub async fn recv\(` => `#[verifier::exec_allows_no_decreases_clause] pub fn recv(` ## async dropped (see the unit header); termination of the receive loop is not verified
//@ rewrite `if self\.session\.read\(\)\.unwrap\(\)\.is_none\(\) \|\| self\.is_listening \{\s*return Err\(SocketError::ReceiveError\);\s*\}\s*yield_now\(\)\.await;\s*let mut shutdown_receiver = self\.shutdown\.receiver\(\);` => `` ## session / listening check, yield and shutdown subscription dropped (outside Verus; no effect on the buffer arithmetic)
//@ rewrite `select! \{\s*_ = shutdown_receiver\.recv\(\) => \{ return Err\(SocketError::Shutdown\); \},\s*message = message_receiver\.recv\(\) => \{` => `match vx_recv_blocking(message_receiver) { VxRecv::Shutdown => { return Err(SocketError::Shutdown); }, VxRecv::Msg(message) => {` ## tokio select! over the shutdown and message channels routed to the assumed-contract function vx_recv_blocking
//@ rewrite `match message_receiver\.try_recv\(\) \{` => `match vx_try_recv(message_receiver) {` ## Receiver::try_recv routed to the assumed-contract function vx_try_recv
//@ rewrite `buf\.extend\(message\.iter\(\)\);` => `vx_extend(&mut buf, message.iter());` ## Vec::extend(iterator) routed to the assumed-contract function vx_extend
//@ rewrite `buf\.extend\(message\.iter\(\)\.take\(([^;]*)\)\);` => `vx_extend(&mut buf, message.iter().take(\1));` ## see above
//@ rewrite `message\.slice\(([^;]*)\.\.\);` => `message.slice_inner(SliceRange::from(\1..));` ## Message::slice(impl Into<SliceRange>) is the generic one-line wrapper `self.slice_inner(range.into())`; inlined
//@ loop 1
                invariant
                    all_msgs_wf(message_receiver@),
                    self.stored_message matches Some(m) ==> m.wf(),
                    buf@.len() <= bytes,   //# never_returns_more_than_requested [C02]
                    self.stored_message is Some ==> buf@.len() >= bytes,
                    buf@ + (match self.stored_message { Some(m) => m@, None => Seq::<u8>::empty() }) + cat_msgs(message_receiver@) == pending0,   //# reads_are_a_prefix_of_what_was_pending [C02]
//@ start
        let ghost pending0 = self.pending();
//@ contract
    requires old(self).wf(),
    ensures
        // (C02) a read that asks for at most n bytes never returns more than n
        r matches Ok(buf) ==> buf@.len() <= bytes,   //# never_returns_more_than_requested [C02]
        // (C02) successive reads never lose, duplicate or reorder bytes: what was read followed by what is still pending
        //       is exactly what was pending before
        r matches Ok(buf) ==> buf@ + final(self).pending() == old(self).pending(),   //# reads_are_a_prefix_of_what_was_pending [C02]
        // (after an error the queue is untouched; Verus does not resolve the `&mut self.message_receiver` reborrow at the
        //  early returns inside the loop, so well-formedness is stated for successful reads only)
        r is Ok ==> final(self).wf(),
//@ end

//@ item sim/elvis-core/src/protocols/socket_api/socket.rs :: impl Socket / fn recv_msg id=Socket.recv_msg
//@ rewrite `pub async fn recv_msg\(` => `pub fn recv_msg(` ## async dropped (see the unit header)
//@ rewrite `if self\.session\.read\(\)\.unwrap\(\)\.is_none\(\) \|\| self\.is_listening \{\s*return Err\(SocketError::ReceiveError\);\s*\}\s*yield_now\(\)\.await;` => `` ## session / listening check and yield dropped (outside Verus)
//@ rewrite `let mut shutdown_receiver = self\.shutdown\.receiver\(\);` => `` ## shutdown subscription dropped
//@ rewrite `select! \{\s*_ = shutdown_receiver\.recv\(\) => Err\(SocketError::Shutdown\),\s*message = message_receiver\.recv\(\) => \{` => `match vx_recv_blocking(message_receiver) { VxRecv::Shutdown => Err(SocketError::Shutdown), VxRecv::Msg(message) => {` ## tokio select! routed to the assumed-contract function vx_recv_blocking
//@ rewrite `match message_receiver\.try_recv\(\) \{` => `match vx_try_recv(message_receiver) {` ## Receiver::try_recv routed to the assumed-contract function vx_try_recv
//@ contract
    requires old(self).wf(),
    ensures
        // (C02) a whole-message read takes exactly the next pending message (the stored remainder first): nothing is lost,
        //       duplicated or reordered with respect to the byte-bounded reads
        r matches Ok(m) ==> m.wf() && m@ + final(self).pending() == old(self).pending(),   //# takes_the_head_of_what_was_pending [C02]
        r is Ok ==> final(self).wf(),
//@ end
}


// ---------------------------------------------------------------------------
// socket_session.rs: messages that arrive before accept() are parked and replayed when the socket exists
//   NOT the repository's code (declared below): `struct SocketSession` is reduced to the two fields the functions use
//   and the `RwLock`s around them are removed (`.read().unwrap().clone()` / `.write().unwrap()` become plain borrows,
//   `&self` / `self: Arc<Self>` become `&mut self`): lock acquisition order and concurrent callers are NOT modelled.
//   The tokio `mpsc::Sender<Message>` is `VxSender`, whose ghost view is the sequence of messages accepted by the
//   channel so far (what the socket's receiver will deliver, in order); a clone of a Sender is a handle on the same
//   channel, so the rewrite operates on the stored handle.  `println!` diagnostics are dropped.
// ---------------------------------------------------------------------------
/// ASSUMED (std): VecDeque::is_empty is `len() == 0`
pub assume_specification<T, A: std::alloc::Allocator> [std::collections::VecDeque::<T, A>::is_empty] (d: &std::collections::VecDeque<T, A>) -> (r: bool)
    ensures r == (d@.len() == 0);

#[verifier::external_body]
pub struct VxSender { _p: core::marker::PhantomData<Message> }
impl VxSender {
    /// the messages the channel has accepted so far, in order
    pub uninterp spec fn view(&self) -> Seq<Message>;
}
#[verifier::external_body]
pub fn vx_is_closed(c: &VxSender) -> (r: bool)
{ unimplemented!() }
#[verifier::external_body]
pub fn vx_try_send(c: &mut VxSender, m: Message) -> (r: Result<(), ()>)
    ensures
        r is Ok ==> final(c)@ == old(c)@.push(m),
        r is Err ==> final(c)@ == old(c)@,
{ unimplemented!() }

pub struct SocketSession {
    pub upstream: Option<VxSender>,
    pub stored_messages: VecDeque<Message>,
}
//@ item sim/elvis-core/src/protocol.rs :: enum DemuxError
//@ rewrite `#\[derive\([^\]]*\)\]` => `#[derive(Debug, Clone, Copy, PartialEq, Eq)]` ## thiserror derive dropped (Display impl only)
//@ rewrite `#\[error\("[^"]*"\)\]` => `` ## thiserror attribute dropped
//@ rewrite `MissingProtocol\(TypeId\)` => `MissingProtocol` ## payload (std::any::TypeId, an external type) dropped; the variant is not used by these functions
//@ end

impl SocketSession {
//@ item sim/elvis-core/src/protocols/socket_api/socket_session.rs :: impl SocketSession / fn receive id=SocketSession.receive
//@ rewrite `pub fn receive\(&self, message: Message\)` => `pub fn receive(&mut self, message: Message)` ## RwLock interior mutability replaced by &mut self (see the header above)
//@ rewrite `match self\.upstream\.read\(\)\.unwrap\(\)\.clone\(\) \{` => `match &mut self.upstream {` ## RwLock read + Sender::clone replaced by a borrow of the stored handle (a clone is a handle on the same channel)
//@ rewrite `sock\.is_closed\(\)` => `vx_is_closed(sock)` ## Sender::is_closed routed to the (unspecified) wrapper
//@ rewrite `sock\.try_send\(` => `vx_try_send(sock, ` ## Sender::try_send routed to the assumed-contract wrapper
//@ rewrite `println!\([^;]*\);` => `` ## diagnostic output dropped
//@ rewrite `self\.stored_messages\.write\(\)\.unwrap\(\)\.push_back\(message\);` => `self.stored_messages.push_back(message);` ## RwLock write guard replaced by the field
//@ contract
    ensures
        // (C02) an accepted message goes to the end of what the socket will be handed: straight into the channel when the
        //       socket exists, else to the end of the parked queue; a refused message changes nothing
        r is Ok ==> (match old(self).upstream {
            Some(c) => final(self).upstream is Some && final(self).upstream->0@ == c@.push(message) && final(self).stored_messages@ == old(self).stored_messages@,
            None => final(self).upstream is None && final(self).stored_messages@ == old(self).stored_messages@.push(message),
        }),   //# accepted_message_is_appended_in_arrival_order [C02]
        r is Err ==> final(self).stored_messages@ == old(self).stored_messages@
            && (old(self).upstream matches Some(c) ==> final(self).upstream is Some && final(self).upstream->0@ == c@),   //# refused_message_changes_nothing [C02]
//@ end

//@ item sim/elvis-core/src/protocols/socket_api/socket_session.rs :: impl SocketSession / fn receive_stored_messages id=SocketSession.receive_stored_messages
//@ rewrite `pub fn receive_stored_messages\(self: Arc<Self>\)` => `pub fn receive_stored_messages(&mut self)` ## Arc<Self> + RwLock interior mutability replaced by &mut self
//@ rewrite `match self\.upstream\.read\(\)\.unwrap\(\)\.clone\(\) \{` => `match &mut self.upstream {` ## see above
//@ rewrite `let mut queue = self\.stored_messages\.write\(\)\.unwrap\(\);` => `let queue = &mut self.stored_messages;` ## RwLock write guard replaced by a borrow of the field
//@ rewrite `sock\.try_send\(` => `vx_try_send(sock, ` ## Sender::try_send routed to the assumed-contract wrapper
//@ contract
    ensures
        // (C02) data that arrived before accept() is handed to the socket in arrival order, each message once
        r is Ok ==> old(self).upstream is Some && final(self).upstream is Some
            && final(self).upstream->0@ == old(self).upstream->0@ + old(self).stored_messages@
            && final(self).stored_messages@.len() == 0,   //# parked_messages_are_replayed_in_arrival_order [C02]
        // (on failure - the channel refuses a message, which the code then drops, and Socket::accept unwraps the error - no
        //  clause is stated: Verus does not resolve the `&mut self.upstream` reborrow at the early return inside the loop)
//@ loop 1
                invariant
                    old(self).upstream is Some,
                    sock@ + queue@ == old(self).upstream->0@ + old(self).stored_messages@,
                decreases queue@.len(),
//@ loop-end 1
                    proof { assert(sock@ + queue@ =~= old(self).upstream->0@ + old(self).stored_messages@); }
//@ end
}

} // verus!

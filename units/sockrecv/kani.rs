// Witness harnesses for socket_api/socket.rs (Socket::recv) - injected (add-only) as `mod vx_kani_sockrecv`.
//   kind=witness : concrete call sequences demonstrating a failed Verus obligation on the real code (replay only;
//   Socket::recv is async + tokio channels, outside Kani's reach).
use super::*;
use crate::session::SendError;

struct NullSession;
impl Session for NullSession {
    fn send(&self, _message: Message, _machine: Arc<Machine>) -> Result<(), SendError> {
        Ok(())
    }
}

/// A connected, non-blocking socket whose incoming queue holds `queued`, in order.
fn socket_with(queued: &[&[u8]]) -> (Socket, tokio::sync::mpsc::Sender<Message>) {
    let machine = Arc::new(Machine::new());
    let api = Arc::new(SocketAPI::new(None));
    let mut s = Socket::new(ProtocolFamily::INET, SocketType::Datagram, machine, api, Shutdown::new());
    let (tx, rx) = tokio::sync::mpsc::channel::<Message>(64);
    for m in queued {
        tx.try_send(Message::new(m.to_vec())).unwrap();
    }
    s.message_receiver = Some(rx);
    *s.session.write().unwrap() = Some(Arc::new(NullSession));
    s.set_blocking(false);
    (s, tx)
}

fn drain(s: &mut Socket, n: usize) -> Vec<Vec<u8>> {
    let rt = tokio::runtime::Builder::new_current_thread().build().unwrap();
    let mut reads = vec![];
    loop {
        let chunk = rt.block_on(s.recv(n)).unwrap();
        if chunk.is_empty() {
            break;
        }
        reads.push(chunk);
    }
    reads
}

//# id=witness.recv_returns_more_than_requested props=C02 kind=witness pair=sockrecv.Socket.recv.never_returns_more_than_requested
// recv(n) never returns more than n bytes, whatever is queued
#[cfg(vx_replay)]
#[test]
fn h_w_recv_bound() {
    for (queued, n) in [(vec![&b"ab"[..], &b"cdef"[..]], 4usize), (vec![&b"abc"[..], &b"defghij"[..]], 4), (vec![&b"abcdef"[..], &b"0123456789"[..]], 4)] {
        let (mut s, _tx) = socket_with(&queued);
        for chunk in drain(&mut s, n) {
            assert!(chunk.len() <= n, "recv({n}) returned {} bytes with {:?} queued", chunk.len(), queued);
        }
    }
}

//# id=witness.recv_stream_is_preserved props=C02 kind=witness pair=sockrecv.Socket.recv.reads_are_a_prefix_of_what_was_pending
// the concatenation of successive bounded reads is exactly the concatenation of what was queued
#[cfg(vx_replay)]
#[test]
fn h_w_recv_stream() {
    for (queued, n) in [(vec![&b"ab"[..], &b"cdef"[..]], 4usize), (vec![&b"abcdef"[..], &b"0123456789"[..]], 4), (vec![&b"abcdefghij"[..], &b"k"[..], &b""[..], &b"lmnopq"[..]], 3)] {
        let (mut s, _tx) = socket_with(&queued);
        let got: Vec<u8> = drain(&mut s, n).concat();
        assert_eq!(got, queued.concat(), "bytes lost, duplicated or reordered by successive recv({n}) with {:?} queued", queued);
    }
}

//# id=witness.recv_msg_interleaved props=C02 kind=witness pair=sockrecv.Socket.recv_msg.takes_the_head_of_what_was_pending
// byte-bounded reads interleaved with whole-message reads still return the queued bytes exactly once, in order
#[cfg(vx_replay)]
#[test]
fn h_w_recv_msg_interleaved() {
    let queued = vec![&b"abcdefg"[..], &b"hi"[..], &b"jklm"[..]];
    let (mut s, _tx) = socket_with(&queued);
    let rt = tokio::runtime::Builder::new_current_thread().build().unwrap();
    let mut got = rt.block_on(s.recv(3)).unwrap();
    got.extend(rt.block_on(s.recv_msg()).unwrap().to_vec()); // the stored remainder "defg"
    got.extend(rt.block_on(s.recv(1)).unwrap());
    got.extend(rt.block_on(s.recv_msg()).unwrap().to_vec());
    got.extend(rt.block_on(s.recv_msg()).unwrap().to_vec());
    assert_eq!(got, queued.concat());
}

//# id=witness.parked_messages_order props=C02 kind=witness pair=sockrecv.SocketSession.receive_stored_messages.parked_messages_are_replayed_in_arrival_order,sockrecv.SocketSession.receive.accepted_message_is_appended_in_arrival_order,sockrecv.SocketSession.receive_stored_messages.safety
// messages that arrive before the socket exists are handed over in arrival order, followed by later ones
#[cfg(vx_replay)]
#[test]
fn h_w_parked_order() {
    use super::super::socket_session::SocketSession;
    let sess = Arc::new(SocketSession {
        upstream: RwLock::new(None),
        downstream: Arc::new(NullSession),
        stored_messages: Default::default(),
    });
    for m in ["first ", "second ", "third "] {
        sess.receive(Message::new(m)).unwrap();
    }
    let (tx, mut rx) = tokio::sync::mpsc::channel::<Message>(8);
    *sess.upstream.write().unwrap() = Some(tx);
    sess.clone().receive_stored_messages().unwrap();
    sess.receive(Message::new("fourth")).unwrap();
    let mut got = vec![];
    while let Ok(m) = rx.try_recv() {
        got.extend(m.to_vec());
    }
    assert_eq!(String::from_utf8(got).unwrap(), "first second third fourth");
}

//@ unit reasmmap props=C11
//@ include vx/prelude.rs
use std::collections::BinaryHeap;
use core::cmp::Ordering;
use core::time::Duration;
use vstd::std_specs::cmp::*;
//@ import-unit reasm
verus! {

// ---------------------------------------------------------------------------
// ipv4/reassembly.rs: the table of reassembly buffers.
//   NOT the repository's code (declared): the `FxHashMap<BufId, Segment>` is replaced by `VxMap`, an opaque map whose
//   ghost view is a `Map<BufId, Segment>`; `remove(&k)` and `entry(k).or_insert(v)` are routed to the two
//   assumed-contract functions below (std HashMap semantics: remove returns the old value, or_insert returns a mutable
//   reference to the existing value or to the freshly inserted one).  Hashing is not modelled (BufId's derive(Hash) agrees
//   with its derive(Eq): Kani harness bufid).  The ghost parameters `ds` (the datagram each buffer key belongs to) are
//   added to the signature by a declared rewrite and erased at run time.
// ---------------------------------------------------------------------------
pub assume_specification [Duration::from_secs] (s: u64) -> (r: Duration);

//@ item sim/elvis-core/src/protocols/ipv4/reassembly/buf_id.rs :: struct BufId strip-attrs
//@ rewrite `pub struct BufId \{` => `#[derive(Clone, Copy)] pub struct BufId {` ## derives other than Clone, Copy dropped (Eq/Hash: see the header above)
//@ rewrite `(\n\s*)(src|dst|protocol|identification): ` => `\1pub \2: ` ## visibility only
//@ end
impl BufId {
//@ item sim/elvis-core/src/protocols/ipv4/reassembly/buf_id.rs :: impl BufId / fn from_header id=BufId.from_header
//@ contract
    ensures r == (BufId { src: header.source, dst: header.destination, protocol: header.protocol, identification: header.identification }),   //# rfc791_bufid [C11]
//@ end
}

#[verifier::external_body]
pub struct VxMap { _p: core::marker::PhantomData<Segment> }
impl VxMap {
    pub uninterp spec fn view(&self) -> Map<BufId, Segment>;
}
#[verifier::external_body]
pub fn vx_map_remove(m: &mut VxMap, k: &BufId) -> (r: Option<Segment>)
    ensures
        final(m)@ == old(m)@.remove(*k),
        r == (if old(m)@.contains_key(*k) { Some(old(m)@[*k]) } else { None::<Segment> }),
{ unimplemented!() }
#[verifier::external_body]
pub fn vx_map_entry_or_insert(m: &mut VxMap, k: BufId, v: Segment) -> (r: &mut Segment)
    ensures
        *r == (if old(m)@.contains_key(k) { old(m)@[k] } else { v }),
        final(m)@ == old(m)@.insert(k, *final(r)),
{ unimplemented!() }

pub struct Reassembly {
    pub segments: VxMap,
}
//@ item sim/elvis-core/src/protocols/ipv4/reassembly.rs :: enum ReceivePacketResult strip-attrs
//@ end

/// every buffer holds block-disjoint slices of the datagram its key stands for
pub open spec fn table_inv(m: Map<BufId, Segment>, ds: Map<BufId, Seq<u8>>) -> bool {
    forall|k: BufId| #[trigger] m.contains_key(k) ==> ds.contains_key(k) && m[k].wf() && m[k].pay_inv(ds[k])
}

impl Reassembly {
//@ item sim/elvis-core/src/protocols/ipv4/reassembly.rs :: impl Reassembly / fn receive_packet id=Reassembly.receive_packet
//@ rewrite `pub fn receive_packet\(&mut self, header: Ipv4Header, body: Message\)` => `pub fn receive_packet(&mut self, header: Ipv4Header, body: Message, Ghost(ds): Ghost<Map<BufId, Seq<u8>>>)` ## ghost parameter ds (erased at run time): the datagram each buffer key belongs to
//@ rewrite `self\.segments\.remove\(&buf_id\);` => `vx_map_remove(&mut self.segments, &buf_id);` ## HashMap::remove routed to the assumed-contract function
//@ rewrite `self\.segments\.remove\(&buf_id\)\.unwrap\(\);` => `vx_map_remove(&mut self.segments, &buf_id).unwrap();` ## HashMap::remove routed to the assumed-contract function
//@ rewrite `self\.segments\.entry\(buf_id\)\.or_insert\(Segment::new\(\)\)` => `vx_map_entry_or_insert(&mut self.segments, buf_id, Segment::new())` ## HashMap::entry(..).or_insert(..) routed to the assumed-contract function
//@ rewrite `segment\.receive_packet\(header, body\)` => `segment.receive_packet(header, body, Ghost(ds[buf_id]))` ## the ghost datagram of this buffer is passed on
//@ contract
    requires
        body.wf(),
        table_inv(old(self).segments@, ds),
        // the arriving packet: either a whole datagram, or a fragment of the datagram its key stands for that is new to its
        // buffer or an exact repetition (the precondition of Segment::receive_packet, for the buffer with this key)
        ({
            let k = BufId { src: header.source, dst: header.destination, protocol: header.protocol, identification: header.identification };
            let seg = old(self).segments@[k];
            (header.flags.mf() || header.fragment_offset != 0) ==> (
                ds.contains_key(k) && 0 < ds[k].len() && ds[k].len() + 20 <= 65535 && frag_hdr_ok(header, body@)
                && pc_ok(Fragment { message: body, offset: header.fragment_offset }, ds[k])
                && (!header.flags.mf() ==> 8 * header.fragment_offset + body@.len() == ds[k].len())
                && (header.flags.mf() ==> 8 * header.fragment_offset + body@.len() < ds[k].len())
                && (!old(self).segments@.contains_key(k) || (forall|j: int| header.fragment_offset <= j < header.fragment_offset + nblocks(body@.len() as int) ==> !seg.fragment_blocks.bit(j))
                    || (exists|i: int| 0 <= i < heap_seq(seg.fragments).len() && (#[trigger] heap_seq(seg.fragments)[i]).offset == header.fragment_offset
                            && heap_seq(seg.fragments)[i].message@.len() == body@.len())))
        }),
    ensures
        // (C11) fragments of different datagrams never mix: every buffer with another key is untouched
        forall|k: BufId| k != (BufId { src: header.source, dst: header.destination, protocol: header.protocol, identification: header.identification })
            ==> final(self).segments@.contains_key(k) == old(self).segments@.contains_key(k)
                && (old(self).segments@.contains_key(k) ==> final(self).segments@[k] == old(self).segments@[k]),   //# other_buffers_untouched [C11]
        table_inv(final(self).segments@, ds),   //# buffers_stay_slices_of_their_own_datagram [C11]
        // (2)-(5) an unfragmented datagram is passed through and flushes any buffer with its key
        (!header.flags.mf() && header.fragment_offset == 0) ==> r == ReceivePacketResult::Complete(header, body)
            && !final(self).segments@.contains_key(BufId { src: header.source, dst: header.destination, protocol: header.protocol, identification: header.identification }),   //# whole_datagram_passes_through [C11]
        // (16) a completed datagram is the one its key stands for, and its buffer is freed
        r matches ReceivePacketResult::Complete(h, m) ==> ((header.flags.mf() || header.fragment_offset != 0) ==> m@ == ds[BufId { src: header.source, dst: header.destination, protocol: header.protocol, identification: header.identification }])
            && !final(self).segments@.contains_key(BufId { src: header.source, dst: header.destination, protocol: header.protocol, identification: header.identification }),   //# completed_datagram_is_its_own_and_frees_the_buffer [C11]
        // (18) otherwise the buffer stays and the caller gets its key and epoch for the expiry timer
        r matches ReceivePacketResult::Incomplete(t, k, e) ==> k == (BufId { src: header.source, dst: header.destination, protocol: header.protocol, identification: header.identification })
            && final(self).segments@.contains_key(k) && final(self).segments@[k].epoch == e,   //# incomplete_reports_key_and_epoch [C11]
//@ end
}

} // verus!

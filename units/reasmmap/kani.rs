// Witnesses for ipv4/reassembly.rs - injected (add-only) as `mod vx_kani_reasmmap`.
//   kind=witness : fragment / reassemble scenarios on the real code through the public Reassembly API, replayed when a
//   paired Verus obligation of units reasm / reasmmap fails (Kani is infeasible on Message + BinaryHeap)
use super::*;

#[cfg(vx_replay)]
#[path = "/verif/units/reasm/w/refragmentation.rs"]
mod w_refragmentation;
#[cfg(vx_replay)]
#[path = "/verif/units/reasm/w/duplicates.rs"]
mod w_duplicates;

//# id=witness.missing_block_is_waited_for props=C11 kind=witness pair=reasm.Segment.receive_packet.marks_exactly_the_fragments_blocks,reasm.Segment.receive_packet.returns_iff_complete,reasm.Segment.receive_packet.safety
// a datagram is not returned while a single 8-octet fragment is still missing (fragments whose length is a multiple of 8)
#[cfg(vx_replay)]
#[test]
fn h_w_missing_block() {
    w_refragmentation::missing_single_block_fragment_is_waited_for();
}

//# id=witness.duplicated_fragments_do_not_change_the_payload props=C11 kind=witness pair=reasm.BitVec.range_complete.all_bits_of_the_range_set,reasm.Segment.receive_packet.returns_the_original_payload,reasm.Segment.receive_packet.safety
// a fragment that arrives twice is recorded once: the reassembled payload is the original, byte for byte
#[cfg(vx_replay)]
#[test]
fn h_w_duplicates() {
    w_duplicates::duplicate_of_highest_byte_aligned_fragment();
    w_duplicates::duplicate_of_unaligned_fragment();
}

// ---------------------------------------------------------------------------
// BOUNDED stand-in for the reassembler (kind=witness: never run by Kani, never counted as proved).  Run on the real code only
// when a Verus unit of C11 (reasm / reasmmap) cannot ingest a changed function: 1500 pseudo-random histories in which two
// or three datagrams that differ in identification (payload 1..=3000 octets) are fragmented by the real fragmenter for a
// random MTU (68..=700), their fragments interleaved, permuted and repeated at random and fed to one Reassembly: a
// datagram is returned exactly by the arrival that completes the set of its distinct fragments, with the original header
// and payload; repetitions after completion start a new round and return nothing by themselves.
// ---------------------------------------------------------------------------
//# id=witness.reassembler_matches_the_coverage_model props=C11 kind=witness pair=reasm.Segment.receive_packet.returns_iff_complete,reasm.Segment.receive_packet.returns_the_original_payload,reasm.Segment.receive_packet.marks_exactly_the_fragments_blocks,reasm.Segment.receive_packet.safety,reasm.BitVec.set_range.safety,reasm.BitVec.range_complete.all_bits_of_the_range_set,reasm.BitVec.complete.all_low_bits_set,reasmmap.Reassembly.receive_packet.safety
#[cfg(vx_replay)]
#[test]
fn h_w_reasm_model() {
    use crate::protocols::ipv4::{fragmentation::{fragment, Fragments}, test_header_builder::TestHeaderBuilder};
    let mut s: u64 = 0x0fed_cba9_8765_4321;
    let mut next = |n: usize| { s = s.wrapping_mul(6364136223846793005).wrapping_add(1442695040888963407); ((s >> 33) as usize) % n.max(1) };
    for case in 0..1500 {
        let n_dgrams = 2 + next(2);
        let mut reassembly = Reassembly::new();
        let mut frags: Vec<Vec<(Ipv4Header, Message)>> = Vec::new();
        let mut originals: Vec<(Ipv4Header, Vec<u8>)> = Vec::new();
        for d in 0..n_dgrams {
            let len = (1 + next(3000)) as u16;
            let bytes: Vec<u8> = (0..len).map(|i| (i as u32 * 13 + d as u32 * 101 + case as u32) as u8).collect();
            let mut header = TestHeaderBuilder::new(len).ihl().build();
            // the datagrams differ in exactly one component of the buffer key, chosen so that a key that drops or folds
            // a component collides: identification (low byte equal, high byte different; or low byte different), protocol,
            // source, destination
            match case % 5 {
                0 => header.identification = 0x0034 + ((d as u16) << 8),
                1 => header.identification = 1000 + d as u16,
                2 => { header.identification = if d == 0 { 0x1100 } else { 0x0600 + ((d as u16 - 1) << 12) }; header.protocol = if d == 0 { 6 } else { 17 }; }
                3 => { header.identification = 77; header.source = crate::protocols::ipv4::Ipv4Address::new([10, 0, d as u8, 1]); }
                _ => { header.identification = 77; header.destination = crate::protocols::ipv4::Ipv4Address::new([10, d as u8, 0, 9]); }
            }
            if originals.iter().any(|(h, _): &(Ipv4Header, Vec<u8>)| (h.identification, h.protocol, h.source, h.destination) == (header.identification, header.protocol, header.source, header.destination)) {
                header.identification = header.identification.wrapping_add(0x4000 + d as u16);
            }
            let mtu = 68 + next(633) as u16;
            let fs = match fragment(header, Message::new(bytes.clone()), mtu) {
                Fragments::Fragmented(fs) => fs,
                Fragments::DontFragment(f) => vec![f],
                Fragments::Discard => panic!("discarded"),
            };
            frags.push(fs);
            originals.push((header, bytes));
        }
        // arrival order: every fragment at least once, some several times, interleaved across the datagrams
        let mut arrivals: Vec<(usize, usize)> = Vec::new();
        for (d, fs) in frags.iter().enumerate() { for k in 0..fs.len() { for _ in 0..(1 + (next(4) == 0) as usize + (next(9) == 0) as usize) { arrivals.push((d, k)); } } }
        for i in (1..arrivals.len()).rev() { let j = next(i + 1); arrivals.swap(i, j); }
        let mut seen: Vec<std::collections::BTreeSet<usize>> = vec![Default::default(); n_dgrams];
        for (step, (d, k)) in arrivals.iter().cloned().enumerate() {
            let (h, b) = frags[d][k].clone();
            seen[d].insert(k);
            let completes = seen[d].len() == frags[d].len();
            match reassembly.receive_packet(h, b) {
                ReceivePacketResult::Complete(rh, rm) => {
                    assert!(completes, "case {case} step {step}: datagram {d} returned although only {} of {} distinct fragments arrived since its last completion", seen[d].len(), frags[d].len());
                    assert_eq!(rh, originals[d].0, "case {case} step {step}: header of the returned datagram");
                    assert_eq!(rm.to_vec(), originals[d].1, "case {case} step {step}: payload of the returned datagram (datagram {d}, {} fragments)", frags[d].len());
                    seen[d].clear();
                }
                ReceivePacketResult::Incomplete(..) => {
                    assert!(!completes, "case {case} step {step}: all {} fragments of datagram {d} have arrived but no datagram was returned", frags[d].len());
                }
            }
        }
    }
}

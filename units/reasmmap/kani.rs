// Witnesses for ipv4/reassembly.rs - injected (add-only) as `mod vx_kani_reasmmap`.
//   kind=witness : fragment / reassemble scenarios on the real code through the public Reassembly API, replayed when a
//   paired Verus obligation of units reasm / reasmmap fails (Kani is infeasible on Message + BinaryHeap)
use super::*;

#[cfg(vx_replay)]
#[path = "/verif/units/reasm/w/refragmentation.rs"]
mod w_refragmentation;
#[cfg(vx_replay)]
#[path = "/verif/units/reasm/w/duplicates.rs"]
mod w_duplicates;

//# id=witness.missing_block_is_waited_for props=C11 kind=witness pair=reasm.Segment.receive_packet.marks_exactly_the_fragments_blocks,reasm.Segment.receive_packet.returns_iff_complete,reasm.Segment.receive_packet.safety
// a datagram is not returned while a single 8-octet fragment is still missing (fragments whose length is a multiple of 8)
#[cfg(vx_replay)]
#[test]
fn h_w_missing_block() {
    w_refragmentation::missing_single_block_fragment_is_waited_for();
}

//# id=witness.duplicated_fragments_do_not_change_the_payload props=C11 kind=witness pair=reasm.BitVec.range_complete.all_bits_of_the_range_set,reasm.Segment.receive_packet.returns_the_original_payload,reasm.Segment.receive_packet.safety
// a fragment that arrives twice is recorded once: the reassembled payload is the original, byte for byte
#[cfg(vx_replay)]
#[test]
fn h_w_duplicates() {
    w_duplicates::duplicate_of_highest_byte_aligned_fragment();
    w_duplicates::duplicate_of_unaligned_fragment();
}

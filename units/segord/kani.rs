// Kani harness for tcp/tcb/segment.rs — injected (add-only) as `mod vx_kani_segord`.
// Loop-free over all pairs of sequence numbers => complete.
use super::*;
#[path = "/verif/vx/kani_support.rs"]
mod sup;
use sup::*;
use crate::protocols::tcp::tcp_parsing::TcpHeaderBuilder;
use crate::protocols::ipv4::Ipv4Address;

fn seg(seq: u32) -> Segment {
    let a = Ipv4Address::new([10, 0, 0, 1]);
    Segment::new(TcpHeaderBuilder::new(1, 2, seq).build(a, a, [].into_iter(), 0).unwrap(), Message::default())
}

//# id=segment.order_is_circular_and_shift_invariant fns=Segment::cmp+partial_cmp+eq props=C12,C01,C02 kind=complete pair=tcb.Segment.cmp.safety,tcb.Segment.partial_cmp.safety,tcb.Segment.eq.safety,tcb.lemma.lemma_seg_cmp_shift
#[cfg_attr(kani, kani::proof)]
#[cfg_attr(vx_replay, test)]
fn h_segment_order() {
    let (a, b, k): (u32, u32, u32) = (any(), any(), any());
    let d = (b as u64 + (1u64 << 32) - a as u64) % (1u64 << 32);
    let want = if a == b { Ordering::Equal } else if 0 < d && d < (1u64 << 31) { Ordering::Greater } else { Ordering::Less };
    // the segment that comes first in the circular sequence space is popped first by the max-heap
    assert_eq!(seg(a).cmp(&seg(b)), want);
    assert_eq!(seg(a).partial_cmp(&seg(b)), Some(want));
    assert_eq!(seg(a) == seg(b), a == b);
    // independent of absolute sequence numbers
    assert_eq!(seg(a.wrapping_add(k)).cmp(&seg(b.wrapping_add(k))), want);
}

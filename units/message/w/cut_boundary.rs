// Witness scenario (ported mechanically from seeded/C07-1: `#[test] fn` -> `pub fn`, crate paths adjusted); runs only under
// --cfg vx_replay, as a concrete call sequence on the real code when a paired Verus obligation fails.
#![allow(dead_code, unused_imports, unused_must_use)]
//! Checks `Message::cut` against a plain `Vec<u8>` model when the cut point
//! falls exactly on a chunk boundary (including `cut(0)`).

use crate::message::Message;

/// Builds a message out of several chunks and the equivalent byte vector.
fn chunked(parts: &[&[u8]]) -> (Message, Vec<u8>) {
    let mut message = Message::new(parts[0]);
    let mut model = parts[0].to_vec();
    for part in &parts[1..] {
        message.concatenate(Message::new(*part));
        model.extend_from_slice(part);
    }
    (message, model)
}

fn check_cut(parts: &[&[u8]], at: usize) {
    let (mut message, mut model) = chunked(parts);
    let untouched = message.clone();

    let front = message.cut(at);
    let model_rest = model.split_off(at);
    let model_front = model;

    assert_eq!(front.len(), model_front.len(), "front len, cut({at})");
    assert_eq!(front.to_vec(), model_front, "front bytes, cut({at})");
    assert_eq!(message.len(), model_rest.len(), "rest len, cut({at})");
    assert_eq!(message.to_vec(), model_rest, "rest bytes, cut({at})");
    assert_eq!(message.iter().count(), message.len(), "iter/len, cut({at})");
    assert_eq!(message, Message::new(model_rest), "rest eq, cut({at})");

    // The clone taken before the cut must be unaffected
    let whole: Vec<u8> = parts.concat();
    assert_eq!(untouched.len(), whole.len(), "clone len, cut({at})");
    assert_eq!(untouched.to_vec(), whole, "clone bytes, cut({at})");
}

pub fn cut_header_off_exactly() {
    let mut message = Message::new(b"body");
    message.header(b"header");
    let header = message.cut(6);
    assert_eq!(header.to_vec(), b"header");
    assert_eq!(message.len(), 4);
    assert_eq!(message.to_vec(), b"body");
}

pub fn cut_zero_is_a_no_op() {
    let mut message = Message::new(b"payload");
    let nothing = message.cut(0);
    assert!(nothing.is_empty());
    assert_eq!(nothing.to_vec(), b"");
    assert_eq!(message.len(), 7);
    assert_eq!(message.to_vec(), b"payload");
}

pub fn cut_every_position_matches_vec_model() {
    let parts: &[&[u8]] = &[b"abc", b"", b"defg", b"hi"];
    let total: usize = parts.iter().map(|p| p.len()).sum();
    for at in 0..=total {
        check_cut(parts, at);
    }
}

//@ unit message props=C07
//@ include vx/prelude.rs
use std::collections::VecDeque;
use std::sync::Arc;
use vstd::std_specs::convert::*;
use vstd::std_specs::iter::IteratorSpec;
verus! {

// ---------------------------------------------------------------------------
// Assumed specifications of std (not covered by vstd)
// ---------------------------------------------------------------------------
pub assume_specification<T, A: std::alloc::Allocator> [std::collections::VecDeque::<T, A>::front_mut] (v: &mut std::collections::VecDeque<T, A>) -> (r: std::option::Option<&mut T>)
    ensures
        old(v)@.len() == 0 ==> r is None && final(v)@ == old(v)@,
        old(v)@.len() > 0 ==> r is Some && *r.unwrap() == old(v)@[0] && final(v)@ == old(v)@.update(0, *final(r.unwrap())),
;
pub assume_specification<T, A: std::alloc::Allocator> [std::collections::VecDeque::<T, A>::front] (v: &std::collections::VecDeque<T, A>) -> (r: std::option::Option<&T>)
    ensures
        v@.len() == 0 ==> r is None,
        v@.len() > 0 ==> r is Some && *r.unwrap() == v@[0],
;

/// derive(Clone) on Chunk: field-wise clone; Arc::clone shares the same Vec.
/// (Verus does not attach a spec to a derived non-Copy Clone; the call is
/// routed here by a declared rewrite.)
#[verifier::external_body]
pub fn vx_chunk_clone(c: &Chunk) -> (r: Chunk)
    ensures r == *c,
{ c.clone() }

// ---------------------------------------------------------------------------
// Abstraction: a chunk denotes bytes[start..end]; a message denotes the
// concatenation of its chunks.
// ---------------------------------------------------------------------------
//@ opaque-when-imported
pub open spec fn flat(cs: Seq<Chunk>) -> Seq<u8>
    decreases cs.len()
{
    if cs.len() == 0 { Seq::empty() } else { cs[0].view() + flat(cs.subrange(1, cs.len() as int)) }
}
//@ opaque-when-imported
pub open spec fn all_wf(cs: Seq<Chunk>) -> bool { forall|i: int| 0 <= i < cs.len() ==> (#[trigger] cs[i]).wf() }

pub proof fn lemma_flat_cons(c: Chunk, cs: Seq<Chunk>)
    ensures flat(seq![c] + cs) == c.view() + flat(cs),
{
    let s = seq![c] + cs;
    assert(s.subrange(1, s.len() as int) =~= cs);
}

pub proof fn lemma_flat_append(a: Seq<Chunk>, b: Seq<Chunk>)
    ensures flat(a + b) == flat(a) + flat(b),
    decreases a.len(),
{
    if a.len() == 0 {
        assert(a + b =~= b);
        assert(flat(a) + flat(b) =~= flat(b));
    } else {
        let s = a + b;
        let a1 = a.subrange(1, a.len() as int);
        assert(s.subrange(1, s.len() as int) =~= a1 + b);
        lemma_flat_append(a1, b);
        assert(s[0] == a[0]);
        assert(flat(s) =~= a[0].view() + (flat(a1) + flat(b)));
        assert(flat(a) + flat(b) =~= a[0].view() + (flat(a1) + flat(b)));
    }
}

pub proof fn lemma_flat_one(c: Chunk)
    ensures flat(seq![c]) == c.view(),
{
    let s = seq![c];
    reveal_with_fuel(flat, 2);
    assert(s.subrange(1, 1) =~= Seq::<Chunk>::empty());
    assert(flat(s) =~= c.view() + Seq::<u8>::empty());
    assert(c.view() + Seq::<u8>::empty() =~= c.view());
}

pub proof fn lemma_flat_push(cs: Seq<Chunk>, c: Chunk)
    ensures flat(cs.push(c)) == flat(cs) + c.view(),
{
    assert(cs.push(c) =~= cs + seq![c]);
    lemma_flat_append(cs, seq![c]);
    lemma_flat_one(c);
}

pub proof fn lemma_flat_split(cs: Seq<Chunk>, i: int)
    requires 0 <= i <= cs.len(),
    ensures flat(cs) == flat(cs.subrange(0, i)) + flat(cs.subrange(i, cs.len() as int)),
{
    assert(cs =~= cs.subrange(0, i) + cs.subrange(i, cs.len() as int));
    lemma_flat_append(cs.subrange(0, i), cs.subrange(i, cs.len() as int));
}

pub proof fn lemma_flat_len_wf(cs: Seq<Chunk>)
    ensures flat(cs).len() >= 0,
{}

// ---------------------------------------------------------------------------
// message/chunk.rs
// ---------------------------------------------------------------------------
//@ item sim/elvis-core/src/message/chunk.rs :: struct Chunk
//@ rewrite `pub\(super\) ` => `pub ` ## visibility only
//@ rewrite `#\[derive\(Debug, Clone\)\]` => `#[verifier::allow(autoderive_clone_without_spec)] #[derive(Debug, Clone)]` ## silences the Verus note that the derived Clone gets no spec (clone calls go through vx_chunk_clone)
//@ end

impl Chunk {
    pub open spec fn wf(&self) -> bool { self.start <= self.end <= self.bytes@.len() }
    pub open spec fn view(&self) -> Seq<u8> { self.bytes@.subrange(self.start as int, self.end as int) }

//@ item sim/elvis-core/src/message/chunk.rs :: impl Chunk / fn new id=Chunk.new
//@ contract
    ensures r.wf(), r@ == bytes@,   //# denotes_its_bytes [C07]
//@ end
//@ item sim/elvis-core/src/message/chunk.rs :: impl Chunk / fn as_slice id=Chunk.as_slice
//@ contract
    requires self.wf(),
    ensures r@ == self@,   //# slice_is_view [C07]
//@ end
//@ item sim/elvis-core/src/message/chunk.rs :: impl Chunk / fn len id=Chunk.len
//@ contract
    requires self.wf(),
    ensures r == self@.len(),   //# len_is_view_len [C07]
//@ end
//@ item sim/elvis-core/src/message/chunk.rs :: impl Chunk / fn is_empty id=Chunk.is_empty
//@ contract
    requires self.wf(),
    ensures r == (self@.len() == 0),
//@ end
}


// ---------------------------------------------------------------------------
// message/slice_range.rs
// ---------------------------------------------------------------------------
//@ item sim/elvis-core/src/message/slice_range.rs :: struct SliceRange strip-attrs
//@ end

use std::ops::{Range, RangeFrom, RangeFull, RangeInclusive, RangeTo, RangeToInclusive};

/// the (start, end) pair of byte offsets a SliceRange selects in a message of length n
pub open spec fn sr_lo(r: SliceRange) -> int { r.start as int }
pub open spec fn sr_hi(r: SliceRange, n: int) -> int { match r.len { Some(l) => r.start + l, None => n } }

impl FromSpecImpl<Range<usize>> for SliceRange {
    open spec fn obeys_from_spec() -> bool { true }
    open spec fn from_spec(r: Range<usize>) -> Self { SliceRange { start: r.start, len: Some(if r.end >= r.start { (r.end - r.start) as usize } else { 0usize }) } }   // a..b selects [a, b)
}
impl FromSpecImpl<RangeFrom<usize>> for SliceRange {
    open spec fn obeys_from_spec() -> bool { true }
    open spec fn from_spec(r: RangeFrom<usize>) -> Self { SliceRange { start: r.start, len: None } }   // a.. selects [a, n)
}
impl FromSpecImpl<RangeFull> for SliceRange {
    open spec fn obeys_from_spec() -> bool { true }
    open spec fn from_spec(r: RangeFull) -> Self { SliceRange { start: 0, len: None } }   // .. selects [0, n)
}
impl FromSpecImpl<RangeTo<usize>> for SliceRange {
    open spec fn obeys_from_spec() -> bool { true }
    open spec fn from_spec(r: RangeTo<usize>) -> Self { SliceRange { start: 0, len: Some(r.end) } }   // ..b selects [0, b)
}

//@ item sim/elvis-core/src/message/slice_range.rs :: impl From<Range<usize>> for SliceRange id=SliceRange.from_Range props=C07
//@ end
//@ item sim/elvis-core/src/message/slice_range.rs :: impl From<RangeFrom<usize>> for SliceRange id=SliceRange.from_RangeFrom props=C07
//@ end
//@ item sim/elvis-core/src/message/slice_range.rs :: impl From<RangeFull> for SliceRange id=SliceRange.from_RangeFull props=C07
//@ rewrite `fn from\(_: RangeFull\)` => `fn from(_r: RangeFull)` ## Verus needs a named parameter
//@ end
//@ item sim/elvis-core/src/message/slice_range.rs :: impl From<RangeTo<usize>> for SliceRange id=SliceRange.from_RangeTo props=C07
//@ end

// ---------------------------------------------------------------------------
// message.rs
// ---------------------------------------------------------------------------
//@ item sim/elvis-core/src/message.rs :: struct Message
//@ rewrite `#\[derive\(Clone, Default\)\]` => `#[verifier::allow(autoderive_clone_without_spec)] #[derive(Clone, Default)]` ## silences the Verus note that the derived Clone gets no spec
//@ rewrite `(\n\s*)chunks: VecDeque<Chunk>,` => `\1pub chunks: VecDeque<Chunk>,` ## visibility only
//@ rewrite `(\n\s*)len: usize,` => `\1pub len: usize,` ## visibility only
//@ end

impl Message {
    /// the byte string this message denotes
    pub open spec fn view(&self) -> Seq<u8> { flat(self.chunks@) }
    /// representation invariant
    pub open spec fn wf(&self) -> bool { all_wf(self.chunks@) && self.len == flat(self.chunks@).len() }

//@ item sim/elvis-core/src/message.rs :: impl Message / fn new_inner id=Message.new_inner
//@ contract
    requires body.wf(),
    ensures r.wf(), r@ == body@,   //# denotes_body [C07]
//@ after 1 `chunks.push_back(body);`
        proof { lemma_flat_one(body); assert(chunks@ =~= seq![body]); }
//@ end

//@ item sim/elvis-core/src/message.rs :: impl Message / fn header_inner id=Message.header_inner
//@ contract
    requires old(self).wf(), header.wf(), old(self)@.len() + header@.len() <= usize::MAX,
    ensures final(self).wf(), final(self)@ == header@ + old(self)@,   //# prepends [C07,C16]
//@ after 1 `self.chunks.push_front(header);`
        proof {
            assert(self.chunks@ =~= seq![header] + old(self).chunks@);
            lemma_flat_cons(header, old(self).chunks@);
        }
//@ end

//@ item sim/elvis-core/src/message.rs :: impl Message / fn concatenate id=Message.concatenate
//@ contract
    requires old(self).wf(), other.wf(), old(self)@.len() + other@.len() <= usize::MAX,
    ensures final(self).wf(), final(self)@ == old(self)@ + other@,   //# appends [C07]
//@ start
        let ghost other0 = other.chunks@;
//@ after 1 `self.chunks.append(&mut other.chunks);`
        proof { lemma_flat_append(old(self).chunks@, other0); }
//@ end

//@ item sim/elvis-core/src/message.rs :: impl Message / fn slice_inner id=Message.slice_inner
//@ rewrite `for chunk in self\.chunks\.iter_mut\(\) \{` => `while i < self.chunks.len() { let chunk = &mut self.chunks[i];` ## VecDeque::iter_mut is outside Verus; `i` already counts the chunks visited, so the loop is expressed as an index loop (assumes iter_mut visits front to back once)
//@ rewrite `self\.chunks\.drain\(i\.\.\);` => `self.chunks.truncate(i);` ## dropping the Drain of a tail range is truncate (std docs)
//@ contract
    requires
        old(self).wf(),
        range.start + (match range.len { Some(l) => l as int, None => 0 }) <= old(self)@.len(),
    ensures
        final(self).wf(),
        final(self)@ == old(self)@.subrange(range.start as int, match range.len { Some(l) => range.start + l, None => old(self)@.len() as int }),   //# is_subrange [C07]
//@ before 1 `while let Some(head) = self.chunks.front()`
        let ghost orig = old(self)@;
        let ghost s0 = start;
        let ghost tail = orig.subrange(s0 as int, orig.len() as int);
        proof { assert(flat(self.chunks@).subrange(start as int, flat(self.chunks@).len() as int) =~= tail); }
//@ loop 1
            invariant_except_break
                all_wf(self.chunks@),
                start <= flat(self.chunks@).len(),
                flat(self.chunks@).subrange(start as int, flat(self.chunks@).len() as int) == tail,
            ensures
                all_wf(self.chunks@),
                start <= flat(self.chunks@).len(),
                flat(self.chunks@).subrange(start as int, flat(self.chunks@).len() as int) == tail,
                self.chunks@.len() > 0 ==> start < self.chunks@[0]@.len() || (start == 0 && self.chunks@[0]@.len() == 0 && false),
            decreases self.chunks@.len(),
//@ before 1 `let head_len = head.len();`
            let ghost cs0 = self.chunks@;
            let ghost head0 = *head;
            let ghost rest = cs0.subrange(1, cs0.len() as int);
            let ghost st0 = start;
            proof {
                assert(cs0 =~= seq![head0] + rest);
                lemma_flat_cons(head0, rest);
            }
//@ after 1 `self.chunks.pop_front();`
                proof {
                    assert(self.chunks@ =~= rest);
                    let f0 = flat(cs0);
                    assert(f0.subrange(st0 as int, f0.len() as int) =~= flat(rest).subrange(start as int, flat(rest).len() as int));
                }
//@ before 1 `if let Some(head) = self.chunks.front_mut()`
        let ghost cs1 = self.chunks@;
        let ghost st1 = start;
//@ before 1 `let mut bytes_to_keep = self.len;`
        proof {
            // after advancing the first chunk's start, the queue denotes exactly the tail
            if cs1.len() > 0 {
                let h1 = self.chunks@[0];
                let rest1 = cs1.subrange(1, cs1.len() as int);
                assert(cs1 =~= seq![cs1[0]] + rest1);
                lemma_flat_cons(cs1[0], rest1);
                assert(self.chunks@ =~= seq![h1] + rest1);
                lemma_flat_cons(h1, rest1);
                assert(h1@ =~= cs1[0]@.subrange(st1 as int, cs1[0]@.len() as int));
                let f1 = flat(cs1);
                assert(f1.subrange(st1 as int, f1.len() as int) =~= h1@ + flat(rest1));
            } else {
                assert(flat(cs1).subrange(0, 0) =~= flat(cs1));
            }
            assert(flat(self.chunks@) == tail);
        }
        let ghost gs = self.chunks@;
        let ghost want = self.len;
//@ loop 2
            invariant_except_break
                gs == self.chunks@,
                all_wf(gs),
                flat(gs) == tail,
                want <= tail.len(),
                self.len == want,
                i <= gs.len(),
                bytes_to_keep + flat(gs.subrange(0, i as int)).len() == want,
            ensures
                all_wf(self.chunks@),
                self.len == want,
                i <= self.chunks@.len(),
                (flat(self.chunks@.subrange(0, i as int)) == tail.subrange(0, want as int))
                    || (self.chunks@ == gs && i == gs.len() && bytes_to_keep + flat(gs.subrange(0, i as int)).len() == want),
            decreases gs.len() - i,
//@ before 1 `i += 1;`
            let ghost c0 = *chunk;
            let ghost i0 = i;
            let ghost btk0 = bytes_to_keep;
            proof {
                assert(gs.subrange(0, i0 + 1) =~= gs.subrange(0, i0 as int).push(c0));
                lemma_flat_push(gs.subrange(0, i0 as int), c0);
                lemma_flat_split(gs, i0 + 1);
            }
//@ before 2 `break;`
                proof {
                    let cs2 = self.chunks@;
                    let c1 = cs2[i0 as int];
                    assert(cs2.subrange(0, i0 + 1) =~= gs.subrange(0, i0 as int).push(c1));
                    lemma_flat_push(gs.subrange(0, i0 as int), c1);
                    assert(c1@ =~= c0@.subrange(0, btk0 as int));
                    let pre = flat(gs.subrange(0, i0 as int));
                    let post = flat(gs.subrange(i0 + 1, gs.len() as int));
                    assert(tail =~= (pre + c0@) + post);
                    assert(tail.subrange(0, want as int) =~= pre + c1@);
                }
//@ before 1 `self.chunks.truncate(i);`
        proof {
            if i == gs.len() && self.chunks@ == gs && bytes_to_keep + flat(gs.subrange(0, i as int)).len() == want {
                // loop ran to completion: everything is kept
                assert(gs.subrange(0, i as int) =~= gs);
                assert(tail.subrange(0, want as int) =~= tail);
            }
            assert(flat(self.chunks@.subrange(0, i as int)) == tail.subrange(0, want as int));
            assert(tail.subrange(0, want as int) =~= orig.subrange(s0 as int, s0 + want));
        }
//@ end

//@ item sim/elvis-core/src/message.rs :: impl Message / fn cut id=Message.cut
//@ rewrite `\bhead\.clone\(\)` => `vx_chunk_clone(&head)` ## derived Clone has no Verus spec; routed through the contract-carrying wrapper
//@ contract
    requires old(self).wf(), len <= old(self)@.len(),
    ensures
        final(self).wf(), r.wf(),
        r@ == old(self)@.subrange(0, len as int),                               //# returns_prefix [C07,C10]
        final(self)@ == old(self)@.subrange(len as int, old(self)@.len() as int),   //# keeps_suffix [C07,C10]
//@ loop 1
            invariant_except_break
                all_wf(self.chunks@), all_wf(chunks@),
                flat(chunks@) + flat(self.chunks@) == old(self)@,
                flat(chunks@).len() + to_remove == len,
                to_remove <= flat(self.chunks@).len(),
            ensures
                all_wf(self.chunks@), all_wf(chunks@),
                flat(chunks@) == old(self)@.subrange(0, len as int),
                flat(self.chunks@) == old(self)@.subrange(len as int, old(self)@.len() as int),
            decreases self.chunks@.len(),
//@ before 1 `let head_len = head.len();`
            let ghost rest = self.chunks@;
            let ghost out0 = chunks@;
            let ghost head0 = head;
            proof {
                lemma_flat_cons(head, rest);
                assert(flat(out0) + (head0@ + flat(rest)) == old(self)@);
            }
//@ after 1 `chunks.push_back(head);`
                proof {
                    lemma_flat_push(out0, head0);
                    assert((flat(out0) + head0@) + flat(rest) =~= flat(out0) + (head0@ + flat(rest)));
                }
//@ before 1 `break;`
                proof {
                    let orig = old(self)@;
                    let a = head0.bytes@.subrange(head0.start as int, head0.start + to_remove);
                    let b = head0.bytes@.subrange(head0.start + to_remove, head0.end as int);
                    assert(head0@ =~= a + b);
                    assert(head@ == b);
                    lemma_flat_cons(head, rest);
                    assert(self.chunks@ =~= seq![head] + rest);
                    if to_remove > 0 {
                        assert(flat(chunks@) == flat(out0) + a) by {
                            let h2 = Chunk { start: head0.start, end: (head0.start + to_remove) as usize, bytes: head0.bytes };
                            assert(chunks@ =~= out0.push(h2));
                            lemma_flat_push(out0, h2);
                        }
                    } else {
                        assert(a =~= Seq::<u8>::empty());
                        assert(flat(out0) + a =~= flat(out0));
                    }
                    assert(flat(out0) + (a + b + flat(rest)) =~= (flat(out0) + a) + (b + flat(rest)));
                    assert((flat(out0) + a) + (b + flat(rest)) == orig);
                    assert((flat(out0) + a).len() == len);
                    assert(orig.subrange(0, len as int) =~= flat(out0) + a);
                    assert(orig.subrange(len as int, orig.len() as int) =~= b + flat(rest));
                }
//@ end

//@ item sim/elvis-core/src/message.rs :: impl Message / fn remove_front id=Message.remove_front
//@ contract
    requires old(self).wf(), len <= old(self)@.len(),
    ensures
        final(self).wf(),
        final(self)@ == old(self)@.subrange(len as int, old(self)@.len() as int),   //# keeps_suffix [C07]
//@ before 1 `while let Some(head) = self.chunks.front_mut()`
        let ghost mut gs = self.chunks@;   // names the queue at the loop head (self is mutably borrowed inside the body)
//@ loop 1
            invariant_except_break
                gs == self.chunks@,
                all_wf(self.chunks@),
                to_remove <= flat(self.chunks@).len(),
                self.len + to_remove == flat(self.chunks@).len(),
                flat(self.chunks@).subrange(to_remove as int, flat(self.chunks@).len() as int) == old(self)@.subrange(len as int, old(self)@.len() as int),
            ensures
                all_wf(self.chunks@),
                self.len == flat(self.chunks@).len(),
                flat(self.chunks@) == old(self)@.subrange(len as int, old(self)@.len() as int),
            decreases self.chunks@.len(),
//@ before 1 `let head_len = head.len();`
            let ghost head0 = *head;
            let ghost rest = gs.subrange(1, gs.len() as int);
            let ghost tr0 = to_remove;
            proof {
                assert(gs =~= seq![head0] + rest);
                lemma_flat_cons(head0, rest);
            }
//@ after 1 `self.chunks.pop_front();`
                proof {
                    assert(self.chunks@ =~= rest);
                    let f0 = flat(gs);
                    assert(f0.subrange(tr0 as int, f0.len() as int) =~= flat(rest).subrange(to_remove as int, flat(rest).len() as int));
                    gs = self.chunks@;
                }
//@ before 1 `break;`
                proof {
                    let cs1 = self.chunks@;
                    let h1 = cs1[0];
                    assert(cs1 =~= seq![h1] + rest);
                    lemma_flat_cons(h1, rest);
                    let f0 = flat(gs);
                    assert(h1@ =~= head0@.subrange(to_remove as int, head0@.len() as int));
                    assert(f0.subrange(to_remove as int, f0.len() as int) =~= h1@ + flat(rest));
                }
//@ end

//@ item sim/elvis-core/src/message.rs :: impl Message / fn iter id=Message.iter mode=sig
//@ contract
    // ASSUMED (body not verified: VecDeque::iter().flat_map(closure) adapter chain):
    // the iterator yields exactly the bytes the message denotes, front to back
    ensures self.wf() ==> (r.obeys_prophetic_iter_laws() && r.remaining() == self@),
//@ end

//@ item sim/elvis-core/src/message.rs :: impl Message / fn to_vec id=Message.to_vec mode=sig
//@ contract
    // ASSUMED (body `self.iter().collect()` not verified: Iterator::collect is outside Verus)
    requires self.wf(),
    ensures r@ == self@,
//@ end

//@ item sim/elvis-core/src/message.rs :: impl Message / fn len id=Message.len
//@ contract
    requires self.wf(),
    ensures r == self@.len(),   //# len_is_view_len [C07]
//@ end
//@ item sim/elvis-core/src/message.rs :: impl Message / fn is_empty id=Message.is_empty
//@ contract
    requires self.wf(),
    ensures r == (self@.len() == 0),   //# empty_iff_no_bytes [C07]
//@ end
}


/// Iterator::eq on two byte iterators: element-wise comparison of what they yield.  ASSUMED (Iterator::eq is a
/// generic trait method that cannot be given an assume_specification); reached through a declared rewrite.
#[verifier::external_body]
pub fn vx_bytes_eq<I: Iterator<Item = u8>, J: Iterator<Item = u8>>(a: I, b: J) -> (r: bool)
    ensures (a.obeys_prophetic_iter_laws() && b.obeys_prophetic_iter_laws()) ==> r == (a.remaining() == b.remaining()),
{ a.eq(b) }

impl vstd::std_specs::cmp::PartialEqSpecImpl for Message {
    open spec fn obeys_eq_spec() -> bool { false }   // `eq` needs both messages well-formed: contract is the `ensures` below
    open spec fn eq_spec(&self, other: &Self) -> bool { self@ == other@ }
}
impl PartialEq for Message {
//@ item sim/elvis-core/src/message.rs :: impl PartialEq for Message / fn eq id=Message.eq
//@ rewrite `self\.iter\(\)\.eq\(other\.iter\(\)\)` => `vx_bytes_eq(self.iter(), other.iter())` ## Iterator::eq routed through the assumed-contract wrapper
//@ contract
    // two well-formed messages are equal exactly when they denote the same bytes (whatever their chunk layouts)
    ensures (self.wf() && other.wf()) ==> r == (self@ == other@),   //# equal_iff_same_bytes [C07]
//@ end
}

} // verus!

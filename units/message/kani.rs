// Kani harnesses for message/slice_range.rs — injected (add-only) as
// `mod vx_kani_message` of slice_range.rs.  Loop-free, full domain => complete.
// (Harnesses over Message itself are infeasible in CBMC: VecDeque<Chunk> + Arc
// exhausted > 55 GB for 2 chunks x 2 bytes; Message is proved by Verus.)
use super::*;
#[path = "/verif/vx/kani_support.rs"]
mod sup;
use sup::*;

//# id=slice_range.from_all_range_forms fns=SliceRange::from(six range forms) props=C07 kind=complete pair=message.SliceRange.from_RangeFrom.safety,message.SliceRange.from_RangeFull.safety,message.SliceRange.from_RangeTo.safety
#[cfg_attr(kani, kani::proof)]
#[cfg_attr(vx_replay, test)]
fn h_slice_range_from() {
    let a: usize = any();
    let b: usize = any();
    // a..b  selects [a, b) (empty when b <= a)
    let r = SliceRange::from(a..b);
    assert!(r.start == a && r.len == Some(if b >= a { b - a } else { 0 }));
    // a..   selects [a, n)
    let r = SliceRange::from(a..);
    assert!(r.start == a && r.len.is_none());
    // ..    selects [0, n)
    let r = SliceRange::from(..);
    assert!(r.start == 0 && r.len.is_none());
    // ..b   selects [0, b)
    let r = SliceRange::from(..b);
    assert!(r.start == 0 && r.len == Some(b));
    // a..=b selects [a, b+1) ; ..=b selects [0, b+1)   (endpoints below usize::MAX, a <= b+1)
    vx_assume!(b < usize::MAX && a <= b + 1);
    let r = SliceRange::from(a..=b);
    assert!(r.start == a && r.len == Some(b + 1 - a));
    let r = SliceRange::from(..=b);
    assert!(r.start == 0 && r.len == Some(b + 1));
}

#[cfg(vx_replay)]
#[path = "/verif/units/message/w/cut_boundary.rs"]
mod w_cut_boundary;

//# id=witness.cut_matches_the_vector_model props=C07,C10 kind=witness pair=message.Message.cut.safety,message.Message.cut.returns_prefix,message.Message.cut.keeps_suffix
// cut at every position of multi-chunk messages behaves like splitting a plain vector
#[cfg(vx_replay)]
#[test]
fn h_w_cut_boundary() {
    w_cut_boundary::cut_header_off_exactly();
    w_cut_boundary::cut_zero_is_a_no_op();
    w_cut_boundary::cut_every_position_matches_vec_model();
}

// ---------------------------------------------------------------------------
// BOUNDED stand-in for the whole Message API (kind=witness: never run by Kani, never counted as proved).  It is run on the
// real code only when the Verus unit `message` cannot ingest a changed function (the unit is then UNDECIDED): 4000
// deterministic pseudo-random sequences of 24 operations over a pool of up to 6 messages that share buffers (clone /
// slice / cut / remove_front / header / concatenate / ==), each message compared after every step with a plain
// Vec<u8> model through len(), iter(), to_vec() and ==.  Bound: payloads of 0..=9 bytes, pool of 6, 24 steps, 4000
// seeds.
// ---------------------------------------------------------------------------
#[cfg(vx_replay)]
struct VxLcg(u64);
#[cfg(vx_replay)]
impl VxLcg {
    fn next(&mut self, n: usize) -> usize {
        self.0 = self.0.wrapping_mul(6364136223846793005).wrapping_add(1442695040888963407);
        ((self.0 >> 33) as usize) % n.max(1)
    }
}
#[cfg(vx_replay)]
fn vx_same(m: &crate::Message, v: &Vec<u8>, what: &str, seed: u64, step: usize) {
    assert_eq!(m.len(), v.len(), "len() after {what} (seed {seed}, step {step})");
    assert_eq!(m.is_empty(), v.is_empty(), "is_empty() after {what} (seed {seed}, step {step})");
    assert_eq!(&m.to_vec(), v, "to_vec() after {what} (seed {seed}, step {step})");
    assert!(m.iter().eq(v.iter().cloned()), "iter() after {what} (seed {seed}, step {step})");
}

//# id=witness.message_api_matches_the_vector_model props=C07 kind=witness pair=message.Message.concatenate.appends,message.Message.concatenate.safety,message.Message.slice_inner.is_subrange,message.Message.slice_inner.safety,message.Message.cut.returns_prefix,message.Message.cut.safety,message.Message.remove_front.keeps_suffix,message.Message.remove_front.safety,message.Message.header_inner.prepends,message.Message.eq.equal_iff_same_bytes,message.Message.eq.safety,message.Message.len.len_is_view_len,message.Message.new_inner.denotes_body
#[cfg(vx_replay)]
#[test]
fn h_w_message_model() {
    use crate::Message;
    for seed in 0..4000u64 {
        let mut g = VxLcg(seed.wrapping_mul(0x9e3779b97f4a7c15) ^ 0x5851f42d4c957f2d);
        let mut pool: Vec<(Message, Vec<u8>)> = Vec::new();
        let mut fresh: u8 = 0;
        for step in 0..24usize {
            let op = if pool.is_empty() { 0 } else { g.next(10) };
            let i = g.next(pool.len());
            let j = g.next(pool.len());
            match op {
                0 => {
                    let n = g.next(10);
                    let bytes: Vec<u8> = (0..n).map(|_| { fresh = fresh.wrapping_add(1); fresh }).collect();
                    let m = Message::new(bytes.clone());
                    vx_same(&m, &bytes, "new", seed, step);
                    if pool.len() < 6 { pool.push((m, bytes)); } else { pool[i] = (m, bytes); }
                }
                1 => {
                    let c = pool[i].clone();
                    vx_same(&c.0, &c.1, "clone", seed, step);
                    if pool.len() < 6 { pool.push(c); } else { pool[j] = c; }
                }
                2 => {
                    let (mut m, v) = pool[i].clone();
                    let a = g.next(v.len() + 1);
                    let b = a + g.next(v.len() + 1 - a);
                    match g.next(3) {
                        0 => { m.slice(a..b); let w = v[a..b].to_vec(); vx_same(&m, &w, "slice(a..b)", seed, step); pool[j] = (m, w); }
                        1 => { m.slice(a..); let w = v[a..].to_vec(); vx_same(&m, &w, "slice(a..)", seed, step); pool[j] = (m, w); }
                        _ => { m.slice(..b); let w = v[..b].to_vec(); vx_same(&m, &w, "slice(..b)", seed, step); pool[j] = (m, w); }
                    }
                }
                3 => {
                    let n = g.next(pool[i].1.len() + 1);
                    let front = pool[i].0.cut(n);
                    let fv: Vec<u8> = pool[i].1.drain(..n).collect();
                    vx_same(&front, &fv, "cut (front)", seed, step);
                    vx_same(&pool[i].0, &pool[i].1, "cut (rest)", seed, step);
                    if pool.len() < 6 { pool.push((front, fv)); } else if j != i { pool[j] = (front, fv); }
                }
                4 => {
                    let n = g.next(pool[i].1.len() + 1);
                    pool[i].0.remove_front(n);
                    pool[i].1.drain(..n);
                    vx_same(&pool[i].0, &pool[i].1, "remove_front", seed, step);
                }
                5 => {
                    let n = g.next(5);
                    let bytes: Vec<u8> = (0..n).map(|_| { fresh = fresh.wrapping_add(1); fresh }).collect();
                    pool[i].0.header(bytes.clone());
                    let mut w = bytes; w.extend_from_slice(&pool[i].1); pool[i].1 = w;
                    vx_same(&pool[i].0, &pool[i].1, "header", seed, step);
                }
                6 | 7 => {
                    let other = pool[j].clone();
                    pool[i].0.concatenate(other.0);
                    pool[i].1.extend_from_slice(&other.1);
                    vx_same(&pool[i].0, &pool[i].1, "concatenate", seed, step);
                    vx_same(&pool[j].0, &pool[j].1, "concatenate (the other operand's source)", seed, step);
                }
                8 => {
                    assert_eq!(pool[i].0 == pool[j].0, pool[i].1 == pool[j].1, "== disagrees with the byte strings (seed {seed}, step {step})");
                }
                _ => {
                    // two messages that view the same two buffers through different windows of the same total length
                    let (li, lj) = (pool[i].1.len(), pool[j].1.len());
                    let (a, b, a2) = (g.next(li + 1), g.next(lj + 1), g.next(li + 1));
                    if a + b >= a2 && a + b - a2 <= lj {
                        let b2 = a + b - a2;
                        let build = |x: usize, y: usize| {
                            let (mut m, mut v) = pool[i].clone();
                            m.slice(..x); v.truncate(x);
                            let (mut n, mut w) = pool[j].clone();
                            n.slice(..y); w.truncate(y);
                            m.concatenate(n); v.extend_from_slice(&w);
                            (m, v)
                        };
                        let (m1, v1) = build(a, b);
                        let (m2, v2) = build(a2, b2);
                        vx_same(&m1, &v1, "slice+concatenate", seed, step);
                        vx_same(&m2, &v2, "slice+concatenate", seed, step);
                        assert_eq!(m1 == m2, v1 == v2, "== disagrees with the byte strings for two views of the same buffers (seed {seed}, step {step})");
                    }
                }
            }
            // sharing: no other message of the pool changed
            for (m, v) in pool.iter() {
                assert_eq!(&m.to_vec(), v, "another message sharing storage changed (seed {seed}, step {step})");
            }
        }
    }
}

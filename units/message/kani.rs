// Kani harnesses for message/slice_range.rs — injected (add-only) as
// `mod vx_kani_message` of slice_range.rs.  Loop-free, full domain => complete.
// (Harnesses over Message itself are infeasible in CBMC: VecDeque<Chunk> + Arc
// exhausted > 55 GB for 2 chunks x 2 bytes; Message is proved by Verus.)
use super::*;
#[path = "/verif/vx/kani_support.rs"]
mod sup;
use sup::*;

//# id=slice_range.from_all_range_forms fns=SliceRange::from(six range forms) props=C07 kind=complete pair=message.SliceRange.from_RangeFrom.safety,message.SliceRange.from_RangeFull.safety,message.SliceRange.from_RangeTo.safety
#[cfg_attr(kani, kani::proof)]
#[cfg_attr(vx_replay, test)]
fn h_slice_range_from() {
    let a: usize = any();
    let b: usize = any();
    // a..b  selects [a, b) (empty when b <= a)
    let r = SliceRange::from(a..b);
    assert!(r.start == a && r.len == Some(if b >= a { b - a } else { 0 }));
    // a..   selects [a, n)
    let r = SliceRange::from(a..);
    assert!(r.start == a && r.len.is_none());
    // ..    selects [0, n)
    let r = SliceRange::from(..);
    assert!(r.start == 0 && r.len.is_none());
    // ..b   selects [0, b)
    let r = SliceRange::from(..b);
    assert!(r.start == 0 && r.len == Some(b));
    // a..=b selects [a, b+1) ; ..=b selects [0, b+1)   (endpoints below usize::MAX, a <= b+1)
    vx_assume!(b < usize::MAX && a <= b + 1);
    let r = SliceRange::from(a..=b);
    assert!(r.start == a && r.len == Some(b + 1 - a));
    let r = SliceRange::from(..=b);
    assert!(r.start == 0 && r.len == Some(b + 1));
}

#[cfg(vx_replay)]
#[path = "/verif/units/message/w/cut_boundary.rs"]
mod w_cut_boundary;

//# id=witness.cut_matches_the_vector_model props=C07,C10 kind=witness pair=message.Message.cut.safety,message.Message.cut.returns_prefix,message.Message.cut.keeps_suffix
// cut at every position of multi-chunk messages behaves like splitting a plain vector
#[cfg(vx_replay)]
#[test]
fn h_w_cut_boundary() {
    w_cut_boundary::cut_header_off_exactly();
    w_cut_boundary::cut_zero_is_a_no_op();
    w_cut_boundary::cut_every_position_matches_vec_model();
}

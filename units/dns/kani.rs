// Harnesses for dns/dns_parsing.rs — injected (add-only) as `mod vx_kani_dns`.
use super::*;
#[path = "/verif/vx/kani_support.rs"]
mod sup;
use sup::*;

//# id=witness.query_name_panics props=C14 kind=witness pair=dns.DnsQuestion.query_name.safety
// a question name decoded from the wire is arbitrary bytes; query_name() returns a Result and must not panic
#[cfg(vx_replay)]
#[test]
fn h_w_dns_query_name_total() {
    let mut bytes = vec![0u8, 1, 0, 0, 0, 1, 0, 0, 0, 0, 0, 0];
    bytes.extend_from_slice(&[0xff, 0xfe, b' ', 0, 1, 0, 1]);   // question with a non-UTF-8 name
    bytes.extend_from_slice(&[b'a', b' ', 0, 1, 0, 1, 0, 0, 0, 0, 0, 0]); // empty answer
    let msg = DnsMessage::from_bytes(bytes.into_iter()).expect("well-formed message");
    let r = std::panic::catch_unwind(|| msg.question.query_name().is_ok());
    assert!(r.is_ok(), "query_name() panicked on a non-UTF-8 name");
}

//# id=witness.roundtrip props=C08 kind=witness pair=dns.DnsMessage.to_message.emits_the_wire_layout,dns.DnsMessage.from_bytes.decoding_the_encoding_gives_back_the_value,dns.DnsMessage.from_bytes.reencoding_reproduces_the_consumed_bytes,dns.DnsHeader.build.emits_the_header_layout,dns.DnsQuestion.build.emits_the_question_layout,dns.DnsResourceRecord.build.emits_the_record_layout,dns.DnsMessage.from_bytes.safety
// decode(encode(x)) == x field by field and encode(decode(b)) == b on concrete values (empty names, empty and long RDATA)
#[cfg(vx_replay)]
#[test]
fn h_w_dns_roundtrip() {
    for (qn, an, ttl, rdata) in [(&b"example.com"[..], &b"example.com"[..], 1600u32, vec![10u8, 11, 12, 13]), (&b""[..], &b"a"[..], 0, vec![]), (&b"x"[..], &b""[..], u32::MAX, vec![0x20; 300])] {
        let mut rr = DnsResourceRecord::new(an.to_vec(), ttl, Ipv4Address::new([1, 2, 3, 4]));
        rr.rdlength = rdata.len() as u16;
        rr.rdata = rdata.clone();
        let mut q = DnsQuestion::new(qn.to_vec());
        q.qtype = 0x1234;
        q.qclass = 0xfffe;
        let mut h = DnsHeader::new(0xbeef, DnsMessageType::RESPONSE);
        h.qdcount = 1;
        h.ancount = 0x0102;
        h.nscount = 0xff00;
        h.arcount = 0x00ff;
        let wire = DnsMessage::new(h, q, rr).unwrap().to_message().unwrap().to_vec();
        let m = DnsMessage::from_bytes(wire.clone().into_iter()).expect("decodes");
        assert_eq!((m.header.id, m.header.properties, m.header.qdcount, m.header.ancount, m.header.nscount, m.header.arcount), (0xbeef, 0x8000, 1, 0x0102, 0xff00, 0x00ff));
        assert_eq!((m.question.qname.as_slice(), m.question.qtype, m.question.qclass), (qn, 0x1234, 0xfffe));
        assert_eq!((m.answer.name.as_slice(), m.answer.rec_type, m.answer.class, m.answer.ttl, m.answer.rdlength, &m.answer.rdata), (an, 1, 1, ttl, rdata.len() as u16, &rdata));
        assert_eq!(m.to_message().unwrap().to_vec(), wire, "re-encoding differs from the consumed bytes");
    }
}

// ---------------------------------------------------------------------------
// BOUNDED stand-in for the DNS codec (kind=witness: never run by Kani, never counted as proved).  Run on the real code only
// when the Verus unit `dns` cannot ingest a changed function: every truncation and five single-byte corruptions per
// position of a set of well-formed messages, and 20000 pseudo-random byte strings of length 0..=60, are fed to the decoder:
// it must not panic (query_name included), and whatever it accepts must re-encode to a prefix of the input.
// ---------------------------------------------------------------------------
//# id=witness.decoder_accepts_only_what_reencodes props=C08,C14 kind=witness pair=dns.DnsMessage.from_bytes.reencoding_reproduces_the_consumed_bytes,dns.DnsMessage.from_bytes.safety,dns.DnsMessage.from_bytes.never_panics,dns.DnsMessage.to_message.emits_the_wire_layout,dns.DnsMessage.from_bytes.decoding_the_encoding_gives_back_the_value,dns.DnsQuestion.query_name.safety
#[cfg(vx_replay)]
#[test]
fn h_w_dns_decode_model() {
    use std::panic::catch_unwind;
    fn check(input: Vec<u8>, what: &str) {
        let inp = input.clone();
        let r = catch_unwind(move || DnsMessage::from_bytes(inp.into_iter()).ok().map(|m| { let _ = m.question.query_name(); m.to_message().map(|x| x.to_vec()) }));
        match r {
            Err(_) => panic!("decoder or encoder panicked on {what}: {input:02x?}"),
            Ok(None) => {}
            Ok(Some(Err(_))) => panic!("an accepted message cannot be re-encoded ({what}): {input:02x?}"),
            Ok(Some(Ok(again))) => assert!(again.len() <= input.len() && again[..] == input[..again.len()],
                "decoder accepted {what} but re-encoding gives different bytes\n input    {input:02x?}\n re-coded {again:02x?}"),
        }
    }
    let mut good: Vec<Vec<u8>> = Vec::new();
    for (qn, an, rdata) in [(&b"example.com"[..], &b"example.com"[..], vec![10u8, 11, 12, 13]), (&b""[..], &b"a"[..], vec![]), (&b"x"[..], &b""[..], vec![7u8; 9])] {
        let mut rr = DnsResourceRecord::new(an.to_vec(), 77, Ipv4Address::new([1, 2, 3, 4]));
        rr.rdlength = rdata.len() as u16;
        rr.rdata = rdata;
        let h = DnsHeader::new(0xbeef, DnsMessageType::RESPONSE);
        good.push(DnsMessage::new(h, DnsQuestion::new(qn.to_vec()), rr).unwrap().to_message().unwrap().to_vec());
    }
    for p in &good {
        check(p.clone(), "a well-formed message");
        for n in 0..p.len() { check(p[..n].to_vec(), "a truncated message"); }
        for i in 0..p.len() { for v in [0u8, 1, 0x20, 0x80, 0xff] { let mut q = p.clone(); q[i] = v; check(q, "a corrupted message"); } }
        let mut q = p.clone(); q.extend_from_slice(&[1, 2, 3]); check(q, "a message with trailing bytes");
    }
    let mut s: u64 = 0x2468_ace0_1357_9bdf;
    let mut next = |n: usize| { s = s.wrapping_mul(6364136223846793005).wrapping_add(1442695040888963407); ((s >> 33) as usize) % n.max(1) };
    for _ in 0..20000 {
        let n = next(61);
        let v: Vec<u8> = (0..n).map(|_| match next(4) { 0 => 0x20, 1 => next(8) as u8, _ => next(256) as u8 }).collect();
        check(v, "a pseudo-random byte string");
    }
}

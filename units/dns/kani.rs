// Harnesses for dns/dns_parsing.rs — injected (add-only) as `mod vx_kani_dns`.
use super::*;
#[path = "/verif/vx/kani_support.rs"]
mod sup;
use sup::*;

//# id=witness.query_name_panics props=C14 kind=witness pair=dns.DnsQuestion.query_name.safety
// a question name decoded from the wire is arbitrary bytes; query_name() returns a Result and must not panic
#[cfg(vx_replay)]
#[test]
fn h_w_dns_query_name_total() {
    let mut bytes = vec![0u8, 1, 0, 0, 0, 1, 0, 0, 0, 0, 0, 0];
    bytes.extend_from_slice(&[0xff, 0xfe, b' ', 0, 1, 0, 1]);   // question with a non-UTF-8 name
    bytes.extend_from_slice(&[b'a', b' ', 0, 1, 0, 1, 0, 0, 0, 0, 0, 0]); // empty answer
    let msg = DnsMessage::from_bytes(bytes.into_iter()).expect("well-formed message");
    let r = std::panic::catch_unwind(|| msg.question.query_name().is_ok());
    assert!(r.is_ok(), "query_name() panicked on a non-UTF-8 name");
}

// Harnesses for dns/dns_parsing.rs — injected (add-only) as `mod vx_kani_dns`.
use super::*;
#[path = "/verif/vx/kani_support.rs"]
mod sup;
use sup::*;

//# id=witness.query_name_panics props=C14 kind=witness pair=dns.DnsQuestion.query_name.safety
// a question name decoded from the wire is arbitrary bytes; query_name() returns a Result and must not panic
#[cfg(vx_replay)]
#[test]
fn h_w_dns_query_name_total() {
    let mut bytes = vec![0u8, 1, 0, 0, 0, 1, 0, 0, 0, 0, 0, 0];
    bytes.extend_from_slice(&[0xff, 0xfe, b' ', 0, 1, 0, 1]);   // question with a non-UTF-8 name
    bytes.extend_from_slice(&[b'a', b' ', 0, 1, 0, 1, 0, 0, 0, 0, 0, 0]); // empty answer
    let msg = DnsMessage::from_bytes(bytes.into_iter()).expect("well-formed message");
    let r = std::panic::catch_unwind(|| msg.question.query_name().is_ok());
    assert!(r.is_ok(), "query_name() panicked on a non-UTF-8 name");
}

//# id=witness.roundtrip props=C08 kind=witness pair=dns.DnsMessage.to_message.emits_the_wire_layout,dns.DnsMessage.from_bytes.decoding_the_encoding_gives_back_the_value,dns.DnsMessage.from_bytes.reencoding_reproduces_the_consumed_bytes,dns.DnsHeader.build.emits_the_header_layout,dns.DnsQuestion.build.emits_the_question_layout,dns.DnsResourceRecord.build.emits_the_record_layout,dns.DnsMessage.from_bytes.safety
// decode(encode(x)) == x field by field and encode(decode(b)) == b on concrete values (empty names, empty and long RDATA)
#[cfg(vx_replay)]
#[test]
fn h_w_dns_roundtrip() {
    for (qn, an, ttl, rdata) in [(&b"example.com"[..], &b"example.com"[..], 1600u32, vec![10u8, 11, 12, 13]), (&b""[..], &b"a"[..], 0, vec![]), (&b"x"[..], &b""[..], u32::MAX, vec![0x20; 300])] {
        let mut rr = DnsResourceRecord::new(an.to_vec(), ttl, Ipv4Address::new([1, 2, 3, 4]));
        rr.rdlength = rdata.len() as u16;
        rr.rdata = rdata.clone();
        let mut q = DnsQuestion::new(qn.to_vec());
        q.qtype = 0x1234;
        q.qclass = 0xfffe;
        let mut h = DnsHeader::new(0xbeef, DnsMessageType::RESPONSE);
        h.qdcount = 1;
        h.ancount = 0x0102;
        h.nscount = 0xff00;
        h.arcount = 0x00ff;
        let wire = DnsMessage::new(h, q, rr).unwrap().to_message().unwrap().to_vec();
        let m = DnsMessage::from_bytes(wire.clone().into_iter()).expect("decodes");
        assert_eq!((m.header.id, m.header.properties, m.header.qdcount, m.header.ancount, m.header.nscount, m.header.arcount), (0xbeef, 0x8000, 1, 0x0102, 0xff00, 0x00ff));
        assert_eq!((m.question.qname.as_slice(), m.question.qtype, m.question.qclass), (qn, 0x1234, 0xfffe));
        assert_eq!((m.answer.name.as_slice(), m.answer.rec_type, m.answer.class, m.answer.ttl, m.answer.rdlength, &m.answer.rdata), (an, 1, 1, ttl, rdata.len() as u16, &rdata));
        assert_eq!(m.to_message().unwrap().to_vec(), wire, "re-encoding differs from the consumed bytes");
    }
}

//@ unit dns props=C14,C08
//@ include vx/prelude.rs
//@ include vx/be_bytes.rs
use vstd::std_specs::iter::IteratorSpec;
use vstd::std_specs::convert::*;
verus! {

/// ASSUMED: String::from_utf8 is total (returns Ok or Err, never panics); on success the string's bytes are the input
#[verifier::external_type_specification]
#[verifier::external_body]
pub struct ExFromUtf8Error(std::string::FromUtf8Error);
pub assume_specification [String::from_utf8] (v: Vec<u8>) -> (r: Result<String, std::string::FromUtf8Error>)
    ensures true;

//@ item sim/elvis-core/src/protocols/ipv4/ipv4_address.rs :: struct Ipv4Address
//@ rewrite `pub struct Ipv4Address\(\[u8; 4\]\);` => `pub struct Ipv4Address(pub [u8; 4]);` ## visibility only
//@ end
impl FromSpecImpl<u32> for Ipv4Address {
    open spec fn obeys_from_spec() -> bool { true }
    open spec fn from_spec(n: u32) -> Self { Ipv4Address(spec_to_be(n)) }
}
impl FromSpecImpl<[u8; 4]> for Ipv4Address {
    open spec fn obeys_from_spec() -> bool { true }
    open spec fn from_spec(n: [u8; 4]) -> Self { Ipv4Address(n) }
}
//@ item sim/elvis-core/src/protocols/ipv4/ipv4_address.rs :: impl From<u32> for Ipv4Address id=Ipv4Address.from_u32
//@ rewrite `n\.to_be_bytes\(\)` => `vx_u32_to_be(n)` ## core::to_be_bytes routed through the contract-carrying wrapper
//@ end
//@ item sim/elvis-core/src/protocols/ipv4/ipv4_address.rs :: impl From<[u8; 4]> for Ipv4Address id=Ipv4Address.from_bytes
//@ end

// ---------------------------------------------------------------------------
// utility.rs: BytesExt readers over an arbitrary byte iterator
// ---------------------------------------------------------------------------
/// taking n bytes off the front of an iterator
pub open spec fn took(before: Seq<u8>, after: Seq<u8>, n: int) -> bool {
    before.len() >= n && after == before.subrange(n, before.len() as int)
}

pub trait BytesExt: Iterator<Item = u8> {
//@ item sim/elvis-core/src/protocols/utility.rs :: trait BytesExt / fn next_u8 id=BytesExt.next_u8
//@ contract
    requires (*old(self)).obeys_prophetic_iter_laws(),
    ensures
        (*final(self)).obeys_prophetic_iter_laws(),
        (*old(self)).remaining().len() >= 1 ==> r == Some((*old(self)).remaining()[0]) && took((*old(self)).remaining(), (*final(self)).remaining(), 1),   //# reads_one_byte [C08,C14]
        (*old(self)).remaining().len() < 1 ==> r is None,   //# none_when_exhausted [C14]
//@ end
//@ item sim/elvis-core/src/protocols/utility.rs :: trait BytesExt / fn next_u16_be id=BytesExt.next_u16_be
//@ rewrite `u16::from_be_bytes\(arr\)` => `vx_u16_from_be(arr)` ## core::from_be_bytes routed through the contract-carrying wrapper
//@ contract
    requires (*old(self)).obeys_prophetic_iter_laws(),
    ensures
        (*final(self)).obeys_prophetic_iter_laws(),
        (*old(self)).remaining().len() >= 2 ==> r == Some(be16([(*old(self)).remaining()[0], (*old(self)).remaining()[1]])) && took((*old(self)).remaining(), (*final(self)).remaining(), 2),   //# reads_big_endian_u16 [C08,C14]
        (*old(self)).remaining().len() < 2 ==> r is None,   //# none_when_too_short [C14]
//@ after 1 `let arr = [self.next()?, self.next()?];`
        proof {
            let r0 = (*old(self)).remaining();
            assert((*self).remaining() =~= r0.subrange(2, r0.len() as int));
            assert(arr@ =~= seq![r0[0], r0[1]]);
        }
//@ end
//@ item sim/elvis-core/src/protocols/utility.rs :: trait BytesExt / fn next_u32_be id=BytesExt.next_u32_be
//@ rewrite `u32::from_be_bytes\(arr\)` => `vx_u32_from_be(arr)` ## core::from_be_bytes routed through the contract-carrying wrapper
//@ contract
    requires (*old(self)).obeys_prophetic_iter_laws(),
    ensures
        (*final(self)).obeys_prophetic_iter_laws(),
        (*old(self)).remaining().len() >= 4 ==> r == Some(be32([(*old(self)).remaining()[0], (*old(self)).remaining()[1], (*old(self)).remaining()[2], (*old(self)).remaining()[3]])) && took((*old(self)).remaining(), (*final(self)).remaining(), 4),   //# reads_big_endian_u32 [C08,C14]
        (*old(self)).remaining().len() < 4 ==> r is None,   //# none_when_too_short [C14]
//@ after 1 `let arr = [self.next()?, self.next()?, self.next()?, self.next()?];`
        proof {
            let r0 = (*old(self)).remaining();
            assert((*self).remaining() =~= r0.subrange(4, r0.len() as int));
            assert(arr@ =~= seq![r0[0], r0[1], r0[2], r0[3]]);
        }
//@ end
//@ item sim/elvis-core/src/protocols/utility.rs :: trait BytesExt / fn next_ipv4addr id=BytesExt.next_ipv4addr mode=sig
//@ contract
    // ASSUMED contract (one-line body `self.next_u32_be().map(Ipv4Address::from)` not verified here: Verus' trait-cycle
    // check rejects a call to `From<u32> for Ipv4Address` from a default method of a blanket-implemented trait)
    requires (*old(self)).obeys_prophetic_iter_laws(),
    ensures
        (*final(self)).obeys_prophetic_iter_laws(),
        (*old(self)).remaining().len() >= 4 ==> r is Some && took((*old(self)).remaining(), (*final(self)).remaining(), 4),
        (*old(self)).remaining().len() < 4 ==> r is None,   //# none_when_too_short [C14]
//@ end
}
//@ item sim/elvis-core/src/protocols/utility.rs :: impl BytesExt for T id=BytesExt.blanket_impl
//@ end


// ---------------------------------------------------------------------------
// dns/dns_parsing.rs
// ---------------------------------------------------------------------------
//@ item sim/elvis-core/src/protocols/dns/dns_parsing.rs :: enum ParseError
//@ rewrite `#\[derive\(Debug, ThisError, Clone, Copy, PartialEq, Eq\)\]` => `#[derive(Debug, Clone, Copy, PartialEq, Eq)]` ## thiserror derive dropped (Display impl only)
//@ rewrite `#\[error\("[^"]*"\)\]` => `` ## thiserror attribute dropped
//@ end
//@ item sim/elvis-core/src/protocols/dns/dns_parsing.rs :: struct DnsHeader
//@ end
//@ item sim/elvis-core/src/protocols/dns/dns_parsing.rs :: struct DnsQuestion
//@ rewrite `(\n\s*)(qtype|qclass): ` => `\1pub \2: ` ## visibility only
//@ end
//@ item sim/elvis-core/src/protocols/dns/dns_parsing.rs :: struct DnsResourceRecord
//@ rewrite `(\n\s*)(class|rdlength): ` => `\1pub \2: ` ## visibility only
//@ end
//@ item sim/elvis-core/src/protocols/dns/dns_parsing.rs :: struct DnsMessage
//@ end

impl DnsMessage {
//@ item sim/elvis-core/src/protocols/dns/dns_parsing.rs :: impl DnsMessage / fn from_bytes id=DnsMessage.from_bytes
//@ rewrite `pub fn from_bytes\(` => `#[verifier::exec_allows_no_decreases_clause] pub fn from_bytes(` ## termination of the name loops is NOT verified (finiteness of the caller's iterator)
//@ contract
    // (C14) for every byte string the decoder returns a value or an error (every `?`, push and `i += 1` is an obligation)
    requires bytes.obeys_prophetic_iter_laws(),
    ensures
        bytes.remaining().len() < 12 ==> r is Err,   //# truncated_header_is_rejected [C14]
        r matches Ok(m) ==> bytes.remaining().len() >= 12
            && m.header.id == be16([bytes.remaining()[0], bytes.remaining()[1]])
            && m.header.properties == be16([bytes.remaining()[2], bytes.remaining()[3]])
            && m.header.qdcount == be16([bytes.remaining()[4], bytes.remaining()[5]])
            && m.header.ancount == be16([bytes.remaining()[6], bytes.remaining()[7]])
            && m.header.nscount == be16([bytes.remaining()[8], bytes.remaining()[9]])
            && m.header.arcount == be16([bytes.remaining()[10], bytes.remaining()[11]])
            && m.answer.rdata@.len() == m.answer.rdlength,   //# header_fields_at_their_offsets_and_rdata_length [C08]
//@ start
        let ghost all = bytes.remaining();
//@ after 1 `let id = bytes.next_`
        proof { assert(bytes.remaining() =~= all.subrange(2, all.len() as int)); }
//@ after 1 `let properties = bytes.next_`
        proof { assert(bytes.remaining() =~= all.subrange(4, all.len() as int)); }
//@ after 1 `let qdcount = bytes.next_`
        proof { assert(bytes.remaining() =~= all.subrange(6, all.len() as int)); }
//@ after 1 `let ancount = bytes.next_`
        proof { assert(bytes.remaining() =~= all.subrange(8, all.len() as int)); }
//@ after 1 `let nscount = bytes.next_`
        proof { assert(bytes.remaining() =~= all.subrange(10, all.len() as int)); }
//@ after 1 `let arcount = bytes.next_`
        proof { assert(bytes.remaining() =~= all.subrange(12, all.len() as int)); }
//@ loop 1
            invariant bytes.obeys_prophetic_iter_laws(), all.len() >= 12,
                id == be16([all[0], all[1]]), properties == be16([all[2], all[3]]), qdcount == be16([all[4], all[5]]),
                ancount == be16([all[6], all[7]]), nscount == be16([all[8], all[9]]), arcount == be16([all[10], all[11]]),
//@ loop 2
            invariant bytes.obeys_prophetic_iter_laws(), all.len() >= 12,
                id == be16([all[0], all[1]]), properties == be16([all[2], all[3]]), qdcount == be16([all[4], all[5]]),
                ancount == be16([all[6], all[7]]), nscount == be16([all[8], all[9]]), arcount == be16([all[10], all[11]]),
//@ loop 3
            invariant bytes.obeys_prophetic_iter_laws(), all.len() >= 12, i <= rdlength, rdata@.len() == i,
                id == be16([all[0], all[1]]), properties == be16([all[2], all[3]]), qdcount == be16([all[4], all[5]]),
                ancount == be16([all[6], all[7]]), nscount == be16([all[8], all[9]]), arcount == be16([all[10], all[11]]),
//@ end
}

impl DnsQuestion {
//@ item sim/elvis-core/src/protocols/dns/dns_parsing.rs :: impl DnsQuestion / fn query_name id=DnsQuestion.query_name
//@ rewrite `\.map_err\(\|_\| ` => `.map_err(|_e| ` ## Verus needs a named closure parameter
//@ contract
    // (C14) a decoded question name is arbitrary bytes: asking for it as a string must not panic
    ensures true,   //# never_panics [C14]
//@ end
}

} // verus!

//@ unit dns props=C14,C08
//@ include vx/prelude.rs
//@ include vx/be_bytes.rs
use vstd::std_specs::iter::IteratorSpec;
use vstd::std_specs::convert::*;
//@ import-unit message
verus! {

/// ASSUMED: String::from_utf8 is total (returns Ok or Err, never panics); on success the string's bytes are the input
#[verifier::external_type_specification]
#[verifier::external_body]
pub struct ExFromUtf8Error(std::string::FromUtf8Error);
pub assume_specification [String::from_utf8] (v: Vec<u8>) -> (r: Result<String, std::string::FromUtf8Error>)
    ensures true;

//@ item sim/elvis-core/src/protocols/ipv4/ipv4_address.rs :: struct Ipv4Address
//@ rewrite `pub struct Ipv4Address\(\[u8; 4\]\);` => `pub struct Ipv4Address(pub [u8; 4]);` ## visibility only
//@ end
impl FromSpecImpl<u32> for Ipv4Address {
    open spec fn obeys_from_spec() -> bool { true }
    open spec fn from_spec(n: u32) -> Self { Ipv4Address(spec_to_be(n)) }
}
impl FromSpecImpl<[u8; 4]> for Ipv4Address {
    open spec fn obeys_from_spec() -> bool { true }
    open spec fn from_spec(n: [u8; 4]) -> Self { Ipv4Address(n) }
}
//@ item sim/elvis-core/src/protocols/ipv4/ipv4_address.rs :: impl From<u32> for Ipv4Address id=Ipv4Address.from_u32
//@ rewrite `n\.to_be_bytes\(\)` => `vx_u32_to_be(n)` ## core::to_be_bytes routed through the contract-carrying wrapper
//@ end
//@ item sim/elvis-core/src/protocols/ipv4/ipv4_address.rs :: impl From<[u8; 4]> for Ipv4Address id=Ipv4Address.from_bytes
//@ end

// ---------------------------------------------------------------------------
// utility.rs: BytesExt readers over an arbitrary byte iterator
// ---------------------------------------------------------------------------
/// taking n bytes off the front of an iterator
pub open spec fn took(before: Seq<u8>, after: Seq<u8>, n: int) -> bool {
    before.len() >= n && after == before.subrange(n, before.len() as int)
}

pub trait BytesExt: Iterator<Item = u8> {
//@ item sim/elvis-core/src/protocols/utility.rs :: trait BytesExt / fn next_u8 id=BytesExt.next_u8
//@ contract
    requires (*old(self)).obeys_prophetic_iter_laws(),
    ensures
        (*final(self)).obeys_prophetic_iter_laws(),
        (*old(self)).remaining().len() >= 1 ==> r == Some((*old(self)).remaining()[0]) && took((*old(self)).remaining(), (*final(self)).remaining(), 1),   //# reads_one_byte [C08,C14]
        (*old(self)).remaining().len() < 1 ==> r is None,   //# none_when_exhausted [C14]
//@ end
//@ item sim/elvis-core/src/protocols/utility.rs :: trait BytesExt / fn next_u16_be id=BytesExt.next_u16_be
//@ rewrite `u16::from_be_bytes\(arr\)` => `vx_u16_from_be(arr)` ## core::from_be_bytes routed through the contract-carrying wrapper
//@ contract
    requires (*old(self)).obeys_prophetic_iter_laws(),
    ensures
        (*final(self)).obeys_prophetic_iter_laws(),
        (*old(self)).remaining().len() >= 2 ==> r == Some(be16([(*old(self)).remaining()[0], (*old(self)).remaining()[1]])) && took((*old(self)).remaining(), (*final(self)).remaining(), 2),   //# reads_big_endian_u16 [C08,C14]
        (*old(self)).remaining().len() < 2 ==> r is None,   //# none_when_too_short [C14]
//@ after 1 `let arr = [self.next()?, self.next()?];`
        proof {
            let r0 = (*old(self)).remaining();
            assert((*self).remaining() =~= r0.subrange(2, r0.len() as int));
            assert(arr@ =~= seq![r0[0], r0[1]]);
        }
//@ end
//@ item sim/elvis-core/src/protocols/utility.rs :: trait BytesExt / fn next_u32_be id=BytesExt.next_u32_be
//@ rewrite `u32::from_be_bytes\(arr\)` => `vx_u32_from_be(arr)` ## core::from_be_bytes routed through the contract-carrying wrapper
//@ contract
    requires (*old(self)).obeys_prophetic_iter_laws(),
    ensures
        (*final(self)).obeys_prophetic_iter_laws(),
        (*old(self)).remaining().len() >= 4 ==> r == Some(be32([(*old(self)).remaining()[0], (*old(self)).remaining()[1], (*old(self)).remaining()[2], (*old(self)).remaining()[3]])) && took((*old(self)).remaining(), (*final(self)).remaining(), 4),   //# reads_big_endian_u32 [C08,C14]
        (*old(self)).remaining().len() < 4 ==> r is None,   //# none_when_too_short [C14]
//@ after 1 `let arr = [self.next()?, self.next()?, self.next()?, self.next()?];`
        proof {
            let r0 = (*old(self)).remaining();
            assert((*self).remaining() =~= r0.subrange(4, r0.len() as int));
            assert(arr@ =~= seq![r0[0], r0[1], r0[2], r0[3]]);
        }
//@ end
//@ item sim/elvis-core/src/protocols/utility.rs :: trait BytesExt / fn next_ipv4addr id=BytesExt.next_ipv4addr mode=sig
//@ contract
    // ASSUMED contract (one-line body `self.next_u32_be().map(Ipv4Address::from)` not verified here: Verus' trait-cycle
    // check rejects a call to `From<u32> for Ipv4Address` from a default method of a blanket-implemented trait)
    requires (*old(self)).obeys_prophetic_iter_laws(),
    ensures
        (*final(self)).obeys_prophetic_iter_laws(),
        (*old(self)).remaining().len() >= 4 ==> r is Some && took((*old(self)).remaining(), (*final(self)).remaining(), 4),
        (*old(self)).remaining().len() < 4 ==> r is None,   //# none_when_too_short [C14]
//@ end
}
//@ item sim/elvis-core/src/protocols/utility.rs :: impl BytesExt for T id=BytesExt.blanket_impl
//@ end


// ---------------------------------------------------------------------------
// dns/dns_parsing.rs
// ---------------------------------------------------------------------------
//@ item sim/elvis-core/src/protocols/dns/dns_parsing.rs :: enum ParseError
//@ rewrite `#\[derive\(Debug, ThisError, Clone, Copy, PartialEq, Eq\)\]` => `#[derive(Debug, Clone, Copy, PartialEq, Eq)]` ## thiserror derive dropped (Display impl only)
//@ rewrite `#\[error\("[^"]*"\)\]` => `` ## thiserror attribute dropped
//@ end
//@ item sim/elvis-core/src/protocols/dns/dns_parsing.rs :: struct DnsHeader
//@ end
//@ item sim/elvis-core/src/protocols/dns/dns_parsing.rs :: struct DnsQuestion
//@ rewrite `(\n\s*)(qtype|qclass): ` => `\1pub \2: ` ## visibility only
//@ end
//@ item sim/elvis-core/src/protocols/dns/dns_parsing.rs :: struct DnsResourceRecord
//@ rewrite `(\n\s*)(class|rdlength): ` => `\1pub \2: ` ## visibility only
//@ end
//@ item sim/elvis-core/src/protocols/dns/dns_parsing.rs :: struct DnsMessage
//@ end

// ---------------------------------------------------------------------------
// wire format (the specification the encoders and the decoder are both checked against)
// ---------------------------------------------------------------------------
pub open spec fn b16(x: u16) -> Seq<u8> { seq![spec_to_be16(x)[0], spec_to_be16(x)[1]] }
pub open spec fn b32(x: u32) -> Seq<u8> { seq![spec_to_be(x)[0], spec_to_be(x)[1], spec_to_be(x)[2], spec_to_be(x)[3]] }
pub open spec fn no_sp(b: Seq<u8>) -> bool { forall|i: int| 0 <= i < b.len() ==> b[i] != 0x20u8 }
/// RFC 1035 4.1.1: ID, flags, QDCOUNT, ANCOUNT, NSCOUNT, ARCOUNT (16 bits each, big endian)
pub open spec fn dns_hdr_enc(h: DnsHeader) -> Seq<u8> {
    b16(h.id) + b16(h.properties) + b16(h.qdcount) + b16(h.ancount) + b16(h.nscount) + b16(h.arcount)
}
/// name, the delimiter ' ', QTYPE, QCLASS
pub open spec fn dns_q_enc(q: DnsQuestion) -> Seq<u8> { q.qname@ + seq![0x20u8] + b16(q.qtype) + b16(q.qclass) }
/// name, the delimiter ' ', TYPE, CLASS, TTL, RDLENGTH, RDATA
pub open spec fn dns_rr_enc(a: DnsResourceRecord) -> Seq<u8> {
    a.name@ + seq![0x20u8] + b16(a.rec_type) + b16(a.class) + b32(a.ttl) + b16(a.rdlength) + a.rdata@
}
pub open spec fn dns_enc(m: DnsMessage) -> Seq<u8> { dns_hdr_enc(m.header) + dns_q_enc(m.question) + dns_rr_enc(m.answer) }
/// 'representable': names without the delimiter, RDLENGTH consistent with RDATA
pub open spec fn dns_representable(m: DnsMessage) -> bool {
    no_sp(m.question.qname@) && no_sp(m.answer.name@) && m.answer.rdata@.len() == m.answer.rdlength
}
/// field-wise equality (Vec fields compared by their contents)
pub open spec fn dns_same(a: DnsMessage, b: DnsMessage) -> bool {
    &&& a.header.id == b.header.id && a.header.properties == b.header.properties && a.header.qdcount == b.header.qdcount
    &&& a.header.ancount == b.header.ancount && a.header.nscount == b.header.nscount && a.header.arcount == b.header.arcount
    &&& a.question.qname@ == b.question.qname@ && a.question.qtype == b.question.qtype && a.question.qclass == b.question.qclass
    &&& a.answer.name@ == b.answer.name@ && a.answer.rec_type == b.answer.rec_type && a.answer.class == b.answer.class
    &&& a.answer.ttl == b.answer.ttl && a.answer.rdlength == b.answer.rdlength && a.answer.rdata@ == b.answer.rdata@
}
pub open spec fn is_prefix(p: Seq<u8>, s: Seq<u8>) -> bool { p.len() <= s.len() && s.subrange(0, p.len() as int) == p }
pub open spec fn pre(x: DnsMessage, all: Seq<u8>) -> bool { dns_representable(x) && is_prefix(dns_enc(x), all) }
/// `all` read field by field is m (decode direction)
pub open spec fn wire_ok(m: DnsMessage, all: Seq<u8>) -> bool {
    let q = m.question.qname@;
    let n = m.answer.name@;
    let d = m.answer.rdata@;
    let o = 12 + q.len() as int;       // delimiter after the question name
    let p = o + 5 + n.len() as int;    // delimiter after the answer name
    &&& no_sp(q) && no_sp(n) && d.len() == m.answer.rdlength
    &&& all.len() >= 28 + q.len() + n.len() + d.len()
    &&& m.header.id == be16([all[0], all[1]]) && m.header.properties == be16([all[2], all[3]]) && m.header.qdcount == be16([all[4], all[5]])
    &&& m.header.ancount == be16([all[6], all[7]]) && m.header.nscount == be16([all[8], all[9]]) && m.header.arcount == be16([all[10], all[11]])
    &&& (forall|i: int| 0 <= i < q.len() ==> all[12 + i] == #[trigger] q[i])
    &&& all[o] == 0x20u8
    &&& m.question.qtype == be16([all[o + 1], all[o + 2]]) && m.question.qclass == be16([all[o + 3], all[o + 4]])
    &&& (forall|i: int| 0 <= i < n.len() ==> all[o + 5 + i] == #[trigger] n[i])
    &&& all[p] == 0x20u8
    &&& m.answer.rec_type == be16([all[p + 1], all[p + 2]]) && m.answer.class == be16([all[p + 3], all[p + 4]])
    &&& m.answer.ttl == be32([all[p + 5], all[p + 6], all[p + 7], all[p + 8]]) && m.answer.rdlength == be16([all[p + 9], all[p + 10]])
    &&& (forall|i: int| 0 <= i < d.len() ==> all[p + 11 + i] == #[trigger] d[i])
}

pub proof fn lemma_be16_inverse(b: [u8; 2])
    ensures spec_to_be16(be16(b)) == b,
{
    let (b0, b1) = (b[0], b[1]);
    assert(((((b0 as u16) << 8) | (b1 as u16)) >> 8) as u8 == b0 && ((((b0 as u16) << 8) | (b1 as u16)) & 0xff) as u8 == b1) by (bit_vector);
    assert(spec_to_be16(be16(b)) =~= b);
}
pub proof fn lemma_be_inverse(b: [u8; 4])
    ensures spec_to_be(be32(b)) == b,
{
    lemma_to_be_roundtrip(be32(b));
    lemma_be32_inj(spec_to_be(be32(b)), b);
}
pub proof fn lemma_b16(x: u16, s: Seq<u8>, k: int)
    requires 0 <= k, k + 2 <= s.len(), s[k] == b16(x)[0], s[k + 1] == b16(x)[1],
    ensures be16([s[k], s[k + 1]]) == x,
{
    lemma_to_be16_roundtrip(x);
    assert([s[k], s[k + 1]] =~= spec_to_be16(x));
}
pub proof fn lemma_b32(x: u32, s: Seq<u8>, k: int)
    requires 0 <= k, k + 4 <= s.len(), s[k] == b32(x)[0], s[k + 1] == b32(x)[1], s[k + 2] == b32(x)[2], s[k + 3] == b32(x)[3],
    ensures be32([s[k], s[k + 1], s[k + 2], s[k + 3]]) == x,
{
    lemma_to_be_roundtrip(x);
    assert([s[k], s[k + 1], s[k + 2], s[k + 3]] =~= spec_to_be(x));
}
/// where each field sits in the encoding
pub proof fn lemma_enc_layout(m: DnsMessage)
    requires dns_representable(m),
    ensures wire_ok(m, dns_enc(m)), dns_enc(m).len() == 28 + m.question.qname@.len() + m.answer.name@.len() + m.answer.rdata@.len(),
{
    let e = dns_enc(m);
    let q = m.question.qname@;
    let n = m.answer.name@;
    let d = m.answer.rdata@;
    let o = 12 + q.len() as int;
    let p = o + 5 + n.len() as int;
    let h = dns_hdr_enc(m.header);
    let qe = dns_q_enc(m.question);
    let re = dns_rr_enc(m.answer);
    assert(h.len() == 12 && qe.len() == q.len() + 5 && re.len() == n.len() + 11 + d.len());
    assert forall|i: int| 0 <= i < 12 implies e[i] == h[i] by {}
    assert forall|i: int| 0 <= i < qe.len() implies e[12 + i] == qe[i] by {}
    assert forall|i: int| 0 <= i < re.len() implies e[o + 5 + i] == re[i] by {}
    lemma_b16(m.header.id, e, 0); lemma_b16(m.header.properties, e, 2); lemma_b16(m.header.qdcount, e, 4);
    lemma_b16(m.header.ancount, e, 6); lemma_b16(m.header.nscount, e, 8); lemma_b16(m.header.arcount, e, 10);
    assert forall|i: int| 0 <= i < q.len() implies e[12 + i] == q[i] by { assert(qe[i] == q[i]); }
    assert(e[o] == qe[q.len() as int]);
    let ql = q.len() as int;
    assert(e[o + 1] == qe[ql + 1] && e[o + 2] == qe[ql + 2] && e[o + 3] == qe[ql + 3] && e[o + 4] == qe[ql + 4]);
    lemma_b16(m.question.qtype, e, o + 1); lemma_b16(m.question.qclass, e, o + 3);
    assert forall|i: int| 0 <= i < n.len() implies e[o + 5 + i] == n[i] by { assert(re[i] == n[i]); }
    assert(e[p] == re[n.len() as int]);
    let nl = n.len() as int;
    assert(e[p + 1] == re[nl + 1] && e[p + 2] == re[nl + 2] && e[p + 3] == re[nl + 3] && e[p + 4] == re[nl + 4] && e[p + 5] == re[nl + 5]
        && e[p + 6] == re[nl + 6] && e[p + 7] == re[nl + 7] && e[p + 8] == re[nl + 8] && e[p + 9] == re[nl + 9] && e[p + 10] == re[nl + 10]);
    lemma_b16(m.answer.rec_type, e, p + 1); lemma_b16(m.answer.class, e, p + 3);
    lemma_b32(m.answer.ttl, e, p + 5); lemma_b16(m.answer.rdlength, e, p + 9);
    assert forall|i: int| 0 <= i < d.len() implies e[p + 11 + i] == d[i] by { assert(re[nl + 11 + i] == d[i]); }
}
/// reading is insensitive to what follows the encoding
pub proof fn lemma_pre_wire_ok(x: DnsMessage, all: Seq<u8>)
    requires pre(x, all),
    ensures wire_ok(x, all),
{
    lemma_enc_layout(x);
    let e = dns_enc(x);
    assert forall|i: int| 0 <= i < e.len() implies all[i] == e[i] by { assert(all.subrange(0, e.len() as int)[i] == all[i]); }
}
/// (C08, second clause) a value read off the wire re-encodes to the bytes that were consumed
pub proof fn lemma_reencode(m: DnsMessage, all: Seq<u8>)
    requires wire_ok(m, all),
    ensures dns_representable(m), is_prefix(dns_enc(m), all),
{
    lemma_enc_layout(m);
    let e = dns_enc(m);
    let q = m.question.qname@;
    let n = m.answer.name@;
    let d = m.answer.rdata@;
    let o = 12 + q.len() as int;
    let p = o + 5 + n.len() as int;
    // both e and all satisfy wire_ok(m, .): they agree byte for byte on the first |e| positions
    lemma_be16_inverse([all[0], all[1]]); lemma_be16_inverse([e[0], e[1]]);
    lemma_be16_inverse([all[2], all[3]]); lemma_be16_inverse([e[2], e[3]]);
    lemma_be16_inverse([all[4], all[5]]); lemma_be16_inverse([e[4], e[5]]);
    lemma_be16_inverse([all[6], all[7]]); lemma_be16_inverse([e[6], e[7]]);
    lemma_be16_inverse([all[8], all[9]]); lemma_be16_inverse([e[8], e[9]]);
    lemma_be16_inverse([all[10], all[11]]); lemma_be16_inverse([e[10], e[11]]);
    lemma_be16_inverse([all[o + 1], all[o + 2]]); lemma_be16_inverse([e[o + 1], e[o + 2]]);
    lemma_be16_inverse([all[o + 3], all[o + 4]]); lemma_be16_inverse([e[o + 3], e[o + 4]]);
    lemma_be16_inverse([all[p + 1], all[p + 2]]); lemma_be16_inverse([e[p + 1], e[p + 2]]);
    lemma_be16_inverse([all[p + 3], all[p + 4]]); lemma_be16_inverse([e[p + 3], e[p + 4]]);
    lemma_be_inverse([all[p + 5], all[p + 6], all[p + 7], all[p + 8]]); lemma_be_inverse([e[p + 5], e[p + 6], e[p + 7], e[p + 8]]);
    lemma_be16_inverse([all[p + 9], all[p + 10]]); lemma_be16_inverse([e[p + 9], e[p + 10]]);
    assert forall|i: int| 0 <= i < e.len() implies all[i] == e[i] by {
        if i < 12 {
        } else if i < o {
            assert(all[12 + (i - 12)] == q[i - 12] && e[12 + (i - 12)] == q[i - 12]);
        } else if i < o + 5 {
        } else if i < p {
            assert(all[o + 5 + (i - o - 5)] == n[i - o - 5] && e[o + 5 + (i - o - 5)] == n[i - o - 5]);
        } else if i < p + 11 {
        } else {
            assert(all[p + 11 + (i - p - 11)] == d[i - p - 11] && e[p + 11 + (i - p - 11)] == d[i - p - 11]);
        }
    }
    assert(all.subrange(0, e.len() as int) =~= e);
}
/// two values read off the same bytes are the same value (the delimiter makes the code prefix free)
pub proof fn lemma_unique(m: DnsMessage, x: DnsMessage, all: Seq<u8>)
    requires wire_ok(m, all), wire_ok(x, all),
    ensures dns_same(m, x),
{
    let (qm, qx) = (m.question.qname@, x.question.qname@);
    if qm.len() < qx.len() { assert(all[12 + qm.len() as int] == qx[qm.len() as int]); }
    if qx.len() < qm.len() { assert(all[12 + qx.len() as int] == qm[qx.len() as int]); }
    assert(qm =~= qx);
    let o = 12 + qm.len() as int;
    let (nm, nx) = (m.answer.name@, x.answer.name@);
    if nm.len() < nx.len() { assert(all[o + 5 + nm.len() as int] == nx[nm.len() as int]); }
    if nx.len() < nm.len() { assert(all[o + 5 + nx.len() as int] == nm[nx.len() as int]); }
    assert(nm =~= nx);
    assert(m.answer.rdata@ =~= x.answer.rdata@);
}
// `bytes.remaining()` is prophetic and may not be passed to a proof function: all-quantified forms
pub proof fn lemma_pre_wire_ok_all(x: DnsMessage)
    ensures forall|all: Seq<u8>| #[trigger] pre(x, all) ==> wire_ok(x, all),
{
    assert forall|all: Seq<u8>| #[trigger] pre(x, all) implies wire_ok(x, all) by { lemma_pre_wire_ok(x, all); }
}
pub proof fn lemma_reencode_all(m: DnsMessage)
    ensures forall|all: Seq<u8>| #[trigger] wire_ok(m, all) ==> dns_representable(m) && is_prefix(dns_enc(m), all),
{
    assert forall|all: Seq<u8>| #[trigger] wire_ok(m, all) implies dns_representable(m) && is_prefix(dns_enc(m), all) by { lemma_reencode(m, all); }
}
pub proof fn lemma_unique_all(m: DnsMessage, x: DnsMessage)
    ensures forall|all: Seq<u8>| #![trigger wire_ok(m, all), wire_ok(x, all)] wire_ok(m, all) && wire_ok(x, all) ==> dns_same(m, x),
{
    assert forall|all: Seq<u8>| #![trigger wire_ok(m, all), wire_ok(x, all)] wire_ok(m, all) && wire_ok(x, all) implies dns_same(m, x) by { lemma_unique(m, x, all); }
}
/// the round-trip clause is not vacuous
pub proof fn lemma_roundtrip_hypothesis_is_satisfiable(x: DnsMessage)
    requires dns_representable(x),
    ensures pre(x, dns_enc(x)),
{
    assert(dns_enc(x).subrange(0, dns_enc(x).len() as int) =~= dns_enc(x));
}

/// (C08) decode(encode(x)) == x, as a lemma over the two contracts: `wire` is what to_message's contract says it emits,
/// `r` is any result allowed by from_bytes' contract on that input
pub proof fn lemma_dns_roundtrip(x: DnsMessage, wire: Seq<u8>, r: Result<DnsMessage, ParseError>)
    requires
        dns_representable(x),
        wire == dns_enc(x),                                                                              // DnsMessage.to_message.emits_the_wire_layout
        (dns_representable(x) && is_prefix(dns_enc(x), wire)) ==> (r matches Ok(m) && dns_same(m, x)),   // DnsMessage.from_bytes.decoding_the_encoding_gives_back_the_value
    ensures r matches Ok(m) && dns_same(m, x),
{
    lemma_roundtrip_hypothesis_is_satisfiable(x);
}

impl DnsHeader {
//@ item sim/elvis-core/src/protocols/dns/dns_parsing.rs :: impl DnsHeader / fn build id=DnsHeader.build
//@ rewrite `header\.(\w+)\.to_be_bytes\(\)` => `vx_u16_to_be(header.\1)` ## core::to_be_bytes routed through the contract-carrying wrapper
//@ contract
    ensures r@ == dns_hdr_enc(header),   //# emits_the_header_layout [C08]
//@ end
}
impl DnsQuestion {
//@ item sim/elvis-core/src/protocols/dns/dns_parsing.rs :: impl DnsQuestion / fn build id=DnsQuestion.build
//@ rewrite `question\.(qtype|qclass)\.to_be_bytes\(\)` => `vx_u16_to_be(question.\1)` ## core::to_be_bytes routed through the contract-carrying wrapper
//@ rewrite `Vec::from\(\[b' '\]\)` => `vec![b' ']` ## Vec::from([u8; 1]) written as the equivalent vec! literal (array From impls are outside Verus)
//@ contract
    ensures r@ == dns_q_enc(question),   //# emits_the_question_layout [C08]
//@ end
}
impl DnsResourceRecord {
//@ item sim/elvis-core/src/protocols/dns/dns_parsing.rs :: impl DnsResourceRecord / fn build id=DnsResourceRecord.build
//@ rewrite `pub fn build\(mut answer: DnsResourceRecord\)` => `pub fn build(answer0: DnsResourceRecord)` ## `mut` parameter renamed and rebound by `let mut answer = answer0;` as the first statement
//@ rewrite `answer\.(rec_type|class|rdlength)\.to_be_bytes\(\)` => `vx_u16_to_be(answer.\1)` ## core::to_be_bytes routed through the contract-carrying wrapper
//@ rewrite `answer\.ttl\.to_be_bytes\(\)` => `vx_u32_to_be(answer.ttl)` ## core::to_be_bytes routed through the contract-carrying wrapper
//@ rewrite `Vec::from\(\[b' '\]\)` => `vec![b' ']` ## Vec::from([u8; 1]) written as the equivalent vec! literal
//@ contract
    ensures r@ == dns_rr_enc(answer0),   //# emits_the_record_layout [C08]
//@ start
        let mut answer = answer0;
//@ end
}
impl DnsMessage {
//@ item sim/elvis-core/src/protocols/dns/dns_parsing.rs :: impl DnsMessage / fn to_message id=DnsMessage.to_message
//@ rewrite `Message::from\(message_vec\)` => `Message::new_inner(Chunk::new(message_vec))` ## `From<Vec<u8>> for Message` is `Message::new(val)`, the generic wrapper `Self::new_inner(body.into())` with `From<Vec<u8>> for Chunk = Chunk::new`; inlined
//@ contract
    ensures
        // (C08) the encoder emits exactly the wire layout
        r matches Ok(msg) && msg.wf() && msg@ == dns_enc(self),   //# emits_the_wire_layout [C08]
//@ end
}

impl DnsMessage {
//@ item sim/elvis-core/src/protocols/dns/dns_parsing.rs :: impl DnsMessage / fn from_bytes id=DnsMessage.from_bytes
//@ rewrite `pub fn from_bytes\(mut bytes: impl Iterator<Item = u8>\)` => `#[verifier::exec_allows_no_decreases_clause] pub fn from_bytes(bytes0: impl Iterator<Item = u8>, Ghost(x): Ghost<DnsMessage>)` ## ghost parameter x (erased at run time): the value whose encoding the input may start with, for the round-trip clause; the `mut` parameter is renamed bytes0 and rebound by `let mut bytes = bytes0;` as the first statement (so that loop invariants can name the entry value); termination of the name loops is NOT verified (finiteness of the caller's iterator)
//@ rewrite `current = bytes\.next_u8\(\)\.ok_or\(HTS\)\?\n` => `current = bytes.next_u8().ok_or(HTS)?;\n` ## the loop body's unit-typed tail expression is made a statement so that a proof block can follow it
//@ contract
    // (C14) for every byte string the decoder returns a value or an error (every `?`, push and `i += 1` is an obligation)
    requires bytes0.obeys_prophetic_iter_laws(),
    ensures
        bytes0.remaining().len() < 12 ==> r is Err,   //# truncated_header_is_rejected [C14]
        r matches Ok(m) ==> bytes0.remaining().len() >= 12
            && m.header.id == be16([bytes0.remaining()[0], bytes0.remaining()[1]])
            && m.header.properties == be16([bytes0.remaining()[2], bytes0.remaining()[3]])
            && m.header.qdcount == be16([bytes0.remaining()[4], bytes0.remaining()[5]])
            && m.header.ancount == be16([bytes0.remaining()[6], bytes0.remaining()[7]])
            && m.header.nscount == be16([bytes0.remaining()[8], bytes0.remaining()[9]])
            && m.header.arcount == be16([bytes0.remaining()[10], bytes0.remaining()[11]])
            && m.answer.rdata@.len() == m.answer.rdlength,   //# header_fields_at_their_offsets_and_rdata_length [C08]
        // (C08) for every byte string the decoder accepts, re-encoding the decoded value reproduces the bytes that were consumed
        r matches Ok(m) ==> dns_representable(m) && is_prefix(dns_enc(m), bytes0.remaining()),   //# reencoding_reproduces_the_consumed_bytes [C08]
        // (C08) for every representable value x, decoding (anything that starts with) the encoding of x gives back x
        (dns_representable(x) && is_prefix(dns_enc(x), bytes0.remaining())) ==> (r matches Ok(m) && dns_same(m, x)),   //# decoding_the_encoding_gives_back_the_value [C08]
//@ start
        let mut bytes = bytes0;
        let ghost all = bytes0.remaining();
        let ghost xq = x.question.qname@;
        let ghost xn = x.answer.name@;
        let ghost xd = x.answer.rdata@;
        proof { lemma_pre_wire_ok_all(x); }
//@ after 1 `let id = bytes.next_`
        proof { assert(bytes.remaining() =~= all.subrange(2, all.len() as int)); }
//@ after 1 `let properties = bytes.next_`
        proof { assert(bytes.remaining() =~= all.subrange(4, all.len() as int)); }
//@ after 1 `let qdcount = bytes.next_`
        proof { assert(bytes.remaining() =~= all.subrange(6, all.len() as int)); }
//@ after 1 `let ancount = bytes.next_`
        proof { assert(bytes.remaining() =~= all.subrange(8, all.len() as int)); }
//@ after 1 `let nscount = bytes.next_`
        proof { assert(bytes.remaining() =~= all.subrange(10, all.len() as int)); }
//@ after 1 `let arcount = bytes.next_`
        proof { assert(bytes.remaining() =~= all.subrange(12, all.len() as int)); }
//@ after 1 `let mut current = bytes.next_u8().ok_or(HTS)?;`
        proof {
            assert(bytes.remaining() =~= all.subrange(13, all.len() as int));
            assert(qname@ =~= all.subrange(12, 12));
        }
//@ loop 1
            invariant bytes.obeys_prophetic_iter_laws(), all == bytes0.remaining(), all.len() >= 13, xq == x.question.qname@, xn == x.answer.name@, xd == x.answer.rdata@,
                id == be16([all[0], all[1]]), properties == be16([all[2], all[3]]), qdcount == be16([all[4], all[5]]),
                ancount == be16([all[6], all[7]]), nscount == be16([all[8], all[9]]), arcount == be16([all[10], all[11]]),
                13 + qname@.len() <= all.len(),
                bytes.remaining() == all.subrange(13 + qname@.len() as int, all.len() as int),
                qname@ == all.subrange(12, 12 + qname@.len() as int),
                no_sp(qname@),
                current == all[12 + qname@.len() as int],
                pre(x, all) ==> wire_ok(x, all) && qname@.len() <= xq.len(),
//@ loop-start 1
            proof { assert(pre(x, all) ==> qname@.len() < xq.len()); }
//@ loop-end 1
            proof {
                assert(bytes.remaining() =~= all.subrange(13 + qname@.len() as int, all.len() as int));
                assert(qname@ =~= all.subrange(12, 12 + qname@.len() as int));
                assert((pre(x, all) && qname@.len() > xq.len()) ==> qname@[xq.len() as int] == all[12 + xq.len() as int]);
            }
//@ before 1 `let qtype = bytes.next_`
        let ghost o = 12 + qname@.len() as int;
        proof {
            assert(all[o] == 0x20u8);
            assert((pre(x, all) && qname@.len() < xq.len()) ==> all[o] == xq[qname@.len() as int]);
            assert(pre(x, all) ==> qname@ =~= xq);
        }
//@ after 1 `let qtype = bytes.next_`
        proof { assert(bytes.remaining() =~= all.subrange(o + 3, all.len() as int)); }
//@ after 1 `let qclass = bytes.next_`
        proof { assert(bytes.remaining() =~= all.subrange(o + 5, all.len() as int)); }
//@ after 2 `let mut current = bytes.next_u8().ok_or(HTS)?;`
        proof {
            assert(bytes.remaining() =~= all.subrange(o + 6, all.len() as int));
            assert(name@ =~= all.subrange(o + 5, o + 5));
        }
//@ loop 2
            invariant bytes.obeys_prophetic_iter_laws(), all == bytes0.remaining(), all.len() >= 13, xq == x.question.qname@, xn == x.answer.name@, xd == x.answer.rdata@,
                id == be16([all[0], all[1]]), properties == be16([all[2], all[3]]), qdcount == be16([all[4], all[5]]),
                ancount == be16([all[6], all[7]]), nscount == be16([all[8], all[9]]), arcount == be16([all[10], all[11]]),
                o == 12 + qname@.len(), o + 5 <= all.len(), qname@ == all.subrange(12, o), no_sp(qname@), all[o] == 0x20u8,
                qtype == be16([all[o + 1], all[o + 2]]), qclass == be16([all[o + 3], all[o + 4]]),
                o + 6 + name@.len() <= all.len(), rdata@.len() == 0,
                bytes.remaining() == all.subrange(o + 6 + name@.len() as int, all.len() as int),
                name@ == all.subrange(o + 5, o + 5 + name@.len() as int),
                no_sp(name@),
                current == all[o + 5 + name@.len() as int],
                pre(x, all) ==> wire_ok(x, all) && qname@ == xq && name@.len() <= xn.len(),
//@ loop-start 2
            proof { assert(pre(x, all) ==> name@.len() < xn.len()); }
//@ loop-end 2
            proof {
                assert(bytes.remaining() =~= all.subrange(o + 6 + name@.len() as int, all.len() as int));
                assert(name@ =~= all.subrange(o + 5, o + 5 + name@.len() as int));
                assert((pre(x, all) && name@.len() > xn.len()) ==> name@[xn.len() as int] == all[o + 5 + xn.len() as int]);
            }
//@ before 1 `let rec_type = bytes.next_`
        let ghost p = o + 5 + name@.len() as int;
        proof {
            assert(all[p] == 0x20u8);
            assert((pre(x, all) && name@.len() < xn.len()) ==> all[p] == xn[name@.len() as int]);
            assert(pre(x, all) ==> name@ =~= xn);
        }
//@ after 1 `let rec_type = bytes.next_`
        proof { assert(bytes.remaining() =~= all.subrange(p + 3, all.len() as int)); }
//@ after 1 `let class = bytes.next_`
        proof { assert(bytes.remaining() =~= all.subrange(p + 5, all.len() as int)); }
//@ after 1 `let ttl = bytes.next_`
        proof { assert(bytes.remaining() =~= all.subrange(p + 9, all.len() as int)); }
//@ after 1 `let rdlength = bytes.next_`
        proof { assert(bytes.remaining() =~= all.subrange(p + 11, all.len() as int)); }
//@ loop 3
            invariant bytes.obeys_prophetic_iter_laws(), all == bytes0.remaining(), all.len() >= 13, xq == x.question.qname@, xn == x.answer.name@, xd == x.answer.rdata@,
                id == be16([all[0], all[1]]), properties == be16([all[2], all[3]]), qdcount == be16([all[4], all[5]]),
                ancount == be16([all[6], all[7]]), nscount == be16([all[8], all[9]]), arcount == be16([all[10], all[11]]),
                o == 12 + qname@.len(), qname@ == all.subrange(12, o), no_sp(qname@), all[o] == 0x20u8,
                qtype == be16([all[o + 1], all[o + 2]]), qclass == be16([all[o + 3], all[o + 4]]),
                p == o + 5 + name@.len(), name@ == all.subrange(o + 5, p), no_sp(name@), all[p] == 0x20u8,
                rec_type == be16([all[p + 1], all[p + 2]]), class == be16([all[p + 3], all[p + 4]]),
                ttl == be32([all[p + 5], all[p + 6], all[p + 7], all[p + 8]]), rdlength == be16([all[p + 9], all[p + 10]]),
                i <= rdlength, rdata@.len() == i, p + 11 + i <= all.len(),
                bytes.remaining() == all.subrange(p + 11 + i, all.len() as int),
                rdata@ == all.subrange(p + 11, p + 11 + i),
                pre(x, all) ==> wire_ok(x, all) && qname@ == xq && name@ == xn,
//@ loop-end 3
            proof {
                assert(bytes.remaining() =~= all.subrange(p + 11 + i, all.len() as int));
                assert(rdata@ =~= all.subrange(p + 11, p + 11 + i));
            }
//@ before 1 `let header: DnsHeader = DnsHeader {`
        proof {
            let m = DnsMessage {
                header: DnsHeader { id, properties, qdcount, ancount, nscount, arcount },
                question: DnsQuestion { qname, qtype, qclass },
                answer: DnsResourceRecord { name, rec_type, class, ttl, rdlength, rdata },
            };
            assert(wire_ok(m, all));
            lemma_reencode_all(m);
            lemma_unique_all(m, x);
        }
//@ end
}

impl DnsQuestion {
//@ item sim/elvis-core/src/protocols/dns/dns_parsing.rs :: impl DnsQuestion / fn query_name id=DnsQuestion.query_name
//@ rewrite `\.map_err\(\|_\| ` => `.map_err(|_e| ` ## Verus needs a named closure parameter
//@ contract
    // (C14) a decoded question name is arbitrary bytes: asking for it as a string must not panic
    ensures true,   //# never_panics [C14]
//@ end
}

} // verus!

// Harnesses for tcp/tcb.rs — injected (add-only) as `mod vx_kani_tcb` of tcb.rs.
//
// Whole-call Kani harnesses on the TCB are infeasible (measured: VecDeque<Chunk>,
// Arc and BinaryHeap push CBMC beyond 15 min / 55 GB), so the TCB is decided by
// Verus.  What lives here:
//   * kind=complete  : loop-free scalar predicates over their full domain (Kani)
//   * kind=witness   : concrete call sequences on the real Tcb that demonstrate a
//                      failed Verus obligation on the real code (run only as plain
//                      #[test] under --cfg vx_replay, never by Kani)
use super::*;
#[path = "/verif/vx/kani_support.rs"]
mod sup;
use sup::*;

fn ids() -> (Endpoints, Ipv4Address, Ipv4Address) {
    let local = Ipv4Address::new([10, 0, 0, 1]);
    let remote = Ipv4Address::new([10, 0, 0, 2]);
    (Endpoints::new(Endpoint::new(local, 1000), Endpoint::new(remote, 2000)), local, remote)
}

/// an ESTABLISHED endpoint with ISS 100, IRS 300 (RCV.NXT = 301, SND.NXT = 101), peer window `wnd`
#[cfg(vx_replay)]
fn established(wnd: u16) -> Tcb {
    let (id, local, remote) = ids();
    let mut tcb = Tcb::open(id, 100, 1500);
    let _ = tcb.segments();
    let synack = TcpHeaderBuilder::new(2000, 1000, 300).syn().ack(101).wnd(wnd).build(remote, local, [].into_iter(), 0).unwrap();
    assert_eq!(tcb.segment_arrives(Segment::new(synack, Message::default())), SegmentArrivesResult::Ok);
    assert_eq!(tcb.status(), State::Established);
    let _ = tcb.segments();
    tcb
}

//# id=witness.syn_sent_data_segment props=C17,C01 kind=witness pair=tcb.Tcb.process_segment.syn_sent_ignores_segments_without_syn_or_rst,tcb.Tcb.process_segment.safety
// SYN-SENT: a segment with neither SYN nor RST must be dropped (RFC 9293 3.10.7.3 fifth).
// Expected on a correct stack: no panic, nothing delivered, state unchanged.
#[cfg(vx_replay)]
#[test]
fn h_w_syn_sent_data_segment() {
    let (id, local, remote) = ids();
    // (a) far outside any window: must not crash
    let mut tcb = Tcb::open(id, 100, 1500);
    let h = TcpHeaderBuilder::new(2000, 1000, 100_000).build(remote, local, [].into_iter(), 1).unwrap();
    let _ = tcb.segment_arrives(Segment::new(h, Message::new(vec![7u8])));
    assert_eq!(tcb.status(), State::SynSent);
    // (b) sequence number 0: must not be delivered to the application
    let mut tcb = Tcb::open(id, 100, 1500);
    let h = TcpHeaderBuilder::new(2000, 1000, 0).build(remote, local, [].into_iter(), 1).unwrap();
    let _ = tcb.segment_arrives(Segment::new(h, Message::new(vec![7u8])));
    assert_eq!(tcb.receive().len(), 0, "data from a peer that never sent a SYN was delivered");
}

//# id=witness.stale_fin_with_text props=C17 kind=witness pair=tcb.Tcb.process_segment.safety
// ESTABLISHED: FIN+text whose last octet is RCV.NXT-1 passes the acceptability test
// (one octet of slack at the left edge) but lies entirely below RCV.NXT.
#[cfg(vx_replay)]
#[test]
fn h_w_stale_fin_with_text() {
    let (_, local, remote) = ids();
    let mut tcb = established(4096);
    let h = TcpHeaderBuilder::new(2000, 1000, 296).fin().ack(101).wnd(4096).build(remote, local, [].into_iter(), 4).unwrap();
    let r = tcb.segment_arrives(Segment::new(h, Message::new(vec![1u8, 2, 3, 4])));
    assert_eq!(r, SegmentArrivesResult::Ok);
    assert_eq!(tcb.receive().len(), 0);
}

//# id=witness.window_shrinks_below_queued props=C17 kind=witness pair=tcb.Tcb.segments.safety
// the peer shrinks its window below what is already in flight: segments() must not crash
// and must not emit new data
#[cfg(vx_replay)]
#[test]
fn h_w_window_shrink() {
    let (_, local, remote) = ids();
    let mut tcb = established(1000);
    tcb.send(Message::new(vec![0u8; 1000]));
    let out = tcb.segments();
    assert_eq!(out.iter().map(|s| s.text.len()).sum::<usize>(), 1000);
    // acknowledge one octet and advertise a window of 10
    let h = TcpHeaderBuilder::new(2000, 1000, 301).ack(102).wnd(10).build(remote, local, [].into_iter(), 0).unwrap();
    assert_eq!(tcb.segment_arrives(Segment::new(h, Message::default())), SegmentArrivesResult::Ok);
    tcb.send(Message::new(vec![1u8; 100]));
    let out = tcb.segments();
    assert!(out.iter().all(|s| s.text.len() == 0 || s.header.seq == 101), "new data emitted beyond the advertised window");
}

const M32: u64 = 1 << 32;
fn cdist(a: u32, b: u32) -> u64 { (b as u64 + M32 - a as u64) % M32 }
fn in_win(nxt: u32, wnd: u16, n: u32) -> bool { cdist(nxt.wrapping_sub(1), n) < wnd as u64 + 1 }

//# id=is_seq_ok.rfc9293_table6 fns=Tcb::is_seq_ok+Tcb::is_in_rcv_window props=C17,C01 kind=complete pair=tcb.Tcb.is_seq_ok.rfc9293_table6,tcb.Tcb.is_in_rcv_window.window_with_left_slack
// segment acceptability (RFC 9293 Table 6 with one octet of slack at the left edge) over the full scalar domain
#[cfg_attr(kani, kani::proof)]
#[cfg_attr(vx_replay, test)]
fn h_is_seq_ok() {
    let (id, _, _) = ids();
    let nxt: u32 = any();
    let wnd: u16 = any();
    let tcb = Tcb::new(id, 1500, Initiation::Open, State::Established, SendSequenceSpace::default(),
        ReceiveSequenceSpace { irs: 0, nxt, wnd });
    let data_len: u32 = any();
    let seq: u32 = any();
    let (syn, fin): (bool, bool) = (any(), any());
    vx_assume!(data_len <= 65535);
    let n: u32 = any();
    assert_eq!(tcb.is_in_rcv_window(n), in_win(nxt, wnd, n));
    let seg_len = data_len + fin as u32 + syn as u32;
    let want = if seg_len == 0 {
        if wnd == 0 { seq == nxt.wrapping_sub(1) || seq == nxt } else { in_win(nxt, wnd, seq) }
    } else if wnd == 0 {
        false
    } else {
        in_win(nxt, wnd, seq) || in_win(nxt, wnd, seq.wrapping_add(seg_len - 1))
    };
    assert_eq!(tcb.is_seq_ok(data_len, seq, syn, fin), want);
}

//# id=witness.close_with_unsegmentized_data props=C03 kind=witness pair=tcb.Tcb.close.fin_after_unsegmentized_data
// KNOWN FINDING K-C03-close: data submitted before close() but not yet segmentized.
// Expected on a correct stack: the byte is transmitted and the FIN is numbered after it.
#[cfg(vx_replay)]
#[test]
fn h_w_close_with_unsegmentized_data() {
    let mut tcb = established(4096);
    tcb.send(Message::new(vec![42u8]));
    assert_eq!(tcb.close(), CloseResult::Ok);
    let out = tcb.segments();
    let data: usize = out.iter().map(|s| s.text.len()).sum();
    let fin = out.iter().find(|s| s.header.ctl.fin()).expect("FIN queued");
    assert_eq!(data, 1, "the byte submitted before close() was never transmitted");
    assert_eq!(fin.header.seq, 102, "FIN must be numbered after the submitted byte (SND.NXT was 101)");
}

//# id=witness.syn_with_data props=C01 kind=witness pair=tcb.segment_arrives_listen.text_on_a_syn_is_queued_at_irs_plus_one,tcb.Tcb.process_segment.text_on_a_syn_is_delivered_whole
// RFC 9293 3.4: a SYN segment may carry data; it occupies the sequence numbers after the SYN and is delivered once the
// connection is established.  Both the passive side (SYN + data) and the active side (SYN,ACK + data) must deliver it whole.
#[cfg(vx_replay)]
#[test]
fn h_w_syn_with_data() {
    let (id, local, remote) = ids();
    // passive open: SYN + "hello" arrives in LISTEN, then the handshake completes
    let syn = TcpHeaderBuilder::new(2000, 1000, 300).syn().wnd(4096).build(remote, local, b"hello".iter().cloned(), 5).unwrap();
    let Some(ListenResult::Tcb(mut tcb)) = segment_arrives_listen(Segment::new(syn, Message::new(b"hello".to_vec())), local, remote, 100, 1500) else {
        panic!("a SYN creates a TCB");
    };
    let _ = tcb.segments();
    let ack = TcpHeaderBuilder::new(2000, 1000, 306).ack(101).wnd(4096).build(remote, local, [].into_iter(), 0).unwrap();
    let _ = tcb.segment_arrives(Segment::new(ack, Message::default()));
    assert_eq!(tcb.status(), State::Established);
    assert_eq!(tcb.receive().to_vec(), b"hello".to_vec(), "passive side: data carried by the SYN");
    // active open: SYN,ACK + "world" arrives in SYN-SENT
    let mut tcb = Tcb::open(id, 100, 1500);
    let _ = tcb.segments();
    let synack = TcpHeaderBuilder::new(2000, 1000, 300).syn().ack(101).wnd(4096).build(remote, local, b"world".iter().cloned(), 5).unwrap();
    let _ = tcb.segment_arrives(Segment::new(synack, Message::new(b"world".to_vec())));
    assert_eq!(tcb.status(), State::Established);
    assert_eq!(tcb.receive().to_vec(), b"world".to_vec(), "active side: data carried by the SYN,ACK");
}

// ---------------------------------------------------------------------------
// Witness scenarios ported from the seed corpus (two-endpoint exchanges on the real Tcb; see units/tcb/w/*.rs)
// ---------------------------------------------------------------------------
#[cfg(vx_replay)]
#[path = "/verif/units/tcb/w/partial_ack.rs"]
mod w_partial_ack;
#[cfg(vx_replay)]
#[path = "/verif/units/tcb/w/fin_reack.rs"]
mod w_fin_reack;
#[cfg(vx_replay)]
#[path = "/verif/units/tcb/w/close_loss.rs"]
mod w_close_loss;
#[cfg(vx_replay)]
#[path = "/verif/units/tcb/w/window_partial_ack.rs"]
mod w_window_partial_ack;

//# id=witness.partial_ack_keeps_the_unacknowledged_tail props=C01,C02,C12,C17 kind=witness pair=tcb.Tcb.remove_acked_from_retransmission.safety,tcb.Tcb.remove_acked_from_retransmission.keeps_only_unacknowledged,tcb.Tcb.remove_acked_from_retransmission.never_drops_unacknowledged
// an acknowledgment that lands inside a queued segment must leave that segment on the retransmission queue
#[cfg(vx_replay)]
#[test]
fn h_w_partial_ack() {
    w_partial_ack::late_reader_partial_acknowledgment();
}

//# id=witness.partial_ack_respects_the_window props=C17 kind=witness pair=tcb.Tcb.remove_acked_from_retransmission.safety,tcb.Tcb.segments.new_data_stays_inside_send_window
// after a partial ACK no new data may go beyond the right edge of the advertised window
#[cfg(vx_replay)]
#[test]
fn h_w_window_partial_ack() {
    w_window_partial_ack::partial_ack_does_not_send_beyond_advertised_window();
}

//# id=witness.unacknowledged_fin_is_retransmitted props=C03 kind=witness pair=tcb.Tcb.remove_acked_from_retransmission.safety
// a FIN stays on the retransmission queue until it is acknowledged itself; both ends are released after a lost FIN
#[cfg(vx_replay)]
#[test]
fn h_w_close_loss() {
    w_close_loss::close_with_data_in_flight_and_lost_fin();
    w_close_loss::close_with_lost_fin_eventually_releases_both();
}

//# id=witness.retransmitted_fin_is_reacknowledged props=C03,C01 kind=witness pair=tcb.Tcb.process_segment.fin_is_acknowledged_even_when_retransmitted
// simultaneous close with both FIN acknowledgments lost: the retransmitted FINs must be acknowledged again
#[cfg(vx_replay)]
#[test]
fn h_w_fin_reack() {
    w_fin_reack::simultaneous_close_with_both_fin_acks_lost();
}

#[cfg(vx_replay)]
#[path = "/verif/units/tcb/w/isn_independence.rs"]
mod w_isn;

//# id=witness.behaviour_does_not_depend_on_the_isn props=C12,C01,C02 kind=witness pair=tcb.Tcb.process_segment.appended_bytes_continue_the_stream,tcb.Tcb.process_segment.acceptable_text_is_delivered,tcb.Tcb.process_segment.text_on_a_syn_is_delivered_whole,tcb.Tcb.remove_acked_from_retransmission.safety,tcb.Tcb.segments.new_segments_carry_the_stream_in_order,tcb.Tcb.segments.safety,tcb.Tcb.process_segment.safety
// the same lossy, duplicating exchange for seven ISN pairs (wrap during handshake / transfer on either side)
#[cfg(vx_replay)]
#[test]
fn h_w_isn_independence() {
    w_isn::behaviour_does_not_depend_on_the_isn();
}

//# id=witness.window_updates_across_the_wrap props=C17,C12 kind=witness pair=tcb.Tcb.ack_established_processing.window_follows_the_latest_advertisement,tcb.Tcb.ack_established_processing.safety
#[cfg(vx_replay)]
#[test]
fn h_w_window_update_wrap() {
    w_isn::window_updates_are_followed_across_the_wrap();
}

//# id=witness.data_after_our_close props=C03,C01 kind=witness pair=tcb.Tcb.process_segment.acceptable_text_is_delivered
#[cfg(vx_replay)]
#[test]
fn h_w_data_after_close() {
    w_isn::data_after_our_close_is_still_delivered();
}

//# id=witness.late_reader props=C01,C02 kind=witness pair=tcb.Tcb.process_segment.appended_bytes_continue_the_stream,tcb.Tcb.process_segment.acceptable_text_is_delivered
#[cfg(vx_replay)]
#[test]
fn h_w_late_reader() {
    w_isn::partly_accepted_segment_is_completed_later();
}

#[cfg(vx_replay)]
#[path = "/verif/units/tcb/w/open_close.rs"]
mod w_open_close;

//# id=witness.simultaneous_open_and_close props=C03 kind=witness pair=tcb.Tcb.process_segment.only_rfc9293_transitions,tcb.Tcb.process_segment.release_only_by_final_ack_or_reset,tcb.Tcb.advance_time.released_exactly_when_time_wait_expires,tcb.Tcb.close.close_transitions
#[cfg(vx_replay)]
#[test]
fn h_w_open_close() {
    w_open_close::simultaneous_open_reaches_established_and_carries_data();
    w_open_close::simultaneous_close_releases_both_after_time_wait();
    w_open_close::data_in_both_directions_survives_the_closes();
}

// ---------------------------------------------------------------------------
// BOUNDED scenario for the clauses of C01 / C03 / C12 that no per-call contract expresses (two-endpoint composition,
// bounded liveness, release of both ends): see units/tcb/w/two_endpoints.rs.  kind=scenario: run as a plain test on the
// real code in every check, listed under `bounded` in the evidence, never counted as proved.
// ---------------------------------------------------------------------------
#[cfg(vx_replay)]
#[path = "/verif/units/tcb/w/two_endpoints.rs"]
mod w_two_endpoints;

//# id=scenario.two_endpoints_over_a_faulty_network props=C01,C03,C12,C02 kind=scenario bound=300_pseudo_random_histories_le_6000_octets_per_direction_60_lossy_steps_40_loss_free_rounds pair=tcb.Tcb.process_segment.appended_bytes_continue_the_stream,tcb.Tcb.segments.safety
#[cfg(vx_replay)]
#[test]
fn h_s_two_endpoints() {
    w_two_endpoints::run(0..w_two_endpoints::SEEDS);
}

//# id=witness.text_processed_together_with_the_fin_is_delivered props=C01,C03,C02 kind=witness pair=tcb.Tcb.receive.delivers_everything_buffered
// B has closed (FIN-WAIT-2); A sends "hello" and closes; A's FIN overtakes the data segment.  When the data arrives, B
// processes data and FIN in one segment_arrives call and is in TIME-WAIT when the application reads: the text must
// still be handed out (it was submitted before A's close).
#[cfg(vx_replay)]
#[test]
fn h_w_text_with_overtaking_fin() {
    let (id_a, a_addr, b_addr) = ids();
    let id_b = Endpoints::new(id_a.remote, id_a.local);
    let mut a = Tcb::open(id_a, 100, 1500);
    let syn = a.segments().remove(0);
    let mut b = match segment_arrives_listen(syn, b_addr, a_addr, 300, 1500) { Some(ListenResult::Tcb(t)) => t, _ => panic!("no tcb") };
    let _ = id_b;
    let synack = b.segments().remove(0);
    let _ = a.segment_arrives(synack);
    for s in a.segments() { let _ = b.segment_arrives(s); }
    assert_eq!((a.status(), b.status()), (State::Established, State::Established));
    // B closes; A acknowledges the FIN
    let _ = b.close();
    for s in b.segments() { let _ = a.segment_arrives(s); }
    for s in a.segments() { let _ = b.segment_arrives(s); }
    assert_eq!((a.status(), b.status()), (State::CloseWait, State::FinWait2));
    // A sends its last data and closes
    a.send(Message::new("hello"));
    let mut data = a.segments();
    let _ = a.close();
    let mut fin = a.segments();
    assert!(data.len() == 1 && fin.iter().any(|s| s.header.ctl.fin()));
    // the FIN overtakes the data
    for s in fin.drain(..) { let _ = b.segment_arrives(s); }
    assert_eq!(b.receive().len(), 0);
    for s in data.drain(..) { let _ = b.segment_arrives(s); }
    assert_eq!(b.receive().to_vec(), b"hello".to_vec(), "text submitted before the peer's close was not handed to the application (state {:?})", b.status());
}

//# id=scenario.window_counts_the_unacknowledged_syn props=C17 kind=scenario bound=one_call_sequence_passive_open_65535_octets_submitted_before_the_handshake_completes pair=tcb.Tcb.segments.new_data_stays_inside_send_window
// an endpoint whose own SYN is still unacknowledged (SYN-RECEIVED) and that has more than a window of data to send: the
// SYN occupies one sequence number, so the data must stop one octet earlier (defect of the pinned tree, fixed: e430ca04)
#[cfg(vx_replay)]
#[test]
fn h_s_window_counts_syn() {
    let (id_a, a_addr, b_addr) = ids();
    let mut a = Tcb::open(id_a, 100, 1500);
    let syn = a.segments().remove(0);
    let mut b = match segment_arrives_listen(syn, b_addr, a_addr, 300, 1500) { Some(ListenResult::Tcb(t)) => t, _ => panic!("no tcb") };
    assert_eq!(b.status(), State::SynReceived);
    b.send(Message::new(vec![7u8; 70_000]));
    let out = b.segments();
    let end = out.iter().filter(|s| s.text.len() > 0).map(|s| s.header.seq.wrapping_add(s.text.len() as u32).wrapping_sub(b.snd.una)).max().unwrap_or(0);
    assert!(end <= b.snd.wnd as u32, "data reaches {end} octets beyond SND.UNA although the peer advertised a window of {}", b.snd.wnd);
}

//# id=witness.duplicate_text_is_reacknowledged props=C01,C03 kind=witness pair=tcb.Tcb.process_segment.processed_text_is_acknowledged_even_when_nothing_is_new
// the acknowledgment of the last data segment is lost; the sender retransmits the segment: the receiver must acknowledge
// again although none of the text is new, otherwise the sender's retransmission queue never drains
#[cfg(vx_replay)]
#[test]
fn h_w_duplicate_text_is_reacknowledged() {
    let (_, local, remote) = ids();
    let mut tcb = established(4096);
    let h = TcpHeaderBuilder::new(2000, 1000, 301).ack(101).wnd(4096).build(remote, local, [1u8, 2, 3, 4].into_iter(), 4).unwrap();
    assert_eq!(tcb.segment_arrives(Segment::new(h, Message::new(vec![1u8, 2, 3, 4]))), SegmentArrivesResult::Ok);
    assert_eq!(tcb.receive().len(), 4);
    let acks = tcb.segments();
    assert!(acks.iter().any(|s| s.header.ctl.ack() && s.header.ack == 305), "the text was not acknowledged");
    // the same segment once more (its acknowledgment was lost)
    assert_eq!(tcb.segment_arrives(Segment::new(h, Message::new(vec![1u8, 2, 3, 4]))), SegmentArrivesResult::Ok);
    assert_eq!(tcb.receive().len(), 0, "a duplicate was delivered twice");
    let acks = tcb.segments();
    assert!(acks.iter().any(|s| s.header.ctl.ack() && s.header.ack == 305), "a duplicate whose acknowledgment was lost is not acknowledged again");
}

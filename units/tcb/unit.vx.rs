//@ unit tcb props=C01,C03,C12,C17
//@ include vx/prelude.rs
//@ include vx/be_bytes.rs
use std::collections::VecDeque;
use std::collections::BinaryHeap;
use std::time::Duration;
use std::mem;
use core::cmp::Ordering;
use vstd::std_specs::cmp::*;
use vstd::std_specs::convert::*;
use vstd::std_specs::iter::IteratorSpec;
//@ import-unit message
//@ import-unit modcmp
//@ include vx/heap_spec.rs
//@ include vx/tcb_std.rs
verus! {

// ===========================================================================
// tcp_parsing.rs: Control, TcpHeader, TcpHeaderBuilder (default feature set)
// ===========================================================================
//@ item sim/elvis-core/src/protocols/ipv4/ipv4_address.rs :: struct Ipv4Address strip-attrs
//@ rewrite `pub struct Ipv4Address\(\[u8; 4\]\);` => `#[derive(Clone, Copy)] pub struct Ipv4Address(pub [u8; 4]);` ## visibility only; other derives dropped (not used here)
//@ end
impl FromSpecImpl<Ipv4Address> for [u8; 4] {
    open spec fn obeys_from_spec() -> bool { true }
    open spec fn from_spec(a: Ipv4Address) -> Self { a.0 }
}
//@ item sim/elvis-core/src/protocols/ipv4/ipv4_address.rs :: impl From<Ipv4Address> for [u8; 4] id=bytes.from_Ipv4Address
//@ end

//@ item sim/elvis-core/src/protocols/tcp/tcp_parsing.rs :: const BASE_HEADER_WORDS
//@ end
//@ item sim/elvis-core/src/protocols/tcp/tcp_parsing.rs :: const BASE_HEADER_OCTETS
//@ end
//@ item sim/elvis-core/src/protocols/tcp/tcp_parsing.rs :: struct Control strip-attrs
//@ rewrite `pub struct Control\(u8\);` => `#[derive(Clone, Copy)] pub struct Control(pub u8);` ## visibility only; derive(Default, Hash, PartialEq, Eq) dropped (Default replaced at its use sites)
//@ end
//@ item sim/elvis-core/src/protocols/tcp/tcp_parsing.rs :: struct TcpHeader strip-attrs
//@ rewrite `pub struct TcpHeader \{` => `#[derive(Clone, Copy)] pub struct TcpHeader {` ## derives other than Clone, Copy dropped
//@ end
//@ item sim/elvis-core/src/protocols/tcp/tcp_parsing.rs :: struct TcpHeaderBuilder strip-attrs
//@ rewrite `pub struct TcpHeaderBuilder\(TcpHeader\);` => `pub struct TcpHeaderBuilder(pub TcpHeader);` ## visibility only
//@ end
//@ item sim/elvis-core/src/protocols/tcp/tcp_parsing.rs :: enum BuildHeaderError
//@ rewrite `#\[derive\(Debug, ThisError, PartialEq, Eq, Clone, Copy\)\]` => `#[derive(Debug, PartialEq, Eq, Clone, Copy)]` ## thiserror derive dropped (Display impl only)
//@ rewrite `#\[error\("[^"]*"\)\]` => `` ## thiserror attribute dropped
//@ end

/// RFC 9293 control bits: FIN=0 SYN=1 RST=2 PSH=3 ACK=4 URG=5
pub open spec fn flag(c: Control, k: u8) -> bool { (c.0 >> k) & 1u8 == 1u8 }
pub open spec fn with_flag(c: Control, k: u8, v: bool) -> Control { Control((c.0 & !(1u8 << k)) | ((if v { 1u8 } else { 0u8 }) << k)) }

pub proof fn lemma_with_flag(x: u8, k: u8, v: bool, j: u8)
    requires k < 8, j < 8,
    ensures flag(with_flag(Control(x), k, v), j) == (if j == k { v } else { flag(Control(x), j) }),
{
    let b = if v { 1u8 } else { 0u8 };
    assert(k < 8 && j < 8 && b <= 1 ==> (((((x & !(1u8 << k)) | (b << k)) >> j) & 1u8 == 1u8) == (if j == k { b == 1 } else { (x >> j) & 1u8 == 1u8 }))) by (bit_vector);
}

pub broadcast proof fn lemma_with_flag_b(c: Control, k: u8, v: bool, j: u8)
    requires k < 8, j < 8,
    ensures #[trigger] flag(with_flag(c, k, v), j) == (if j == k { v } else { flag(c, j) }),
{
    lemma_with_flag(c.0, k, v, j);
}
pub broadcast proof fn lemma_zero_flags(x: u8, j: u8)
    requires x == 0, j < 8,
    ensures !(#[trigger] flag(Control(x), j)),
{
    assert(j < 8 ==> (0u8 >> j) & 1u8 == 0u8) by (bit_vector);
}

impl Control {
    pub open spec fn sfin(self) -> bool { flag(self, 0) }
    pub open spec fn ssyn(self) -> bool { flag(self, 1) }
    pub open spec fn srst(self) -> bool { flag(self, 2) }
    pub open spec fn spsh(self) -> bool { flag(self, 3) }
    pub open spec fn sack(self) -> bool { flag(self, 4) }
    pub open spec fn surg(self) -> bool { flag(self, 5) }

//@ item sim/elvis-core/src/protocols/tcp/tcp_parsing.rs :: impl Control / fn bit id=Control.bit
//@ contract
    requires bit < 8,
    ensures r == flag(self, bit),
//@ end
//@ item sim/elvis-core/src/protocols/tcp/tcp_parsing.rs :: impl Control / fn set_bit id=Control.set_bit
//@ contract
    requires bit < 8,
    ensures *final(self) == with_flag(*old(self), bit, state),
//@ end
//@ item sim/elvis-core/src/protocols/tcp/tcp_parsing.rs :: impl Control / fn urg id=Control.urg
//@ contract
    ensures r == self.surg(),
//@ end
//@ item sim/elvis-core/src/protocols/tcp/tcp_parsing.rs :: impl Control / fn ack id=Control.ack
//@ contract
    ensures r == self.sack(),
//@ end
//@ item sim/elvis-core/src/protocols/tcp/tcp_parsing.rs :: impl Control / fn psh id=Control.psh
//@ contract
    ensures r == self.spsh(),
//@ end
//@ item sim/elvis-core/src/protocols/tcp/tcp_parsing.rs :: impl Control / fn rst id=Control.rst
//@ contract
    ensures r == self.srst(),
//@ end
//@ item sim/elvis-core/src/protocols/tcp/tcp_parsing.rs :: impl Control / fn syn id=Control.syn
//@ contract
    ensures r == self.ssyn(),
//@ end
//@ item sim/elvis-core/src/protocols/tcp/tcp_parsing.rs :: impl Control / fn fin id=Control.fin
//@ contract
    ensures r == self.sfin(),
//@ end
//@ item sim/elvis-core/src/protocols/tcp/tcp_parsing.rs :: impl Control / fn set_urg id=Control.set_urg
//@ contract
    ensures *final(self) == with_flag(*old(self), 5, state),
//@ end
//@ item sim/elvis-core/src/protocols/tcp/tcp_parsing.rs :: impl Control / fn set_ack id=Control.set_ack
//@ contract
    ensures *final(self) == with_flag(*old(self), 4, state),
//@ end
//@ item sim/elvis-core/src/protocols/tcp/tcp_parsing.rs :: impl Control / fn set_psh id=Control.set_psh
//@ contract
    ensures *final(self) == with_flag(*old(self), 3, state),
//@ end
//@ item sim/elvis-core/src/protocols/tcp/tcp_parsing.rs :: impl Control / fn set_rst id=Control.set_rst
//@ contract
    ensures *final(self) == with_flag(*old(self), 2, state),
//@ end
//@ item sim/elvis-core/src/protocols/tcp/tcp_parsing.rs :: impl Control / fn set_syn id=Control.set_syn
//@ contract
    ensures *final(self) == with_flag(*old(self), 1, state),
//@ end
//@ item sim/elvis-core/src/protocols/tcp/tcp_parsing.rs :: impl Control / fn set_fin id=Control.set_fin
//@ contract
    ensures *final(self) == with_flag(*old(self), 0, state),
//@ end
}


// ----- Checksum (default feature set: every operation is a no-op, as_u16 is 0) -----
//@ item sim/elvis-core/src/protocols/utility.rs :: struct Checksum strip-attrs
//@ rewrite `pub struct Checksum\(u16\);` => `#[derive(Clone, Copy)] pub struct Checksum(pub u16);` ## visibility only; unused derives dropped
//@ end
impl Checksum {
//@ item sim/elvis-core/src/protocols/utility.rs :: impl Checksum / fn new id=Checksum.new
//@ rewrite `Self::default\(\)` => `Checksum(0)` ## derive(Default) on a u16 newtype is zero
//@ end
//@ item sim/elvis-core/src/protocols/utility.rs :: impl Checksum / fn add_u16#2 id=Checksum.add_u16
//@ rewrite `#\[cfg\(not\(feature = "compute_checksum"\)\)\]` => `` ## selects the default-feature variant of the item
//@ end
//@ item sim/elvis-core/src/protocols/utility.rs :: impl Checksum / fn add_u8 id=Checksum.add_u8
//@ rewrite `u16::from_be_bytes\(` => `vx_u16_from_be(` ## core::from_be_bytes routed through the contract-carrying wrapper
//@ end
//@ item sim/elvis-core/src/protocols/utility.rs :: impl Checksum / fn add_u32 id=Checksum.add_u32
//@ end
//@ item sim/elvis-core/src/protocols/utility.rs :: impl Checksum / fn accumulate_remainder#2 id=Checksum.accumulate_remainder
//@ rewrite `#\[cfg\(not\(feature = "compute_checksum"\)\)\]` => `` ## selects the default-feature variant of the item
//@ end
//@ item sim/elvis-core/src/protocols/utility.rs :: impl Checksum / fn as_u16#2 id=Checksum.as_u16
//@ rewrite `#\[cfg\(not\(feature = "compute_checksum"\)\)\]` => `` ## selects the default-feature variant of the item
//@ contract
    ensures r == 0,
//@ end
}

impl FromSpecImpl<u8> for Control {
    open spec fn obeys_from_spec() -> bool { true }
    open spec fn from_spec(n: u8) -> Self { Control(n) }
}
impl FromSpecImpl<Control> for u8 {
    open spec fn obeys_from_spec() -> bool { true }
    open spec fn from_spec(c: Control) -> Self { c.0 }
}
//@ item sim/elvis-core/src/protocols/tcp/tcp_parsing.rs :: impl From<u8> for Control id=Control.from_u8
//@ end
//@ item sim/elvis-core/src/protocols/tcp/tcp_parsing.rs :: impl From<Control> for u8 id=u8.from_Control
//@ end

impl TcpHeaderBuilder {
//@ item sim/elvis-core/src/protocols/tcp/tcp_parsing.rs :: impl TcpHeaderBuilder / fn new id=TcpHeaderBuilder.new
//@ rewrite `Control::default\(\)` => `Control(0)` ## derive(Default) on the u8 newtype is zero
//@ contract
    ensures r.0.src_port == src_port, r.0.dst_port == dst_port, r.0.seq == seq, r.0.wnd == 0, r.0.ack == 0, r.0.urg == 0, r.0.ctl.0 == 0,   //# fresh_header [C08]
        !r.0.ctl.sfin() && !r.0.ctl.ssyn() && !r.0.ctl.srst() && !r.0.ctl.spsh() && !r.0.ctl.sack() && !r.0.ctl.surg(),
//@ start
        proof { lemma_zero_flags(0, 0); lemma_zero_flags(0, 1); lemma_zero_flags(0, 2); lemma_zero_flags(0, 3); lemma_zero_flags(0, 4); lemma_zero_flags(0, 5); }
//@ end
//@ item sim/elvis-core/src/protocols/tcp/tcp_parsing.rs :: impl TcpHeaderBuilder / fn wnd id=TcpHeaderBuilder.wnd
//@ rewrite `\bself\b` => `vx_self` ## Verus does not support `mut self` parameters: the parameter is rebound to a mutable local (next two steps)
//@ rewrite `\(mut vx_self` => `(self` ## see above
//@ start
        let mut vx_self = self;
//@ contract
    ensures r.0 == (TcpHeader { wnd: wnd, ..self.0 }),
        r.0.ctl.sfin() == self.0.ctl.sfin() && r.0.ctl.ssyn() == self.0.ctl.ssyn() && r.0.ctl.srst() == self.0.ctl.srst() && r.0.ctl.spsh() == self.0.ctl.spsh() && r.0.ctl.sack() == self.0.ctl.sack() && r.0.ctl.surg() == self.0.ctl.surg(),   // the control bits flow through unchanged except the one being set
//@ end
//@ item sim/elvis-core/src/protocols/tcp/tcp_parsing.rs :: impl TcpHeaderBuilder / fn ack id=TcpHeaderBuilder.ack
//@ rewrite `\bself\b` => `vx_self` ## Verus does not support `mut self` parameters: the parameter is rebound to a mutable local (next two steps)
//@ rewrite `\(mut vx_self` => `(self` ## see above
//@ start
        let mut vx_self = self;
//@ contract
    ensures r.0 == (TcpHeader { ack: ack, ctl: with_flag(self.0.ctl, 4, true), ..self.0 }),
        r.0.ctl.sfin() == self.0.ctl.sfin() && r.0.ctl.ssyn() == self.0.ctl.ssyn() && r.0.ctl.srst() == self.0.ctl.srst() && r.0.ctl.spsh() == self.0.ctl.spsh() && r.0.ctl.sack() && r.0.ctl.surg() == self.0.ctl.surg(),   // the control bits flow through unchanged except the one being set
//@ after 1 `vx_self.0.ctl.set_ack(true);`
        proof { lemma_with_flag(self.0.ctl.0, 4, true, 0); lemma_with_flag(self.0.ctl.0, 4, true, 1); lemma_with_flag(self.0.ctl.0, 4, true, 2); lemma_with_flag(self.0.ctl.0, 4, true, 3); lemma_with_flag(self.0.ctl.0, 4, true, 4); lemma_with_flag(self.0.ctl.0, 4, true, 5); }
//@ end
//@ item sim/elvis-core/src/protocols/tcp/tcp_parsing.rs :: impl TcpHeaderBuilder / fn rst id=TcpHeaderBuilder.rst
//@ rewrite `\bself\b` => `vx_self` ## Verus does not support `mut self` parameters: the parameter is rebound to a mutable local (next two steps)
//@ rewrite `\(mut vx_self` => `(self` ## see above
//@ start
        let mut vx_self = self;
//@ contract
    ensures r.0 == (TcpHeader { ctl: with_flag(self.0.ctl, 2, true), ..self.0 }),
        r.0.ctl.sfin() == self.0.ctl.sfin() && r.0.ctl.ssyn() == self.0.ctl.ssyn() && r.0.ctl.srst() && r.0.ctl.spsh() == self.0.ctl.spsh() && r.0.ctl.sack() == self.0.ctl.sack() && r.0.ctl.surg() == self.0.ctl.surg(),   // the control bits flow through unchanged except the one being set
//@ after 1 `vx_self.0.ctl.set_rst(true);`
        proof { lemma_with_flag(self.0.ctl.0, 2, true, 0); lemma_with_flag(self.0.ctl.0, 2, true, 1); lemma_with_flag(self.0.ctl.0, 2, true, 2); lemma_with_flag(self.0.ctl.0, 2, true, 3); lemma_with_flag(self.0.ctl.0, 2, true, 4); lemma_with_flag(self.0.ctl.0, 2, true, 5); }
//@ end
//@ item sim/elvis-core/src/protocols/tcp/tcp_parsing.rs :: impl TcpHeaderBuilder / fn syn id=TcpHeaderBuilder.syn
//@ rewrite `\bself\b` => `vx_self` ## Verus does not support `mut self` parameters: the parameter is rebound to a mutable local (next two steps)
//@ rewrite `\(mut vx_self` => `(self` ## see above
//@ start
        let mut vx_self = self;
//@ contract
    ensures r.0 == (TcpHeader { ctl: with_flag(self.0.ctl, 1, true), ..self.0 }),
        r.0.ctl.sfin() == self.0.ctl.sfin() && r.0.ctl.ssyn() && r.0.ctl.srst() == self.0.ctl.srst() && r.0.ctl.spsh() == self.0.ctl.spsh() && r.0.ctl.sack() == self.0.ctl.sack() && r.0.ctl.surg() == self.0.ctl.surg(),   // the control bits flow through unchanged except the one being set
//@ after 1 `vx_self.0.ctl.set_syn(true);`
        proof { lemma_with_flag(self.0.ctl.0, 1, true, 0); lemma_with_flag(self.0.ctl.0, 1, true, 1); lemma_with_flag(self.0.ctl.0, 1, true, 2); lemma_with_flag(self.0.ctl.0, 1, true, 3); lemma_with_flag(self.0.ctl.0, 1, true, 4); lemma_with_flag(self.0.ctl.0, 1, true, 5); }
//@ end
//@ item sim/elvis-core/src/protocols/tcp/tcp_parsing.rs :: impl TcpHeaderBuilder / fn fin id=TcpHeaderBuilder.fin
//@ rewrite `\bself\b` => `vx_self` ## Verus does not support `mut self` parameters: the parameter is rebound to a mutable local (next two steps)
//@ rewrite `\(mut vx_self` => `(self` ## see above
//@ start
        let mut vx_self = self;
//@ contract
    ensures r.0 == (TcpHeader { ctl: with_flag(self.0.ctl, 0, true), ..self.0 }),
        r.0.ctl.sfin() && r.0.ctl.ssyn() == self.0.ctl.ssyn() && r.0.ctl.srst() == self.0.ctl.srst() && r.0.ctl.spsh() == self.0.ctl.spsh() && r.0.ctl.sack() == self.0.ctl.sack() && r.0.ctl.surg() == self.0.ctl.surg(),   // the control bits flow through unchanged except the one being set
//@ after 1 `vx_self.0.ctl.set_fin(true);`
        proof { lemma_with_flag(self.0.ctl.0, 0, true, 0); lemma_with_flag(self.0.ctl.0, 0, true, 1); lemma_with_flag(self.0.ctl.0, 0, true, 2); lemma_with_flag(self.0.ctl.0, 0, true, 3); lemma_with_flag(self.0.ctl.0, 0, true, 4); lemma_with_flag(self.0.ctl.0, 0, true, 5); }
//@ end
//@ item sim/elvis-core/src/protocols/tcp/tcp_parsing.rs :: impl TcpHeaderBuilder / fn build id=TcpHeaderBuilder.build
//@ rewrite `\.map_err\(\|_\| ` => `.map_err(|_e| ` ## Verus needs a named closure parameter
//@ rewrite `self\.0\.(seq|ack)\.to_be_bytes\(\)` => `vx_u32_to_be(self.0.\1)` ## core::to_be_bytes routed through the contract-carrying wrapper
//@ contract
    requires text.obeys_prophetic_iter_laws(), text_len <= isize::MAX as usize,   // lengths of real buffers never exceed isize::MAX
    ensures
        (r is Ok) == (text_len + 20 <= 65535),   //# refuses_exactly_oversize [C08]
        r matches Ok(h) ==> h == (TcpHeader { data_offset: 5, checksum: 0, ..self.0 }),   //# fills_offset_and_checksum_only [C08]
//@ end
}


// ===========================================================================
// tcb/*.rs data types
// ===========================================================================
//@ item sim/elvis-core/src/network.rs :: type Mtu
//@ end
//@ item sim/elvis-core/src/protocols/utility.rs :: struct Endpoint strip-attrs
//@ rewrite `pub struct Endpoint \{` => `#[derive(Clone, Copy)] pub struct Endpoint {` ## derives other than Clone, Copy dropped
//@ end
//@ item sim/elvis-core/src/protocols/utility.rs :: struct Endpoints strip-attrs
//@ rewrite `pub struct Endpoints \{` => `#[derive(Clone, Copy)] pub struct Endpoints {` ## derives other than Clone, Copy dropped
//@ end
//@ item sim/elvis-core/src/protocols/tcp/tcb/send_sequence_space.rs :: struct SendSequenceSpace strip-attrs
//@ rewrite `pub struct SendSequenceSpace \{` => `#[derive(Clone, Copy, Default)] pub struct SendSequenceSpace {` ## derives other than Clone, Copy, Default dropped
//@ end
pub assume_specification [<SendSequenceSpace as Default>::default] () -> (r: SendSequenceSpace)
    ensures r.una == 0, r.nxt == 0, r.wnd == 0, r.wl1 == 0, r.wl2 == 0, r.iss == 0;
//@ item sim/elvis-core/src/protocols/tcp/tcb/receive_sequence_space.rs :: struct ReceiveSequenceSpace strip-attrs
//@ rewrite `pub struct ReceiveSequenceSpace \{` => `#[derive(Clone, Copy)] pub struct ReceiveSequenceSpace {` ## derives other than Clone, Copy dropped
//@ end
impl Default for ReceiveSequenceSpace {
//@ item sim/elvis-core/src/protocols/tcp/tcb/receive_sequence_space.rs :: impl Default for ReceiveSequenceSpace / fn default id=ReceiveSequenceSpace.default
//@ contract
    ensures r.irs == 0, r.nxt == 0, r.wnd == 65535,   //# full_window_by_default [C17]
//@ end
}
//@ item sim/elvis-core/src/protocols/tcp/tcb/state.rs :: enum State strip-attrs
//@ rewrite `pub enum State \{` => `#[derive(Clone, Copy, PartialEq, Eq)] pub enum State {` ## derive(Debug, Hash) dropped
//@ end
impl PartialEqSpecImpl for State {
    open spec fn obeys_eq_spec() -> bool { true }
    open spec fn eq_spec(&self, other: &Self) -> bool { *self == *other }
}
//@ item sim/elvis-core/src/protocols/tcp/tcb/segment.rs :: struct Segment strip-attrs
//@ end
//@ item sim/elvis-core/src/protocols/tcp/tcb/outgoing.rs :: struct Transmit strip-attrs
//@ end
//@ item sim/elvis-core/src/protocols/tcp/tcb/outgoing.rs :: struct Outgoing strip-attrs
//@ rewrite `pub struct Outgoing \{` => `#[derive(Default)] pub struct Outgoing {` ## derive(Debug) dropped
//@ end
/// derive(Default) on Outgoing / Incoming / SendSequenceSpace (ASSUMED; semantics of derive)
pub assume_specification [<Outgoing as Default>::default] () -> (r: Outgoing)
    ensures r.text.wf(), r.text@.len() == 0, r.retransmit@.len() == 0, r.oneshot@.len() == 0;
//@ item sim/elvis-core/src/protocols/tcp/tcb.rs :: enum Initiation strip-attrs
//@ rewrite `enum Initiation \{` => `#[derive(Clone, Copy, PartialEq, Eq)] pub enum Initiation {` ## derive(Debug) dropped; visibility
//@ end
//@ item sim/elvis-core/src/protocols/tcp/tcb.rs :: enum ProcessSegmentResult strip-attrs
//@ rewrite `enum ProcessSegmentResult \{` => `#[derive(Clone, Copy, PartialEq, Eq)] pub enum ProcessSegmentResult {` ## derive(Debug) and #[must_use] dropped; visibility
//@ end
impl PartialEqSpecImpl for ProcessSegmentResult {
    open spec fn obeys_eq_spec() -> bool { true }
    open spec fn eq_spec(&self, other: &Self) -> bool { *self == *other }
}
//@ item sim/elvis-core/src/protocols/tcp/tcb.rs :: enum SegmentArrivesResult strip-attrs
//@ rewrite `pub enum SegmentArrivesResult \{` => `#[derive(Clone, Copy, PartialEq, Eq)] pub enum SegmentArrivesResult {` ## derive(Debug) and #[must_use] dropped
//@ end
//@ item sim/elvis-core/src/protocols/tcp/tcb.rs :: enum CloseResult strip-attrs
//@ rewrite `pub enum CloseResult \{` => `#[derive(Clone, Copy, PartialEq, Eq)] pub enum CloseResult {` ## derive(Debug) and #[must_use] dropped
//@ end
//@ item sim/elvis-core/src/protocols/tcp/tcb.rs :: enum AdvanceTimeResult strip-attrs
//@ rewrite `pub enum AdvanceTimeResult \{` => `#[derive(Clone, Copy, PartialEq, Eq)] pub enum AdvanceTimeResult {` ## derive(Debug) and #[must_use] dropped
//@ end


//@ item sim/elvis-core/src/protocols/tcp/tcb.rs :: const MSL
//@ rewrite `const MSL: Duration = Duration::from_secs\(1\);` => `exec const MSL: Duration ensures dur_ns(MSL) == 1_000_000_000 { Duration::from_secs(1) }` ## a Verus `const` cannot call an exec fn; declared as an exec const with the value as postcondition
//@ end
//@ item sim/elvis-core/src/protocols/tcp/tcb.rs :: const RETRANSMISSION_TIMEOUT
//@ rewrite `const RETRANSMISSION_TIMEOUT: Duration = Duration::from_millis\(100\);` => `exec const RETRANSMISSION_TIMEOUT: Duration ensures dur_ns(RETRANSMISSION_TIMEOUT) == 100_000_000 { Duration::from_millis(100) }` ## see MSL
//@ end
//@ item sim/elvis-core/src/protocols/tcp/tcb.rs :: struct Timeouts strip-attrs
//@ rewrite `struct Timeouts \{` => `pub struct Timeouts {` ## visibility only
//@ rewrite `(\n\s*)retransmission: Duration,` => `\1pub retransmission: Duration,` ## visibility only
//@ rewrite `(\n\s*)time_wait: Option<Duration>,` => `\1pub time_wait: Option<Duration>,` ## visibility only
//@ end
//@ item sim/elvis-core/src/protocols/tcp/tcb.rs :: struct Incoming strip-attrs
//@ rewrite `struct Incoming \{` => `#[derive(Default)] pub struct Incoming {` ## visibility only; derive(Debug) dropped
//@ rewrite `(\n\s*)segments: BinaryHeap<Segment>,` => `\1pub segments: BinaryHeap<Segment>,` ## visibility only
//@ rewrite `(\n\s*)text: Message,` => `\1pub text: Message,` ## visibility only
//@ end
pub assume_specification [<Incoming as Default>::default] () -> (r: Incoming)
    ensures r.text.wf(), r.text@.len() == 0, heap_seq(r.segments).len() == 0;
impl Default for Timeouts {
//@ item sim/elvis-core/src/protocols/tcp/tcb.rs :: impl Default for Timeouts / fn default id=Timeouts.default
//@ rewrite `time_wait: Default::default\(\),` => `time_wait: None,` ## Option::default() is None (std)
//@ contract
    ensures r.time_wait is None, dur_ns(r.retransmission) == 100_000_000,
//@ end
}
//@ item sim/elvis-core/src/protocols/tcp/tcb.rs :: struct Tcb strip-attrs
//@ rewrite `(\n\s*)(id|mtu|initiation|state|snd|rcv|incoming|timeouts): ` => `\1pub \2: ` ## visibility only
//@ end

// ===========================================================================
// Specification vocabulary for the TCB
// ===========================================================================
/// n lies in the receive window with one octet of slack at the left edge
/// (RFC 9293 3.10.7.4 as revised by draft-gont-tcpm-tcp-seq-validation):
/// RCV.NXT-1 =< n < RCV.NXT+RCV.WND
pub open spec fn in_win(nxt: u32, wnd: u16, n: u32) -> bool {
    cdist(nxt.wrapping_sub(1), n) < wnd as int + 1
}

/// RFC 9293 Table 6 (segment acceptability), with the revised left edge
#[verifier::opaque]
pub open spec fn seq_acceptable(nxt: u32, wnd: u16, data_len: u32, seq: u32, syn: bool, fin: bool) -> bool {
    let seg_len = data_len as int + (if fin { 1int } else { 0 }) + (if syn { 1int } else { 0 });
    if seg_len == 0 {
        if wnd == 0 { seq == nxt.wrapping_sub(1) || seq == nxt } else { in_win(nxt, wnd, seq) }
    } else if wnd == 0 {
        false
    } else {
        in_win(nxt, wnd, seq) || in_win(nxt, wnd, add32(seq, (seg_len - 1) as u32))
    }
}

/// derive(Default) on Message: no chunks, length zero (ASSUMED; semantics of derive)
pub assume_specification [<Message as Default>::default] () -> (r: Message)
    ensures r.wf(), r@.len() == 0, r.chunks@.len() == 0, r.len == 0;
/// what mem::take leaves behind for a Message is the empty message (ASSUMED; semantics of derive(Default))
#[verifier::external_body]
pub broadcast proof fn axiom_message_default(m: Message)
    ensures #[trigger] is_default(m) ==> (m.wf() && m@.len() == 0),
{}

impl Segment {
//@ item sim/elvis-core/src/protocols/tcp/tcb/segment.rs :: impl Segment / fn new id=Segment.new
//@ contract
    ensures r.header == seg, r.text == message,
//@ end
//@ item sim/elvis-core/src/protocols/tcp/tcb/segment.rs :: impl Segment / fn seg_len id=Segment.seg_len
//@ contract
    requires self.text.wf(), self.text@.len() <= 65535,
    ensures r == self.text@.len() + (if self.header.ctl.ssyn() { 1int } else { 0 }) + (if self.header.ctl.sfin() { 1int } else { 0 }),   //# text_plus_syn_plus_fin [C01,C17]
//@ end
//@ item sim/elvis-core/src/protocols/tcp/tcb/segment.rs :: impl Segment / fn into_inner id=Segment.into_inner
//@ contract
    ensures r.0 == self.header, r.1 == self.text,
//@ end
}
/// reorder-queue order: the segment that comes first in the circular sequence space is the greatest,
/// so that the max-heap pops segments in sequence-number order
pub open spec fn seg_cmp(a: Segment, b: Segment) -> Ordering {
    if a.header.seq == b.header.seq { Ordering::Equal }
    else if circ_lt(a.header.seq, b.header.seq) { Ordering::Greater }
    else { Ordering::Less }
}
impl PartialEqSpecImpl for Segment {
    open spec fn obeys_eq_spec() -> bool { true }
    open spec fn eq_spec(&self, other: &Self) -> bool { self.header.seq == other.header.seq }
}
impl PartialOrdSpecImpl for Segment {
    open spec fn obeys_partial_cmp_spec() -> bool { true }
    open spec fn partial_cmp_spec(&self, other: &Self) -> Option<Ordering> { Some(seg_cmp(*self, *other)) }
}
impl OrdSpecImpl for Segment {
    open spec fn obeys_cmp_spec() -> bool { true }
    open spec fn cmp_spec(&self, other: &Self) -> Ordering { seg_cmp(*self, *other) }
}
//@ item sim/elvis-core/src/protocols/tcp/tcb/segment.rs :: impl PartialEq for Segment id=Segment.eq props=C12,C01
//@ end
//@ item sim/elvis-core/src/protocols/tcp/tcb/segment.rs :: impl Eq for Segment id=Segment.Eq
//@ end
//@ item sim/elvis-core/src/protocols/tcp/tcb/segment.rs :: impl PartialOrd for Segment id=Segment.partial_cmp props=C12,C01
//@ end
//@ item sim/elvis-core/src/protocols/tcp/tcb/segment.rs :: impl Ord for Segment id=Segment.cmp props=C12,C01
//@ end

/// (C12) the reorder-queue order does not depend on absolute sequence numbers
pub proof fn lemma_seg_cmp_shift(a: Segment, b: Segment, a2: Segment, b2: Segment, k: u32)   //# [C12]
    requires a2.header.seq == add32(a.header.seq, k), b2.header.seq == add32(b.header.seq, k),
    ensures seg_cmp(a2, b2) == seg_cmp(a, b),
{
    lemma_circ_shift(a.header.seq, b.header.seq, k);
}

impl Outgoing {
//@ item sim/elvis-core/src/protocols/tcp/tcb/outgoing.rs :: impl Outgoing / fn reset id=Outgoing.reset
//@ rewrite `self\.text = Default::default\(\);` => `self.text = Message::default();` ## inferred type of Default::default()
//@ rewrite `self\.retransmit = Default::default\(\);` => `self.retransmit = VecDeque::new();` ## VecDeque::default() is VecDeque::new() (std)
//@ rewrite `self\.oneshot = Default::default\(\);` => `self.oneshot = Vec::new();` ## Vec::default() is Vec::new() (std)
//@ contract
    ensures final(self).text.wf(), final(self).text@.len() == 0, final(self).retransmit@.len() == 0, final(self).oneshot@.len() == 0,
//@ end
}
impl Transmit {
//@ item sim/elvis-core/src/protocols/tcp/tcb/outgoing.rs :: impl Transmit / fn new id=Transmit.new
//@ contract
    ensures r.segment == segment, r.needs_transmit,
//@ end
}

/// every queued segment carries a well-formed text of at most 65535 octets
#[verifier::opaque]
pub open spec fn rtx_wf(q: Seq<Transmit>) -> bool {
    forall|i: int| 0 <= i < q.len() ==> (#[trigger] q[i]).segment.text.wf() && q[i].segment.text@.len() <= 65535
}
/// sequence-space length of a segment: text plus one for SYN and one for FIN
pub open spec fn sseg_len(s: Segment) -> int {
    s.text@.len() + (if s.header.ctl.ssyn() { 1int } else { 0 }) + (if s.header.ctl.sfin() { 1int } else { 0 })
}
/// SND.UNA has reached the end of the segment: nothing of it is outstanding
pub open spec fn fully_acked(t: Transmit, snd_una: u32) -> bool {
    !circ_lt(snd_una, add32(t.segment.header.seq, sseg_len(t.segment) as u32))
}

/// number of data octets on the retransmission queue
pub open spec fn q_bytes(q: Seq<Transmit>) -> int
    decreases q.len(),
{
    if q.len() == 0 { 0 } else { q_bytes(q.subrange(0, q.len() - 1)) + q.last().segment.text@.len() }
}
pub proof fn lemma_q_bytes_push(q: Seq<Transmit>, t: Transmit)
    ensures q_bytes(q.push(t)) == q_bytes(q) + t.segment.text@.len(),
{
    assert(q.push(t).subrange(0, q.push(t).len() - 1) =~= q);
}
pub proof fn lemma_q_bytes_nonneg(q: Seq<Transmit>)
    ensures q_bytes(q) >= 0,
    decreases q.len(),
{
    if q.len() > 0 { lemma_q_bytes_nonneg(q.subrange(0, q.len() - 1)); }
}

/// q[from..] are data segments that carry `data` in order, numbered consecutively from `seq`
pub open spec fn rtx_tiles(q: Seq<Transmit>, from: int, seq: u32, data: Seq<u8>) -> bool
    decreases q.len() - from,
{
    if from >= q.len() {
        data.len() == 0
    } else {
        let s = q[from].segment;
        &&& s.header.seq == seq && s.header.ctl.sack() && !s.header.ctl.ssyn() && !s.header.ctl.sfin() && !s.header.ctl.srst()
        &&& 0 < s.text@.len() <= data.len() && s.text@ == data.subrange(0, s.text@.len() as int)
        &&& rtx_tiles(q, from + 1, add32(seq, s.text@.len() as u32), data.subrange(s.text@.len() as int, data.len() as int))
    }
}
/// appending one more data segment at the end extends the tiling
pub proof fn lemma_rtx_tiles_push(q: Seq<Transmit>, from: int, seq: u32, data: Seq<u8>, t: Transmit, more: Seq<u8>)
    requires
        0 <= from <= q.len(), rtx_tiles(q, from, seq, data),
        t.segment.header.seq == add32(seq, data.len() as u32), t.segment.header.ctl.sack(), !t.segment.header.ctl.ssyn(),
        !t.segment.header.ctl.sfin(), !t.segment.header.ctl.srst(), t.segment.text@ == more, more.len() > 0,
        data.len() + more.len() <= 0xffff_ffff,
    ensures rtx_tiles(q.push(t), from, seq, data + more),
    decreases q.len() - from,
{
    let q2 = q.push(t);
    if from >= q.len() {
        assert(data.len() == 0);
        assert(data + more =~= more);
        assert(q2[from] == t);
        assert(more.subrange(0, more.len() as int) =~= more);
        assert(more.subrange(more.len() as int, more.len() as int) =~= Seq::<u8>::empty());
        assert(rtx_tiles(q2, from + 1, add32(seq, more.len() as u32), Seq::<u8>::empty()));
    } else {
        let s = q[from].segment;
        let l = s.text@.len() as int;
        assert(q2[from] == q[from]);
        lemma_rtx_tiles_push(q, from + 1, add32(seq, l as u32), data.subrange(l, data.len() as int), t, more);
        assert((data + more).subrange(0, l) =~= data.subrange(0, l));
        assert((data + more).subrange(l, (data + more).len() as int) =~= data.subrange(l, data.len() as int) + more);
        assert(add32(add32(seq, l as u32), (data.len() - l) as u32) == add32(seq, data.len() as u32));
    }
}

/// the tiling only looks at the segments, not at the needs_transmit marks
pub proof fn lemma_rtx_tiles_same(a: Seq<Transmit>, b: Seq<Transmit>, from: int, seq: u32, data: Seq<u8>)
    requires same_segments(a, b), rtx_tiles(a, from, seq, data), 0 <= from,
    ensures rtx_tiles(b, from, seq, data),
    decreases a.len() - from,
{
    if from < a.len() {
        let l = a[from].segment.text@.len() as int;
        assert(a[from].segment == b[from].segment);
        lemma_rtx_tiles_same(a, b, from + 1, add32(seq, l as u32), data.subrange(l, data.len() as int));
    }
}

/// two queues hold the same segments (they may differ in the needs_transmit marks)
pub open spec fn same_segments(a: Seq<Transmit>, b: Seq<Transmit>) -> bool {
    a.len() == b.len() && forall|i: int| 0 <= i < a.len() ==> (#[trigger] a[i]).segment == b[i].segment
}

/// derive(Clone) on Segment: field-wise clone (header is Copy, Message::clone shares the chunks). ASSUMED.
#[verifier::external_body]
pub fn vx_segment_clone(s: &Segment) -> (r: Segment)
    ensures r == *s,
{ Segment { header: s.header, text: s.text.clone() } }

/// what mem::take leaves behind for a Vec is the empty vector (ASSUMED; Vec::default())
#[verifier::external_body]
pub broadcast proof fn axiom_vec_default<T>(v: Vec<T>)
    ensures #[trigger] is_default(v) ==> v@.len() == 0,
{}

/// invariant of the transmission control block
pub open spec fn tcb_inv(t: Tcb) -> bool {
    t.rcv.wnd == 65535 && t.incoming.text.wf() && t.incoming.text@.len() <= 65535
    && rtx_wf(t.outgoing.retransmit@) && t.outgoing.text.wf()
    // nothing has been acknowledged before the peer's SYN arrives
    && (t.state == State::SynSent ==> t.snd.una == t.snd.iss)
    // every segment waiting on the reorder heap is syntactically valid
    && heap_valid(heap_seq(t.incoming.segments))
}
#[verifier::opaque]
pub open spec fn heap_valid(s: Seq<Segment>) -> bool { forall|i: int| 0 <= i < s.len() ==> seg_valid(#[trigger] s[i]) }

/// a syntactically valid segment
pub open spec fn seg_valid(s: Segment) -> bool { s.text.wf() && s.text@.len() <= 65515 && s.header.data_offset == 5 }

/// RFC 9293 Figure 5 (plus Note 2 and the two-step edges a single segment can take):
/// the state changes a single arriving segment may cause
pub open spec fn allowed_step(s: State, t: State, c: Control) -> bool {
    s == t
    || (s == State::SynSent && t == State::Established && c.ssyn() && c.sack())
    || (s == State::SynSent && t == State::SynReceived && c.ssyn())
    || (s == State::SynSent && t == State::CloseWait && c.ssyn() && c.sack() && c.sfin())
    || (s == State::SynReceived && t == State::Established && c.sack())
    || (s == State::SynReceived && t == State::CloseWait && c.sfin())
    || (s == State::Established && t == State::CloseWait && c.sfin())
    || (s == State::FinWait1 && t == State::FinWait2 && c.sack())
    || (s == State::FinWait1 && t == State::Closing && c.sfin())
    || (s == State::FinWait1 && t == State::TimeWait && c.sfin())   // Note 2: our FIN already acknowledged
    || (s == State::FinWait2 && t == State::TimeWait && c.sfin())
    || (s == State::Closing && t == State::TimeWait && c.sack())
}

/// the results after which the caller deletes the TCB
pub open spec fn deletes_tcb(r: ProcessSegmentResult) -> bool {
    r == ProcessSegmentResult::ReturnToListen || r == ProcessSegmentResult::ConnectionReset || r == ProcessSegmentResult::ConnectionRefused
    || r == ProcessSegmentResult::FinalizeClose || r == ProcessSegmentResult::BlindReset
}

/// the header a builder produces for an empty segment
pub open spec fn built(h: TcpHeader) -> TcpHeader { TcpHeader { data_offset: 5, checksum: 0, ..h } }

/// everything except the two outgoing segment queues is unchanged
pub open spec fn same_but_queues(a: Tcb, b: Tcb) -> bool {
    a.id == b.id && a.mtu == b.mtu && a.initiation == b.initiation && a.state == b.state && a.snd == b.snd && a.rcv == b.rcv
    && a.incoming == b.incoming && a.timeouts == b.timeouts && a.outgoing.text == b.outgoing.text
}

/// an acceptable segment with text touches the window with its first octet or with the octet after its text
/// (this is what the `assert!` in the text branch of process_segment relies on)
pub proof fn lemma_acceptable_text_in_window(nxt: u32, seq: u32, text_len: u32, fin: bool)
    requires seq_acceptable(nxt, 65535, text_len, seq, false, fin), 0 < text_len <= 65515,
    ensures in_win(nxt, 65535, seq) || in_win(nxt, 65535, seq.wrapping_add(text_len)),
{
    reveal(seq_acceptable);
}

impl Tcb {
//@ item sim/elvis-core/src/protocols/tcp/tcb.rs :: impl Tcb / fn header_builder id=Tcb.header_builder
//@ contract
    ensures r.0.src_port == self.id.local.port, r.0.dst_port == self.id.remote.port, r.0.seq == seq,
        r.0.wnd == 0, r.0.ack == 0, r.0.urg == 0, r.0.ctl.0 == 0,
        !r.0.ctl.sfin() && !r.0.ctl.ssyn() && !r.0.ctl.srst() && !r.0.ctl.spsh() && !r.0.ctl.sack() && !r.0.ctl.surg(),
//@ end

//@ item sim/elvis-core/src/protocols/tcp/tcb.rs :: impl Tcb / fn enqueue id=Tcb.enqueue
//@ rewrite `\[\]\.into_iter\(\)` => `Vec::<u8>::new().into_iter()` ## core::array::IntoIter is outside Verus; an empty Vec iterator is the same empty byte stream for the generic `build`
//@ start
        proof { reveal(rtx_wf); }
//@ contract
    ensures
        same_but_queues(*final(self), *old(self)),   //# touches_only_the_queues [C17,C03]
        rtx_wf(old(self).outgoing.retransmit@) ==> rtx_wf(final(self).outgoing.retransmit@),
        (header_builder.0.ctl.ssyn() || header_builder.0.ctl.sfin()) ==> (
            final(self).outgoing.oneshot@ == old(self).outgoing.oneshot@
            && final(self).outgoing.retransmit@.len() == old(self).outgoing.retransmit@.len() + 1
            && final(self).outgoing.retransmit@.subrange(0, old(self).outgoing.retransmit@.len() as int) == old(self).outgoing.retransmit@
            && final(self).outgoing.retransmit@.last().segment.header == built(header_builder.0)
            && final(self).outgoing.retransmit@.last().segment.text@.len() == 0
            && final(self).outgoing.retransmit@.last().segment.text.wf()
            && final(self).outgoing.retransmit@.last().needs_transmit),   //# syn_fin_go_to_retransmission_queue [C01,C03]
        !(header_builder.0.ctl.ssyn() || header_builder.0.ctl.sfin()) ==> (
            final(self).outgoing.retransmit@ == old(self).outgoing.retransmit@
            && final(self).outgoing.oneshot@ == old(self).outgoing.oneshot@.push(built(header_builder.0))),   //# others_are_sent_once [C17]
//@ end

//@ item sim/elvis-core/src/protocols/tcp/tcb.rs :: impl Tcb / fn remove_acked_from_retransmission id=Tcb.remove_acked_from_retransmission
//@ start
        proof { reveal(rtx_wf); }
//@ contract
    requires rtx_wf(old(self).outgoing.retransmit@),
    ensures
        same_but_queues(*final(self), *old(self)),
        final(self).outgoing.oneshot@ == old(self).outgoing.oneshot@,
        rtx_wf(final(self).outgoing.retransmit@),
        final(self).outgoing.retransmit@.len() <= old(self).outgoing.retransmit@.len(),
        // only acknowledged segments leave the queue, everything kept was there before
        forall|k: int| 0 <= k < final(self).outgoing.retransmit@.len() ==>
            old(self).outgoing.retransmit@.contains(#[trigger] final(self).outgoing.retransmit@[k]) && !fully_acked(final(self).outgoing.retransmit@[k], snd_una),   //# keeps_only_unacknowledged [C01,C12,C02]
        forall|j: int| 0 <= j < old(self).outgoing.retransmit@.len() && !fully_acked(#[trigger] old(self).outgoing.retransmit@[j], snd_una) ==>
            final(self).outgoing.retransmit@.contains(old(self).outgoing.retransmit@[j]),   //# never_drops_unacknowledged [C01,C12,C02]
//@ loop 1
            invariant
                same_but_queues(*self, *old(self)),
                self.outgoing.oneshot@ == old(self).outgoing.oneshot@,
                rtx_wf(self.outgoing.retransmit@),
                i <= self.outgoing.retransmit@.len() <= old(self).outgoing.retransmit@.len(),
                forall|k: int| 0 <= k < self.outgoing.retransmit@.len() ==> old(self).outgoing.retransmit@.contains(#[trigger] self.outgoing.retransmit@[k]),
                forall|k: int| 0 <= k < i ==> !fully_acked(#[trigger] self.outgoing.retransmit@[k], snd_una),
                forall|j: int| 0 <= j < old(self).outgoing.retransmit@.len() && !fully_acked(#[trigger] old(self).outgoing.retransmit@[j], snd_una) ==>
                    self.outgoing.retransmit@.contains(old(self).outgoing.retransmit@[j]),
            ensures
                same_but_queues(*self, *old(self)),
                self.outgoing.oneshot@ == old(self).outgoing.oneshot@,
                rtx_wf(self.outgoing.retransmit@),
                self.outgoing.retransmit@.len() <= old(self).outgoing.retransmit@.len(),
                forall|k: int| 0 <= k < self.outgoing.retransmit@.len() ==> old(self).outgoing.retransmit@.contains(#[trigger] self.outgoing.retransmit@[k]),
                forall|k: int| 0 <= k < self.outgoing.retransmit@.len() ==> !fully_acked(#[trigger] self.outgoing.retransmit@[k], snd_una),
                forall|j: int| 0 <= j < old(self).outgoing.retransmit@.len() && !fully_acked(#[trigger] old(self).outgoing.retransmit@[j], snd_una) ==>
                    self.outgoing.retransmit@.contains(old(self).outgoing.retransmit@[j]),
            decreases self.outgoing.retransmit@.len() - i,
//@ loop-start 1
            proof { reveal(rtx_wf); }
//@ before 1 `self.outgoing.retransmit.remove(i);`
                let ghost q0 = self.outgoing.retransmit@;
//@ after 1 `self.outgoing.retransmit.remove(i);`
                proof {
                    let q1 = self.outgoing.retransmit@;
                    assert(q1 =~= q0.remove(i as int));
                    assert forall|k: int| 0 <= k < q1.len() implies old(self).outgoing.retransmit@.contains(#[trigger] q1[k]) by {
                        if k < i { assert(q1[k] == q0[k]); } else { assert(q1[k] == q0[k + 1]); }
                    }
                    assert forall|j: int| 0 <= j < old(self).outgoing.retransmit@.len() && !fully_acked(#[trigger] old(self).outgoing.retransmit@[j], snd_una) implies
                        q1.contains(old(self).outgoing.retransmit@[j]) by {
                        let x = old(self).outgoing.retransmit@[j];
                        let m = choose|m: int| 0 <= m < q0.len() && q0[m] == x;
                        assert(m != i);
                        if m < i { assert(q1[m] == x); } else { assert(q1[m - 1] == x); }
                    }
                }
//@ end

//@ item sim/elvis-core/src/protocols/tcp/tcb.rs :: impl Tcb / fn ack_established_processing id=Tcb.ack_established_processing
//@ start
//@ contract
    requires rtx_wf(old(self).outgoing.retransmit@),
    ensures
        rtx_wf(final(self).outgoing.retransmit@),
        // frame: only SND.UNA, the send window variables and the queues may change
        final(self).id == old(self).id && final(self).mtu == old(self).mtu && final(self).initiation == old(self).initiation
            && final(self).state == old(self).state && final(self).rcv == old(self).rcv && final(self).incoming == old(self).incoming
            && final(self).timeouts == old(self).timeouts && final(self).outgoing.text == old(self).outgoing.text
            && final(self).snd.nxt == old(self).snd.nxt && final(self).snd.iss == old(self).snd.iss,   //# frame [C17,C03]
        r == ProcessSegmentResult::Success || r == ProcessSegmentResult::InvalidAck,
        // an ACK for something not yet sent is refused and changes nothing but the ACK queue
        (r == ProcessSegmentResult::InvalidAck) == (!circ_lt(seg.ack, old(self).snd.una) && circ_lt(old(self).snd.nxt, seg.ack)),   //# refuses_ack_beyond_snd_nxt [C17]
        r == ProcessSegmentResult::InvalidAck ==> final(self).snd == old(self).snd && final(self).outgoing.retransmit@ == old(self).outgoing.retransmit@,
        // SND.UNA only ever advances, and only to an acknowledgment inside (SND.UNA, SND.NXT]
        final(self).snd.una == old(self).snd.una
            || (final(self).snd.una == seg.ack && !circ_lt(old(self).snd.nxt, seg.ack) && seg.ack != old(self).snd.una),   //# una_advances_within_sent_data [C17,C01,C12]
        // ... and it advances exactly for an acknowledgment inside (SND.UNA, SND.NXT] in the circular order (C12: no absolute comparison)
        (final(self).snd.una == seg.ack && seg.ack != old(self).snd.una)
            == (!circ_leq(seg.ack, old(self).snd.una) && seg.ack != old(self).snd.una && !circ_lt(old(self).snd.nxt, seg.ack)),   //# una_advances_exactly_for_acks_of_outstanding_data [C12,C17]
        // the send window is only ever set to the window the peer advertised in this segment
        final(self).snd.wnd == old(self).snd.wnd || final(self).snd.wnd == seg.wnd,   //# window_from_peer_only [C17]
        // RFC 9293 3.10.7.4: a valid ACK that is not older (in the circular order) than the segment used for the last
        // window update makes SND.WND follow the window the peer advertises now; an older one does not touch it
        // (C17 'the window the peer last advertised': also when the segment acknowledges nothing new, SND.UNA = SEG.ACK)
        (r == ProcessSegmentResult::Success && (seg.ack == old(self).snd.una || !circ_leq(seg.ack, old(self).snd.una))) ==> (
            if circ_lt(old(self).snd.wl1, seg.seq) || (old(self).snd.wl1 == seg.seq && (circ_leq(old(self).snd.wl2, seg.ack)))
            { final(self).snd.wnd == seg.wnd && final(self).snd.wl1 == seg.seq && final(self).snd.wl2 == seg.ack }
            else { final(self).snd.wnd == old(self).snd.wnd && final(self).snd.wl1 == old(self).snd.wl1 && final(self).snd.wl2 == old(self).snd.wl2 }),   //# window_follows_the_latest_advertisement [C17,C12]
        final(self).outgoing.retransmit@.len() <= old(self).outgoing.retransmit@.len(),
        forall|k: int| 0 <= k < final(self).outgoing.retransmit@.len() ==> old(self).outgoing.retransmit@.contains(#[trigger] final(self).outgoing.retransmit@[k]),
//@ end

//@ item sim/elvis-core/src/protocols/tcp/tcb.rs :: impl Tcb / fn new id=Tcb.new
//@ contract
    requires rcv.wnd == 65535, state == State::SynSent ==> snd.una == snd.iss,
    ensures
        r.id == id && r.mtu == mtu && r.initiation == initiation && r.state == state && r.snd == snd && r.rcv == rcv,
        r.outgoing.text@.len() == 0 && r.outgoing.retransmit@.len() == 0 && r.outgoing.oneshot@.len() == 0,
        r.incoming.text@.len() == 0 && heap_seq(r.incoming.segments).len() == 0,
        r.timeouts.time_wait is None,
        tcb_inv(r),
//@ start
        proof { reveal(rtx_wf); reveal(heap_valid); }
//@ end

//@ item sim/elvis-core/src/protocols/tcp/tcb.rs :: impl Tcb / fn open id=Tcb.open
//@ start
//@ contract
    ensures
        tcb_inv(r),
        // (C03) an active open creates the TCB in SYN-SENT and queues a SYN numbered ISS
        r.state == State::SynSent && r.snd.iss == iss && r.snd.una == iss && r.snd.nxt == add32(iss, 1) && r.mtu == mtu && r.id == id,   //# active_open_enters_syn_sent [C03,C12]
        r.outgoing.retransmit@.len() == 1 && r.outgoing.retransmit@[0].segment.header.seq == iss
            && r.outgoing.retransmit@[0].segment.header.ctl.ssyn() && !r.outgoing.retransmit@[0].segment.header.ctl.sack()
            && r.outgoing.retransmit@[0].segment.text@.len() == 0,   //# queues_syn_with_iss [C03,C12]
        r.incoming.text@.len() == 0 && r.outgoing.text@.len() == 0,
//@ end

//@ item sim/elvis-core/src/protocols/tcp/tcb.rs :: impl Tcb / fn send id=Tcb.send
//@ contract
    requires tcb_inv(*old(self)), message.wf(), old(self).outgoing.text@.len() + message@.len() <= usize::MAX,
    ensures
        tcb_inv(*final(self)),
        final(self).state == old(self).state && final(self).snd == old(self).snd && final(self).rcv == old(self).rcv
            && final(self).incoming == old(self).incoming && final(self).timeouts == old(self).timeouts
            && final(self).outgoing.retransmit@ == old(self).outgoing.retransmit@ && final(self).outgoing.oneshot@ == old(self).outgoing.oneshot@,   //# only_queues_text [C01,C17]
        // (C01) a write is accepted, in order and unmodified, exactly in the states that allow sending
        //       (RFC 9293 3.10.2: before the connection is established the data is queued; in ESTABLISHED and in CLOSE-WAIT -
        //        where only the peer has closed - it is segmentized and sent)
        (old(self).state == State::SynSent || old(self).state == State::SynReceived || old(self).state == State::Established || old(self).state == State::CloseWait)
            ==> final(self).outgoing.text@ == old(self).outgoing.text@ + message@,   //# appends_in_order [C01,C02,C03]
        // after our own close nothing more is accepted
        !(old(self).state == State::SynSent || old(self).state == State::SynReceived || old(self).state == State::Established || old(self).state == State::CloseWait)
            ==> final(self).outgoing.text@ == old(self).outgoing.text@,   //# refused_after_close [C01,C03]
//@ end

//@ item sim/elvis-core/src/protocols/tcp/tcb.rs :: impl Tcb / fn receive id=Tcb.receive
//@ rewrite `Default::default\(\)` => `Message::default()` ## the inferred type of Default::default() is Message
//@ contract
    requires tcb_inv(*old(self)),
//@ start
        broadcast use axiom_message_default;
//@ contract
    ensures
        tcb_inv(*final(self)), r.wf(),
        final(self).state == old(self).state && final(self).snd == old(self).snd && final(self).rcv == old(self).rcv
            && final(self).outgoing == old(self).outgoing && final(self).timeouts == old(self).timeouts,   //# only_drains_buffer [C01,C17]
        // (C01) reads hand out the buffered bytes exactly once, in order
        r@ + final(self).incoming.text@ == old(self).incoming.text@,   //# delivers_buffer_exactly_once [C01,C02]
        // (C01, C03) ... in EVERY state: text that was accepted before the connection started closing (e.g. a data segment
        //       processed together with the peer's FIN in one segment_arrives call) is still handed to the application -
        //       "every submitted byte is delivered exactly once", "without losing data submitted before a close"
        r@ == old(self).incoming.text@,   //# delivers_everything_buffered [C01,C02,C03]
//@ end

//@ item sim/elvis-core/src/protocols/tcp/tcb.rs :: impl Tcb / fn close id=Tcb.close
//@ start
//@ contract
    requires tcb_inv(*old(self)),
    ensures
        tcb_inv(*final(self)),
        final(self).rcv == old(self).rcv && final(self).incoming == old(self).incoming && final(self).outgoing.text == old(self).outgoing.text
            && final(self).snd.una == old(self).snd.una && final(self).snd.wnd == old(self).snd.wnd && final(self).snd.iss == old(self).snd.iss,
        // (C03) CLOSE moves along the diagram: SYN-RCVD/ESTAB -> FIN-WAIT-1, CLOSE-WAIT -> LAST-ACK, nothing else
        final(self).state == (match old(self).state {
            State::SynReceived => State::FinWait1, State::Established => State::FinWait1, State::CloseWait => State::LastAck, s => s }),   //# close_transitions [C03]
        (r == CloseResult::Ok) == (old(self).state == State::SynReceived || old(self).state == State::Established || old(self).state == State::CloseWait),
        // a FIN consuming one sequence number is queued for (re)transmission
        r == CloseResult::Ok ==> (final(self).snd.nxt == add32(old(self).snd.nxt, 1)
            && final(self).outgoing.retransmit@.len() == old(self).outgoing.retransmit@.len() + 1
            && final(self).outgoing.retransmit@.last().segment.header.ctl.sfin()
            && final(self).outgoing.retransmit@.last().segment.header.ctl.sack()
            && final(self).outgoing.retransmit@.last().segment.header.ack == old(self).rcv.nxt),   //# queues_fin [C03]
        r != CloseResult::Ok ==> final(self).snd == old(self).snd && final(self).outgoing.retransmit@ == old(self).outgoing.retransmit@,
        // (C03) the FIN is numbered after all data submitted before the close ...
        (r == CloseResult::Ok && old(self).outgoing.text@.len() == 0)
            ==> final(self).outgoing.retransmit@.last().segment.header.seq == old(self).snd.nxt,   //# fin_after_all_segmentized_data [C03]
        // ... including data that has been submitted but not yet segmentized (KNOWN FINDING K-C03-close)
        (r == CloseResult::Ok && old(self).outgoing.text@.len() > 0)
            ==> final(self).outgoing.retransmit@.last().segment.header.seq == add32(old(self).snd.nxt, old(self).outgoing.text@.len() as u32),   //# fin_after_unsegmentized_data [C03]
//@ end

//@ item sim/elvis-core/src/protocols/tcp/tcb.rs :: impl Tcb / fn abort id=Tcb.abort
//@ contract
    requires tcb_inv(*old(self)),
    ensures
        tcb_inv(*final(self)),
        // (C03) ABORT never changes the state variable by itself (the caller deletes the TCB); it only replaces the queues by a RST
        final(self).state == old(self).state && final(self).snd == old(self).snd && final(self).rcv == old(self).rcv && final(self).incoming == old(self).incoming,   //# abort_keeps_state [C03]
        (old(self).state == State::SynReceived || old(self).state == State::Established || old(self).state == State::FinWait1
            || old(self).state == State::FinWait2 || old(self).state == State::CloseWait)
            ==> (final(self).outgoing.text@.len() == 0 && final(self).outgoing.retransmit@.len() == 0 && final(self).outgoing.oneshot@.len() == 1
                 && final(self).outgoing.oneshot@[0].ctl.srst() && final(self).outgoing.oneshot@[0].seq == old(self).snd.nxt),   //# abort_sends_rst [C03]
//@ after 1 `self.outgoing.reset();`
                proof { reveal(rtx_wf); }
//@ end

//@ item sim/elvis-core/src/protocols/tcp/tcb.rs :: impl Tcb / fn status id=Tcb.status
//@ contract
    ensures r == self.state,
//@ end

//@ item sim/elvis-core/src/protocols/tcp/tcb.rs :: impl Tcb / fn segments id=Tcb.segments
//@ rewrite `let mut out: Vec<_> = mem::take\(&mut self\.outgoing\.oneshot\)\s*\.into_iter\(\)\s*\.map\(\|header\| Segment::new\(header, Default::default\(\)\)\)\s*\.collect\(\);` => `let mut out: Vec<Segment> = Vec::new(); let vx_hs = mem::take(&mut self.outgoing.oneshot); let mut vx_i: usize = 0; while vx_i < vx_hs.len() invariant vx_i <= vx_hs.len(), out@.len() == vx_i, forall|j: int| 0 <= j < out@.len() ==> (#[trigger] out@[j]).text@.len() == 0 && out@[j].text.wf(), decreases vx_hs.len() - vx_i, { out.push(Segment::new(vx_hs[vx_i], Message::default())); vx_i += 1; }` ## into_iter().map(closure).collect() is outside Verus: expressed as the equivalent loop
//@ rewrite `for transmit in self\.outgoing\.retransmit\.iter_mut\(\) \{` => `let mut vx_k: usize = 0; while vx_k < self.outgoing.retransmit.len() { let transmit = &mut self.outgoing.retransmit[vx_k]; vx_k += 1;` ## VecDeque::iter_mut is outside Verus: expressed as an index loop (assumes iter_mut visits front to back once)
//@ rewrite `transmit\.segment\.clone\(\)` => `vx_segment_clone(&transmit.segment)` ## derived Clone has no Verus spec; routed through the contract-carrying wrapper
//@ rewrite `pub fn segments\(` => `#[verifier::spinoff_prover] #[verifier::rlimit(200)] pub fn segments(` ## verifier attributes only
//@ start
        broadcast use axiom_vec_default;
        let ghost text0 = self.outgoing.text@;
        let ghost rtx0 = self.outgoing.retransmit@;
        let ghost nxt0 = self.snd.nxt;
        proof { reveal(rtx_wf); lemma_q_bytes_nonneg(rtx0); }
//@ contract
    requires tcb_inv(*old(self)), old(self).mtu >= 100,
    ensures
        tcb_inv(*final(self)),   //# invariant_preserved [C17]
        final(self).id == old(self).id && final(self).mtu == old(self).mtu && final(self).initiation == old(self).initiation
            && final(self).state == old(self).state && final(self).rcv == old(self).rcv && final(self).incoming == old(self).incoming
            && final(self).snd.una == old(self).snd.una && final(self).snd.wnd == old(self).snd.wnd && final(self).snd.iss == old(self).snd.iss
            && final(self).timeouts.time_wait == old(self).timeouts.time_wait,   //# frame [C17,C03]
        old(self).outgoing.text@.len() >= final(self).outgoing.text@.len(),
        // (C17) new data is emitted only as far as the window the peer last advertised has room for it
        //       (the right edge is SND.UNA + SND.WND: everything in flight counts, the sequence number of a SYN / FIN included)
        (old(self).outgoing.text@.len() - final(self).outgoing.text@.len()) > 0 ==>
            cdist(old(self).snd.una, old(self).snd.nxt) + (old(self).outgoing.text@.len() - final(self).outgoing.text@.len()) <= old(self).snd.wnd,   //# new_data_stays_inside_send_window [C17,C12]
        // (C01) new data segments carry the submitted stream in order, numbered consecutively from SND.NXT
        final(self).outgoing.text@ == old(self).outgoing.text@.subrange(old(self).outgoing.text@.len() - final(self).outgoing.text@.len(), old(self).outgoing.text@.len() as int),   //# unsent_text_is_the_remaining_suffix [C01,C02]
        final(self).snd.nxt == add32(old(self).snd.nxt, (old(self).outgoing.text@.len() - final(self).outgoing.text@.len()) as u32),   //# snd_nxt_advances_by_the_new_data [C01,C12]
        final(self).outgoing.retransmit@.len() >= old(self).outgoing.retransmit@.len(),
        same_segments(final(self).outgoing.retransmit@.subrange(0, old(self).outgoing.retransmit@.len() as int), old(self).outgoing.retransmit@),   //# queued_segments_untouched [C01]
        rtx_tiles(final(self).outgoing.retransmit@, old(self).outgoing.retransmit@.len() as int, old(self).snd.nxt,
            old(self).outgoing.text@.subrange(0, old(self).outgoing.text@.len() - final(self).outgoing.text@.len())),   //# new_segments_carry_the_stream_in_order [C01,C12,C02]
        // data is only segmentized in the states that may send
        !(old(self).state == State::SynSent || old(self).state == State::SynReceived || old(self).state == State::Established || old(self).state == State::CloseWait)
            ==> final(self).outgoing.text@.len() == old(self).outgoing.text@.len(),   //# no_new_data_after_close [C03,C01]
        // everything on the retransmission queue has been handed out: nothing is marked for transmission any more
        forall|i: int| 0 <= i < final(self).outgoing.retransmit@.len() ==> !(#[trigger] final(self).outgoing.retransmit@[i]).needs_transmit,
        final(self).outgoing.oneshot@.len() == 0,
        // every data-bearing segment handed to the network is one of the queued (stream-consistent) segments
        forall|j: int| 0 <= j < r@.len() && (#[trigger] r@[j]).text@.len() > 0 ==>
            exists|i: int| 0 <= i < final(self).outgoing.retransmit@.len() && final(self).outgoing.retransmit@[i].segment == r@[j],   //# only_queued_segments_are_sent [C01,C02]
//@ loop 2
                    invariant
                        tcb_inv(*self), self.mtu == old(self).mtu, self.mtu >= 100, max_segment_length == self.mtu - 50,
                        self.id == old(self).id && self.initiation == old(self).initiation && self.state == old(self).state && self.rcv == old(self).rcv
                            && self.incoming == old(self).incoming && self.snd.una == old(self).snd.una && self.snd.wnd == old(self).snd.wnd
                            && self.snd.iss == old(self).snd.iss && self.timeouts == old(self).timeouts,
                        self.outgoing.oneshot@.len() == 0,
                        queued_bytes == cdist(self.snd.una, nxt0) + (text0.len() - self.outgoing.text@.len()),
                        text0.len() >= self.outgoing.text@.len(),
                        self.outgoing.text@ == text0.subrange(text0.len() - self.outgoing.text@.len(), text0.len() as int),
                        self.snd.nxt == add32(nxt0, (text0.len() - self.outgoing.text@.len()) as u32),
                        self.outgoing.retransmit@.len() >= rtx0.len(),
                        self.outgoing.retransmit@.subrange(0, rtx0.len() as int) == rtx0,
                        rtx_tiles(self.outgoing.retransmit@, rtx0.len() as int, nxt0, text0.subrange(0, text0.len() - self.outgoing.text@.len())),
                        (text0.len() - self.outgoing.text@.len()) > 0 ==> cdist(self.snd.una, nxt0) + (text0.len() - self.outgoing.text@.len()) <= self.snd.wnd,
                        q_bytes(self.outgoing.retransmit@) == q_bytes(rtx0) + (text0.len() - self.outgoing.text@.len()),
                        text0.len() - self.outgoing.text@.len() <= 65535,
                        q_bytes(rtx0) >= 0, rtx_wf(rtx0),
                    decreases self.outgoing.text@.len(),
//@ before 1 `let text = self.outgoing.text.cut(bytes);`
                                let ghost q_before = self.outgoing.retransmit@;
                    let ghost cur_before = self.outgoing.text@;
                    let ghost done_before = text0.len() - cur_before.len();
//@ after 1 `.push_back(Transmit::new(Segment::new(header, text)));`
                    proof {
                        reveal(rtx_wf);
                        let t = self.outgoing.retransmit@.last();
                        let more = t.segment.text@;
                        assert(self.outgoing.retransmit@ =~= q_before.push(t));
                        lemma_q_bytes_push(q_before, t);
                        lemma_rtx_tiles_push(q_before, rtx0.len() as int, nxt0, text0.subrange(0, done_before), t, more);
                        assert(more == cur_before.subrange(0, bytes as int));
                        assert(text0.subrange(0, done_before) + more =~= text0.subrange(0, done_before + bytes));
                        assert(self.outgoing.text@ =~= text0.subrange(text0.len() - self.outgoing.text@.len(), text0.len() as int));
                        assert(self.outgoing.retransmit@.subrange(0, rtx0.len() as int) =~= rtx0);
                        assert(add32(add32(nxt0, done_before as u32), bytes as u32) == add32(nxt0, (done_before + bytes) as u32));
                    }
//@ before 1 `let mut vx_k: usize = 0;`
        let ghost mid = *self;
        let ghost out0 = out@;
//@ before 1 `if !out.is_empty()`
        proof {
            let n0 = rtx0.len() as int;
            let nb = text0.len() - mid.outgoing.text@.len();
            lemma_rtx_tiles_same(mid.outgoing.retransmit@, self.outgoing.retransmit@, n0, nxt0, text0.subrange(0, nb));
            assert(same_segments(self.outgoing.retransmit@.subrange(0, n0), rtx0)) by {
                assert forall|i: int| 0 <= i < n0 implies (#[trigger] self.outgoing.retransmit@.subrange(0, n0)[i]).segment == rtx0[i].segment by {
                    assert(self.outgoing.retransmit@[i].segment == mid.outgoing.retransmit@[i].segment);
                    assert(mid.outgoing.retransmit@.subrange(0, n0)[i] == rtx0[i]);
                }
            }
            assert forall|j: int| 0 <= j < out@.len() && (#[trigger] out@[j]).text@.len() > 0 implies
                exists|i: int| 0 <= i < self.outgoing.retransmit@.len() && self.outgoing.retransmit@[i].segment == out@[j] by {
                if j < out0.len() { assert(out@[j] == out0[j]); assert(out0[j].text@.len() == 0); }
                assert(j >= out0.len());
                let i = choose|i: int| 0 <= i < mid.outgoing.retransmit@.len() && mid.outgoing.retransmit@[i].segment == out@[j];
                assert(self.outgoing.retransmit@[i].segment == mid.outgoing.retransmit@[i].segment);
            }
            reveal(rtx_wf);
        }
//@ loop 3
            invariant
                vx_k <= self.outgoing.retransmit@.len(),
                self.id == mid.id && self.mtu == mid.mtu && self.initiation == mid.initiation && self.state == mid.state && self.snd == mid.snd
                    && self.rcv == mid.rcv && self.incoming == mid.incoming && self.timeouts == mid.timeouts
                    && self.outgoing.text == mid.outgoing.text && self.outgoing.oneshot == mid.outgoing.oneshot,
                same_segments(self.outgoing.retransmit@, mid.outgoing.retransmit@),
                forall|i: int| 0 <= i < vx_k ==> !(#[trigger] self.outgoing.retransmit@[i]).needs_transmit,
                out@.len() >= out0.len(),
                forall|j: int| 0 <= j < out0.len() ==> out@[j] == out0[j],
                forall|j: int| 0 <= j < out0.len() ==> (#[trigger] out0[j]).text@.len() == 0,
                forall|j: int| out0.len() <= j < out@.len() ==> exists|i: int| 0 <= i < mid.outgoing.retransmit@.len() && mid.outgoing.retransmit@[i].segment == #[trigger] out@[j],
            decreases self.outgoing.retransmit@.len() - vx_k,
//@ end

//@ item sim/elvis-core/src/protocols/tcp/tcb.rs :: impl Tcb / fn advance_time id=Tcb.advance_time
//@ rewrite `if delta_time > self\.timeouts\.retransmission \{` => `if vx_dur_gt(delta_time, self.timeouts.retransmission) {` ## Duration comparison routed through the contract-carrying wrapper
//@ rewrite `self\.timeouts\.retransmission -= delta_time;` => `self.timeouts.retransmission = vx_dur_sub(self.timeouts.retransmission, delta_time);` ## Duration -= routed through the contract-carrying wrapper
//@ rewrite `if delta_time > time_wait \{` => `if vx_dur_gt(delta_time, time_wait) {` ## Duration comparison routed through the wrapper
//@ rewrite `Some\(time_wait - delta_time\)` => `Some(vx_dur_sub(time_wait, delta_time))` ## Duration - routed through the wrapper
//@ rewrite `for transmit in self\.outgoing\.retransmit\.iter_mut\(\) \{` => `let mut vx_k: usize = 0; while vx_k < self.outgoing.retransmit.len() { let transmit = &mut self.outgoing.retransmit[vx_k]; vx_k += 1;` ## VecDeque::iter_mut is outside Verus: expressed as an index loop
//@ contract
    requires tcb_inv(*old(self)),
    ensures
        tcb_inv(*final(self)),
        final(self).state == old(self).state && final(self).snd == old(self).snd && final(self).rcv == old(self).rcv
            && final(self).incoming == old(self).incoming && final(self).outgoing.text == old(self).outgoing.text
            && final(self).outgoing.oneshot == old(self).outgoing.oneshot
            && same_segments(final(self).outgoing.retransmit@, old(self).outgoing.retransmit@),   //# time_only_touches_timers [C17,C03]
        // (C03) the connection is released by the 2*MSL wait exactly when the armed TIME-WAIT timer has run out
        (r == AdvanceTimeResult::CloseConnection) == (old(self).timeouts.time_wait matches Some(tw) && dur_ns(delta_time) > dur_ns(tw)),   //# released_exactly_when_time_wait_expires [C03]
        // after a retransmission timeout everything still on the queue is due again
        dur_ns(delta_time) > dur_ns(old(self).timeouts.retransmission) ==>
            forall|i: int| 0 <= i < final(self).outgoing.retransmit@.len() ==> (#[trigger] final(self).outgoing.retransmit@[i]).needs_transmit,   //# rto_marks_queue_for_retransmission [C01,C02]
//@ start
        let ghost q0 = self.outgoing.retransmit@;
        proof { reveal(rtx_wf); }
//@ loop 1
                invariant
                    vx_k <= self.outgoing.retransmit@.len(),
                    self.id == old(self).id && self.mtu == old(self).mtu && self.initiation == old(self).initiation && self.state == old(self).state
                        && self.snd == old(self).snd && self.rcv == old(self).rcv && self.incoming == old(self).incoming
                        && self.outgoing.text == old(self).outgoing.text && self.outgoing.oneshot == old(self).outgoing.oneshot
                        && self.timeouts.time_wait == old(self).timeouts.time_wait,
                    same_segments(self.outgoing.retransmit@, q0),
                    forall|i: int| 0 <= i < vx_k ==> (#[trigger] self.outgoing.retransmit@[i]).needs_transmit,
                decreases self.outgoing.retransmit@.len() - vx_k,
//@ before 1 `if let Some(time_wait) = self.timeouts.time_wait`
        proof {
            reveal(rtx_wf);
            assert forall|i: int| 0 <= i < self.outgoing.retransmit@.len() implies (#[trigger] self.outgoing.retransmit@[i]).segment.text.wf() && self.outgoing.retransmit@[i].segment.text@.len() <= 65535 by {
                assert(self.outgoing.retransmit@[i].segment == q0[i].segment);
            }
        }
//@ end

}
impl ProcessSegmentResult {
//@ item sim/elvis-core/src/protocols/tcp/tcb.rs :: impl ProcessSegmentResult / fn should_delete_tcb id=ProcessSegmentResult.should_delete_tcb
//@ contract
    ensures r == deletes_tcb(self),
//@ end
}
impl Tcb {
//@ item sim/elvis-core/src/protocols/tcp/tcb.rs :: impl Tcb / fn segment_arrives id=Tcb.segment_arrives
//@ rewrite `pub fn segment_arrives\(` => `#[verifier::exec_allows_no_decreases_clause] pub fn segment_arrives(` ## termination of the reorder loop is NOT verified here (each iteration pops one segment; process_segment never pushes)
//@ contract
    requires tcb_inv(*old(self)), seg_valid(segment),
    ensures
        // (C17) an arbitrary valid segment never crashes the endpoint and leaves it in a state satisfying the invariant
        r == SegmentArrivesResult::Ok ==> tcb_inv(*final(self)),   //# invariant_preserved [C17]
        final(self).id == old(self).id && final(self).mtu == old(self).mtu && final(self).initiation == old(self).initiation
            && final(self).outgoing.text == old(self).outgoing.text && final(self).snd.nxt == old(self).snd.nxt && final(self).snd.iss == old(self).snd.iss,   //# never_sends_new_data [C17]
        // (C01) bytes already buffered for the application are never altered
        r == SegmentArrivesResult::Ok ==> (final(self).incoming.text@.len() >= old(self).incoming.text@.len()
            && final(self).incoming.text@.subrange(0, old(self).incoming.text@.len() as int) == old(self).incoming.text@),   //# buffered_bytes_untouched [C01,C02]
//@ after 1 `self.incoming.segments.push(segment);`
        proof {
            reveal(heap_valid);
            let s0 = heap_seq(old(self).incoming.segments);
            let s1 = heap_seq(self.incoming.segments);
            assert forall|i: int| 0 <= i < s1.len() implies seg_valid(#[trigger] s1[i]) by {
                if s1[i] != segment {
                    let k = choose|k: int| 0 <= k < s0.len() && s0[k] == s1[i];
                    assert(seg_valid(s0[k]));
                }
            }
        }
//@ loop 1
            invariant
                tcb_inv(*self),
                self.id == old(self).id && self.mtu == old(self).mtu && self.initiation == old(self).initiation
                    && self.outgoing.text == old(self).outgoing.text && self.snd.nxt == old(self).snd.nxt && self.snd.iss == old(self).snd.iss,
                self.incoming.text@.len() >= old(self).incoming.text@.len(),
                self.incoming.text@.subrange(0, old(self).incoming.text@.len() as int) == old(self).incoming.text@,
//@ before 1 `let segment = self.incoming.segments.pop().unwrap();`
            proof { reveal(heap_valid); }
            let ghost h0 = heap_seq(self.incoming.segments);
            let ghost txt0 = self.incoming.text@;
//@ after 1 `let segment = self.incoming.segments.pop().unwrap();`
            proof {
                assert forall|i: int| 0 <= i < heap_seq(self.incoming.segments).len() implies seg_valid(#[trigger] heap_seq(self.incoming.segments)[i]) by {
                    assert(heap_seq(self.incoming.segments)[i] == h0[i + 1]);
                }
            }
//@ after 1 `let receive_result = self.process_segment(segment);`
            proof {
                assert(self.incoming.text@.subrange(0, old(self).incoming.text@.len() as int)
                    =~= self.incoming.text@.subrange(0, txt0.len() as int).subrange(0, old(self).incoming.text@.len() as int));
            }
//@ end
}
impl Tcb {
//@ item sim/elvis-core/src/protocols/tcp/tcb.rs :: impl Tcb / fn process_segment id=Tcb.process_segment
//@ rewrite `fn process_segment\(` => `#[verifier::spinoff_prover] #[verifier::rlimit(600)] fn process_segment(` ## verifier attributes only (own solver instance, larger resource limit)
//@ rewrite `text\.slice\(already_received as usize\.\.\(already_received \+ accept\) as usize\);` => `text.slice_inner(SliceRange::from(already_received as usize..(already_received + accept) as usize));` ## Message::slice(impl Into<SliceRange>) is the generic one-line wrapper `self.slice_inner(range.into())`; inlined because generic Into is outside the verified fragment
//@ rewrite `Some\(MSL \* 2\)` => `Some(vx_dur_mul(MSL, 2))` ## Duration * u32 routed through the contract-carrying wrapper
//@ rewrite `Some\(2 \* MSL\)` => `Some(vx_dur_mul(MSL, 2))` ## u32 * Duration routed through the contract-carrying wrapper
//@ before 1 `assert!(`
                    proof {
                        if old(self).state != State::SynSent {
                            lemma_acceptable_text_in_window(self.rcv.nxt, seg.seq, text_len, seg.ctl.sfin());
                        }
                    }
//@ start
        let ghost seg0 = segment;
//@ contract
    requires
        tcb_inv(*old(self)), seg_valid(segment),
        // segment_arrives only hands over segments that are not ahead of RCV.NXT (except in SYN-SENT)
        old(self).state == State::SynSent || !circ_lt(old(self).rcv.nxt, segment.header.seq),
    ensures
        !deletes_tcb(r) ==> tcb_inv(*final(self)),   //# invariant_preserved [C17]
        final(self).id == old(self).id && final(self).mtu == old(self).mtu && final(self).initiation == old(self).initiation
            && final(self).outgoing.text == old(self).outgoing.text && final(self).snd.nxt == old(self).snd.nxt && final(self).snd.iss == old(self).snd.iss,   //# never_sends_new_data [C17]
        // (C17) a segment that lies entirely outside the receive window is inert
        (old(self).state != State::SynSent && old(self).state != State::Closing
            && !seq_acceptable(old(self).rcv.nxt, old(self).rcv.wnd, segment.text@.len() as u32, segment.header.seq, segment.header.ctl.ssyn(), segment.header.ctl.sfin()))
            ==> (r == ProcessSegmentResult::DiscardSegment && final(self).state == old(self).state && final(self).rcv == old(self).rcv
                 && final(self).snd == old(self).snd && final(self).incoming.text@ == old(self).incoming.text@
                 && final(self).outgoing.retransmit@ == old(self).outgoing.retransmit@ && final(self).timeouts == old(self).timeouts),   //# out_of_window_segment_is_inert [C17,C12]
        // (C17, C01) while waiting for a SYN, a segment with neither SYN nor RST changes nothing
        (old(self).state == State::SynSent && !segment.header.ctl.ssyn() && !segment.header.ctl.srst())
            ==> (final(self).state == State::SynSent && final(self).rcv == old(self).rcv && final(self).incoming.text@ == old(self).incoming.text@),   //# syn_sent_ignores_segments_without_syn_or_rst [C17,C01]
        // (C03) only transitions of the RFC 9293 state diagram
        allowed_step(old(self).state, final(self).state, segment.header.ctl),   //# only_rfc9293_transitions [C03]
        // (C03) the TCB is released only by the final ACK in LAST-ACK or by a reset
        deletes_tcb(r) ==> (segment.header.ctl.srst() || (old(self).state == State::LastAck && segment.header.ctl.sack())),   //# release_only_by_final_ack_or_reset [C03]
        // (C01) bytes already buffered for the application are never altered, and the buffer respects the advertised window
        final(self).incoming.text@.len() >= old(self).incoming.text@.len() && final(self).incoming.text@.subrange(0, old(self).incoming.text@.len() as int) == old(self).incoming.text@,   //# buffered_bytes_untouched [C01,C02]
        // (C01) what is appended is exactly the part of the segment text that continues the stream at RCV.NXT,
        //       and RCV.NXT advances by exactly that many octets (plus one for a consumed FIN)
        old(self).state != State::SynSent ==> ({
            let a = final(self).incoming.text@.len() - old(self).incoming.text@.len();
            let k = cdist(segment.header.seq, old(self).rcv.nxt);
            &&& (a > 0 ==> k + a <= segment.text@.len() && final(self).incoming.text@.subrange(old(self).incoming.text@.len() as int, old(self).incoming.text@.len() + a) == segment.text@.subrange(k, k + a))
            &&& (final(self).rcv.nxt == add32(old(self).rcv.nxt, a as u32)
                 || (segment.header.ctl.sfin() && final(self).rcv.nxt == add32(old(self).rcv.nxt, (a + 1) as u32)))
            &&& final(self).rcv.irs == old(self).rcv.irs
        }),   //# appended_bytes_continue_the_stream [C01,C12,C02]
        // (C01) RFC 9293 3.4 / 3.10.7.3: text carried by the SYN,ACK that completes an active open occupies the sequence numbers
        //       after the SYN and is delivered from its first octet, as far as the buffer has room
        (old(self).state == State::SynSent && segment.header.ctl.ssyn() && !segment.header.ctl.srst() && !segment.header.ctl.sfin()
            && final(self).state == State::Established) ==> ({
            let a = final(self).incoming.text@.len() - old(self).incoming.text@.len();
            &&& a == vstd::math::min(segment.text@.len() as int, 65535 - old(self).incoming.text@.len())
            &&& final(self).incoming.text@.subrange(old(self).incoming.text@.len() as int, old(self).incoming.text@.len() + a) == segment.text@.subrange(0, a)
            &&& final(self).rcv.nxt == add32(segment.header.seq, (1 + a) as u32)
        }),   //# text_on_a_syn_is_delivered_whole [C01,C12,C02]
        // (C01, C03) RFC 9293 3.10.7.4 seventh: in ESTABLISHED / FIN-WAIT-1 / FIN-WAIT-2 acceptable text is taken, as far as the buffer has room
        ((old(self).state == State::Established || old(self).state == State::FinWait1 || old(self).state == State::FinWait2)
            && r == ProcessSegmentResult::Success && !segment.header.ctl.ssyn() && !segment.header.ctl.srst()
            && seq_acceptable(old(self).rcv.nxt, old(self).rcv.wnd, segment.text@.len() as u32, segment.header.seq, false, segment.header.ctl.sfin())
            && cdist(segment.header.seq, old(self).rcv.nxt) <= segment.text@.len())
            ==> final(self).incoming.text@.len() - old(self).incoming.text@.len() == vstd::math::min(segment.text@.len() - cdist(segment.header.seq, old(self).rcv.nxt), 65535 - old(self).incoming.text@.len()),   //# acceptable_text_is_delivered [C01,C03,C12,C02]
        // (C01) RFC 9293 3.10.7.4 seventh: a segment whose text was processed is answered by <ACK=RCV.NXT> - also when none of
        //       the text is new (a duplicate whose acknowledgment was lost) or none fits: otherwise the sender's
        //       retransmission queue never drains and it retransmits for ever on a loss-free network
        ((old(self).state == State::Established || old(self).state == State::FinWait1 || old(self).state == State::FinWait2)
            && r == ProcessSegmentResult::Success && !segment.header.ctl.ssyn() && !segment.header.ctl.srst()
            && seq_acceptable(old(self).rcv.nxt, old(self).rcv.wnd, segment.text@.len() as u32, segment.header.seq, false, segment.header.ctl.sfin())
            && cdist(segment.header.seq, old(self).rcv.nxt) <= segment.text@.len() && segment.text@.len() > 0)
            ==> (final(self).outgoing.oneshot@.len() > 0 && final(self).outgoing.oneshot@.last().ctl.sack()
                 && final(self).outgoing.oneshot@.last().ack == final(self).rcv.nxt && !final(self).outgoing.oneshot@.last().ctl.srst()),   //# processed_text_is_acknowledged_even_when_nothing_is_new [C01,C03]
        // (C03, C01) RFC 9293 3.10.7.4 eighth: a FIN all of whose preceding text has been received is acknowledged -
        //            also when it is a retransmission of a FIN that was consumed before (otherwise a lost ACK is never regenerated)
        (old(self).state != State::SynSent && r == ProcessSegmentResult::Success && segment.header.ctl.sfin()
            && final(self).rcv.nxt == add32(segment.header.seq, (segment.text@.len() + 1) as u32))
            ==> (final(self).outgoing.oneshot@.len() > 0 && final(self).outgoing.oneshot@.last().ctl.sack()
                 && final(self).outgoing.oneshot@.last().ack == final(self).rcv.nxt && !final(self).outgoing.oneshot@.last().ctl.srst()),   //# fin_is_acknowledged_even_when_retransmitted [C03,C01,C12]
        // (C17) the send window only ever takes the value the peer advertised; SND.UNA never passes SND.NXT by this call
        final(self).snd.wnd == old(self).snd.wnd || final(self).snd.wnd == segment.header.wnd,   //# window_from_peer_only [C17]
//@ end

//@ item sim/elvis-core/src/protocols/tcp/tcb.rs :: impl Tcb / fn is_in_rcv_window id=Tcb.is_in_rcv_window
//@ contract
    ensures r == in_win(self.rcv.nxt, self.rcv.wnd, n),   //# window_with_left_slack [C17,C01,C12]
//@ end

//@ item sim/elvis-core/src/protocols/tcp/tcb.rs :: impl Tcb / fn is_seq_ok id=Tcb.is_seq_ok
//@ contract
    requires data_len <= 65535,
    ensures r == seq_acceptable(self.rcv.nxt, self.rcv.wnd, data_len, seq, syn, fin),   //# rfc9293_table6 [C17,C01,C12]
//@ start
        proof { reveal(seq_acceptable); }
//@ end

//@ item sim/elvis-core/src/protocols/tcp/tcb.rs :: impl Tcb / fn is_fin_acked id=Tcb.is_fin_acked
//@ contract
    ensures r == (self.snd.nxt == self.snd.una),
//@ end
}


// ===========================================================================
// CLOSED and LISTEN pseudo-states (free functions)
// ===========================================================================
//@ item sim/elvis-core/src/protocols/tcp/tcb.rs :: fn segment_arrives_closed id=segment_arrives_closed
//@ rewrite `\[\]\.into_iter\(\)` => `Vec::<u8>::new().into_iter()` ## core::array::IntoIter is outside Verus; an empty Vec iterator is the same empty byte stream
//@ contract
    ensures
        // RFC 9293 3.10.7.1: a RST is never answered; anything else is answered by a RST
        seg.ctl.srst() ==> r is None,   //# never_answers_rst [C17,C03]
        !seg.ctl.srst() ==> (r matches Some(h) && h.ctl.srst() && !h.ctl.ssyn() && !h.ctl.sfin()
            && h.src_port == seg.dst_port && h.dst_port == seg.src_port
            && (seg.ctl.sack() ==> h.seq == seg.ack && !h.ctl.sack())
            && (!seg.ctl.sack() ==> h.seq == 0 && h.ctl.sack() && h.ack == seg.seq.wrapping_add(text_len))),   //# answers_with_rst [C17,C03]
//@ end

//@ item sim/elvis-core/src/protocols/tcp/tcb.rs :: enum ListenResult strip-attrs
//@ end

//@ item sim/elvis-core/src/protocols/tcp/tcb.rs :: fn segment_arrives_listen id=segment_arrives_listen
//@ rewrite `\[\]\.into_iter\(\)` => `Vec::<u8>::new().into_iter()` ## core::array::IntoIter is outside Verus
//@ rewrite `\.ok\(\)\s*\.map\(ListenResult::Response\)` => `.ok().map(|vx_h: TcpHeader| ListenResult::Response(vx_h))` ## enum constructor used as a function value is outside Verus; written as the equivalent closure
//@ before 1 `Some(ListenResult::Tcb(tcb))`
        proof {
            reveal(heap_valid);
            let hs = heap_seq(tcb.incoming.segments);
            assert(hs.len() == 1);
            assert(hs[0].header == seg && hs[0].text == message);
            // seg.ctl == with_flag(with_flag(c0, 1, false), 4, false): the SYN bit (1) stays cleared
            lemma_with_flag(segment.header.ctl.0, 1, false, 1);
            lemma_with_flag(with_flag(segment.header.ctl, 1, false).0, 4, false, 1);
            assert(tcb.outgoing.retransmit@.len() == 1);
            assert(tcb.outgoing.retransmit@.last() == tcb.outgoing.retransmit@[0]);
        }
//@ contract
    requires seg_valid(segment), mtu >= 100,
    ensures
        // RFC 9293 3.10.7.2: RST ignored; ACK answered by RST; SYN creates a TCB in SYN-RECEIVED; anything else is dropped
        segment.header.ctl.srst() ==> r is None,   //# ignores_rst [C03,C17]
        (!segment.header.ctl.srst() && !segment.header.ctl.sack() && !segment.header.ctl.ssyn()) ==> r is None,   //# drops_other_segments [C03,C17]
        (!segment.header.ctl.srst() && !segment.header.ctl.sack() && segment.header.ctl.ssyn()) ==> (r matches Some(ListenResult::Tcb(t))
            && tcb_inv(t) && t.state == State::SynReceived && t.mtu == mtu
            && t.snd.iss == iss && t.snd.una == iss && t.snd.nxt == add32(iss, 1)
            && t.rcv.irs == segment.header.seq && t.rcv.nxt == add32(segment.header.seq, 1)
            && t.outgoing.retransmit@.len() == 1 && t.outgoing.retransmit@[0].segment.header.seq == iss
            && t.outgoing.retransmit@[0].segment.header.ctl.ssyn() && t.outgoing.retransmit@[0].segment.header.ctl.sack()
            && t.outgoing.retransmit@[0].segment.header.ack == add32(segment.header.seq, 1)),   //# syn_creates_tcb_in_syn_received [C03,C12]
        // (C01) RFC 9293 3.4 / 3.10.7.2 third: text carried by the SYN is queued for processing after the handshake; with the
        //       SYN consumed it occupies the sequence numbers from IRS+1 on, so that no octet of it is skipped
        (!segment.header.ctl.srst() && !segment.header.ctl.sack() && segment.header.ctl.ssyn()) ==> (r matches Some(ListenResult::Tcb(t))
            && heap_seq(t.incoming.segments).len() == 1
            && heap_seq(t.incoming.segments)[0].header.seq == add32(segment.header.seq, 1)
            && heap_seq(t.incoming.segments)[0].text@ == segment.text@
            && !heap_seq(t.incoming.segments)[0].header.ctl.ssyn()),   //# text_on_a_syn_is_queued_at_irs_plus_one [C01,C12,C02]
//@ end

} // verus!

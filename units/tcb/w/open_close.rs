// Witness scenarios for the C03 clauses (RFC 9293 Figure 5 and its notes): simultaneous open, simultaneous close, close
// with data in flight in both directions, release after 2*MSL.  Runs only under --cfg vx_replay.
#![allow(dead_code, unused_imports, unused_must_use)]
use super::super::*;
use super::w_isn::established_pair;

const A: Endpoint = Endpoint { address: Ipv4Address::new([10, 0, 0, 1]), port: 1000 };
const B: Endpoint = Endpoint { address: Ipv4Address::new([10, 0, 0, 2]), port: 2000 };

/// deliver everything a has to b and vice versa, `rounds` times, advancing time a little each round
fn exchange(a: &mut Tcb, b: &mut Tcb, rounds: usize) -> (Vec<SegmentArrivesResult>, Vec<SegmentArrivesResult>) {
    let (mut ra, mut rb) = (vec![], vec![]);
    for _ in 0..rounds {
        for s in a.segments() {
            rb.push(b.segment_arrives(s));
        }
        for s in b.segments() {
            ra.push(a.segment_arrives(s));
        }
        a.advance_time(Duration::from_millis(50));
        b.advance_time(Duration::from_millis(50));
    }
    (ra, rb)
}

pub fn simultaneous_open_reaches_established_and_carries_data() {
    let mut a = Tcb::open(Endpoints::new(A, B), 100, 1500);
    let mut b = Tcb::open(Endpoints::new(B, A), 300, 1500);
    // both SYNs cross
    let syn_a = a.segments();
    let syn_b = b.segments();
    for s in syn_a {
        b.segment_arrives(s);
    }
    for s in syn_b {
        a.segment_arrives(s);
    }
    assert_eq!((a.status(), b.status()), (State::SynReceived, State::SynReceived), "crossing SYNs: RFC 9293 Figure 7");
    exchange(&mut a, &mut b, 6);
    assert_eq!((a.status(), b.status()), (State::Established, State::Established));
    a.send(Message::new(b"ping".to_vec()));
    b.send(Message::new(b"pong".to_vec()));
    exchange(&mut a, &mut b, 6);
    assert_eq!(b.receive().to_vec(), b"ping".to_vec());
    assert_eq!(a.receive().to_vec(), b"pong".to_vec());
}

pub fn simultaneous_close_releases_both_after_time_wait() {
    let (mut a, mut b) = established_pair(100, 300);
    a.close();
    b.close();
    let fin_a = a.segments();
    let fin_b = b.segments();
    for s in fin_a {
        b.segment_arrives(s);
    }
    for s in fin_b {
        a.segment_arrives(s);
    }
    assert_eq!((a.status(), b.status()), (State::Closing, State::Closing), "crossing FINs: RFC 9293 Figure 13");
    exchange(&mut a, &mut b, 6);
    assert_eq!((a.status(), b.status()), (State::TimeWait, State::TimeWait));
    // 2*MSL later both are released
    let ra = a.advance_time(Duration::from_secs(300));
    let rb = b.advance_time(Duration::from_secs(300));
    assert_eq!((ra, rb), (AdvanceTimeResult::CloseConnection, AdvanceTimeResult::CloseConnection));
}

pub fn data_in_both_directions_survives_the_closes() {
    let (mut a, mut b) = established_pair(100, 300);
    let da: Vec<u8> = (0..3000u32).map(|i| i as u8).collect();
    let db: Vec<u8> = (0..4321u32).map(|i| (i * 3) as u8).collect();
    a.send(Message::new(da.clone()));
    b.send(Message::new(db.clone()));
    // both get everything segmentized, then close
    let sa = a.segments();
    let sb = b.segments();
    a.close();
    b.close();
    // (the users read as soon as something arrives: RFC 9293 3.10.3 answers RECEIVE with "connection closing" once an
    //  endpoint is in CLOSING / LAST-ACK / TIME-WAIT, and the implementation returns nothing there)
    let (mut got_a, mut got_b) = (vec![], vec![]);
    for s in sa {
        b.segment_arrives(s);
        got_b.extend(b.receive().to_vec());
    }
    for s in sb {
        a.segment_arrives(s);
        got_a.extend(a.receive().to_vec());
    }
    let mut released = (false, false);
    for _ in 0..40 {
        for s in a.segments() {
            if b.segment_arrives(s) == SegmentArrivesResult::Close {
                released.1 = true;
            }
            got_b.extend(b.receive().to_vec());
        }
        for s in b.segments() {
            if a.segment_arrives(s) == SegmentArrivesResult::Close {
                released.0 = true;
            }
            got_a.extend(a.receive().to_vec());
        }
        a.advance_time(Duration::from_millis(150));
        b.advance_time(Duration::from_millis(150));
    }
    assert!(got_b == da, "a's data before its close: {} of {} octets reached b", got_b.len(), da.len());
    assert!(got_a == db, "b's data before its close: {} of {} octets reached a", got_a.len(), db.len());
    assert!(matches!(a.status(), State::TimeWait) || released.0, "a lingers in {:?}", a.status());
    assert!(matches!(b.status(), State::TimeWait) || released.1, "b lingers in {:?}", b.status());
}

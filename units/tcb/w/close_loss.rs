// Witness scenario (ported mechanically from seeded/C03-4: `#[test] fn` -> `pub fn`); runs only under --cfg vx_replay,
// as a concrete call sequence on the real Tcb when a paired Verus obligation fails.
#![allow(dead_code, unused_imports, unused_must_use)]
#![allow(unused_must_use)]

//! Close combined with in-flight data and a single lost segment.

use super::super::*;
use crate::protocols::utility::Endpoints;

const PEER_A_ID: Endpoints = Endpoints {
    local: Endpoint {
        address: Ipv4Address::new([0, 0, 0, 0]),
        port: 0xcafe,
    },
    remote: Endpoint {
        address: Ipv4Address::new([0, 0, 0, 1]),
        port: 0xdead,
    },
};

const PEER_B_ID: Endpoints = Endpoints {
    local: PEER_A_ID.remote,
    remote: PEER_A_ID.local,
};

fn established_pair(peer_a_iss: u32, peer_b_iss: u32) -> (Tcb, Tcb) {
    let mut peer_a = Tcb::open(PEER_A_ID, peer_a_iss, 1500);
    let peer_a_syn = peer_a.segments().remove(0);
    let mut peer_b = segment_arrives_listen(
        peer_a_syn,
        PEER_B_ID.local.address,
        PEER_B_ID.remote.address,
        peer_b_iss,
        1500,
    )
    .unwrap()
    .tcb()
    .unwrap();
    let peer_b_syn_ack = peer_b.segments().remove(0);
    peer_a.segment_arrives(peer_b_syn_ack);
    let peer_a_ack = peer_a.segments().remove(0);
    peer_b.segment_arrives(peer_a_ack);
    assert_eq!(peer_a.status(), State::Established);
    assert_eq!(peer_b.status(), State::Established);
    (peer_a, peer_b)
}

/// Peer A sends data and closes while the data is still in flight. The first
/// copy of A's FIN is lost; everything else is delivered. The ACK for the data
/// (which acknowledges everything up to, but not including, the FIN) reaches A
/// while it is in FIN-WAIT-1. A must keep retransmitting its FIN until it is
/// acknowledged so that B sees the end of the stream and both sides are
/// released.
pub fn close_with_data_in_flight_and_lost_fin() {
    let (mut peer_a, mut peer_b) = established_pair(100, 300);

    // A sends data; it is segmentized and in flight, not yet acknowledged
    peer_a.send(Message::new("hello"));
    let data = peer_a.segments();
    assert_eq!(data.len(), 1);
    assert_eq!(data[0].header.seq, 101);

    // A closes with the data still in flight. The FIN is sent once and lost.
    assert_eq!(peer_a.close(), CloseResult::Ok);
    assert_eq!(peer_a.status(), State::FinWait1);
    let lost_fin = peer_a.segments();
    assert_eq!(lost_fin.len(), 1);
    assert!(lost_fin[0].header.ctl.fin());
    assert_eq!(lost_fin[0].header.seq, 106);
    drop(lost_fin);

    // The data reaches B and B acknowledges it (ACK=106, i.e. not the FIN)
    for segment in data {
        peer_b.segment_arrives(segment);
    }
    assert_eq!(peer_b.status(), State::Established);
    let acks = peer_b.segments();
    assert_eq!(acks.len(), 1);
    assert_eq!(acks[0].header.ack, 106);
    for segment in acks {
        assert_eq!(peer_a.segment_arrives(segment), SegmentArrivesResult::Ok);
    }
    // The FIN has not been acknowledged
    assert_eq!(peer_a.status(), State::FinWait1);

    // The retransmission timer expires: the FIN must go out again
    peer_a.advance_time(RETRANSMISSION_TIMEOUT * 2);
    let retransmitted = peer_a.segments();
    assert!(
        retransmitted
            .iter()
            .any(|segment| segment.header.ctl.fin() && segment.header.seq == 106),
        "unacknowledged FIN was not retransmitted: {retransmitted:?}"
    );

    // From here on the network is fair. B gets the data before the end of the
    // stream.
    for segment in retransmitted {
        peer_b.segment_arrives(segment);
    }
    assert_eq!(peer_b.receive().to_vec(), b"hello");
    assert_eq!(peer_b.status(), State::CloseWait);
    for segment in peer_b.segments() {
        peer_a.segment_arrives(segment);
    }
    assert_eq!(peer_a.status(), State::FinWait2);

    // B closes too and both sides are released
    assert_eq!(peer_b.close(), CloseResult::Ok);
    assert_eq!(peer_b.status(), State::LastAck);
    for segment in peer_b.segments() {
        peer_a.segment_arrives(segment);
    }
    assert_eq!(peer_a.status(), State::TimeWait);
    let mut b_released = false;
    for segment in peer_a.segments() {
        if peer_b.segment_arrives(segment) == SegmentArrivesResult::Close {
            b_released = true;
        }
    }
    assert!(b_released);
    assert_eq!(
        peer_a.advance_time(MSL.mul_f32(2.1)),
        AdvanceTimeResult::CloseConnection
    );
}

/// Same as above but driven as a closed loop: after the single loss, both
/// peers exchange whatever they emit and time advances. Both must be released
/// within a bounded number of rounds.
pub fn close_with_lost_fin_eventually_releases_both() {
    let (mut peer_a, mut peer_b) = established_pair(100, 300);
    peer_a.send(Message::new("hello"));
    let data = peer_a.segments();
    peer_a.close();
    // FIN lost
    let _ = peer_a.segments();
    for segment in data {
        peer_b.segment_arrives(segment);
    }

    let mut received = vec![];
    let mut a_released = false;
    let mut b_released = false;
    let mut b_closed = false;
    for _ in 0..200 {
        if !b_released {
            for segment in peer_b.segments() {
                if !a_released && peer_a.segment_arrives(segment) == SegmentArrivesResult::Close {
                    a_released = true;
                }
            }
        }
        if !a_released {
            for segment in peer_a.segments() {
                if !b_released && peer_b.segment_arrives(segment) == SegmentArrivesResult::Close {
                    b_released = true;
                }
            }
        }
        if !b_released {
            received.extend(peer_b.receive().iter());
            if !b_closed && peer_b.status() == State::CloseWait {
                // B saw the end of the stream; all data must be there already
                assert_eq!(received, b"hello");
                peer_b.close();
                b_closed = true;
            }
        }
        let tick = Duration::from_millis(30);
        if !a_released && peer_a.advance_time(tick) == AdvanceTimeResult::CloseConnection {
            a_released = true;
        }
        if !b_released && peer_b.advance_time(tick) == AdvanceTimeResult::CloseConnection {
            b_released = true;
        }
        if a_released && b_released {
            break;
        }
    }
    assert!(
        a_released && b_released,
        "endpoints linger: A {:?} (released: {a_released}), B {:?} (released: {b_released})",
        peer_a.status(),
        peer_b.status()
    );
}

// BOUNDED scenario (not ported from a seed; written from the text of C01 / C03 / C12): two real Tcb endpoints joined by a
// simulated network that loses, duplicates, delays and reorders segments for a bounded number of steps and is then
// loss-free and in order.  Runs only under --cfg vx_replay, as a plain test on the repository's code.
//
// Checked at every step (safety clause of C01): what each application has read is a prefix of what the other submitted.
// Checked at the end (bounded liveness clauses of C01 / C03, which no per-call contract expresses): once the network is
// loss-free every submitted byte is delivered exactly once within ROUNDS retransmission timeouts, everything is
// acknowledged (both retransmission queues empty), both endpoints stop transmitting; after close() on both sides both
// TCBs are released.  Sequence numbers start anywhere, including just below the 2^32 wrap (C12).
//
// Bound: SEEDS pseudo-random histories, <= 6000 octets per direction, LOSSY lossy steps, ROUNDS loss-free rounds.
#![allow(dead_code, unused_imports, unused_must_use)]

use super::super::*;
use crate::protocols::utility::Endpoints;

const A_ID: Endpoints = Endpoints {
    local: Endpoint { address: Ipv4Address::new([10, 0, 0, 1]), port: 0xcafe },
    remote: Endpoint { address: Ipv4Address::new([10, 0, 0, 2]), port: 0xdead },
};
const B_ID: Endpoints = Endpoints { local: A_ID.remote, remote: A_ID.local };

pub const SEEDS: u64 = 300;
const LOSSY: usize = 60;
const ROUNDS: usize = 40;
const RTO_PLUS: Duration = Duration::from_millis(110);

struct Lcg(u64);
impl Lcg {
    fn next(&mut self, n: usize) -> usize {
        self.0 = self.0.wrapping_mul(6364136223846793005).wrapping_add(1442695040888963407);
        ((self.0 >> 33) as usize) % n.max(1)
    }
}

struct End {
    tcb: Option<Tcb>,
    released: bool,
    /// what the application has submitted so far / will submit in total
    submitted: Vec<u8>,
    to_submit: Vec<u8>,
    /// what the application has read
    read: Vec<u8>,
    /// every segment emitted: (SEQ - ISS, ACK - IRS, text length, control bits, window)
    trace: Vec<(u32, u32, u32, u8, u16)>,
}

impl End {
    fn new(tcb: Option<Tcb>, stream: Vec<u8>) -> Self {
        Self { tcb, released: false, submitted: Vec::new(), to_submit: stream, read: Vec::new(), trace: Vec::new() }
    }
    fn submit(&mut self, n: usize) {
        if let Some(tcb) = self.tcb.as_mut() {
            let n = n.min(self.to_submit.len());
            if n > 0 {
                let chunk: Vec<u8> = self.to_submit.drain(..n).collect();
                self.submitted.extend_from_slice(&chunk);
                tcb.send(Message::new(chunk));
            }
        }
    }
    fn emit(&mut self) -> Vec<Segment> {
        match self.tcb.as_mut() {
            Some(tcb) if !self.released => {
                let segs = tcb.segments();
                for s in segs.iter() {
                    // (C17) data is never sent beyond the right edge of the window the peer advertised
                    let end = s.header.seq.wrapping_add(s.text.len() as u32);
                    // (a retransmitted segment may lie behind SND.UNA: its end is then "negative" in circular terms)
                    assert!(s.text.len() == 0 || end.wrapping_sub(tcb.snd.una) <= tcb.snd.wnd as u32 || end.wrapping_sub(tcb.snd.una) >= 0x8000_0000,
                        "a data segment ends {} octets after SND.UNA although SND.WND is {}", end.wrapping_sub(tcb.snd.una), tcb.snd.wnd);
                    // trace relative to the initial sequence numbers (C12: independent of their absolute values)
                    let rel_ack = if s.header.ctl.ack() { s.header.ack.wrapping_sub(tcb.rcv.irs) } else { 0 };
                    self.trace.push((s.header.seq.wrapping_sub(tcb.snd.iss), rel_ack, s.text.len() as u32, u8::from(s.header.ctl), s.header.wnd));
                }
                segs
            }
            _ => Vec::new(),
        }
    }
    fn read(&mut self) {
        if let Some(tcb) = self.tcb.as_mut() {
            self.read.extend(tcb.receive().iter());
        }
    }
    fn tick(&mut self, d: Duration) {
        if self.released {
            return;
        }
        if let Some(tcb) = self.tcb.as_mut() {
            if tcb.advance_time(d) == AdvanceTimeResult::CloseConnection {
                self.released = true;
            }
        }
    }
}

fn deliver(to: &mut End, seg: Segment, listen_iss: Option<u32>) {
    if to.released {
        return;
    }
    match to.tcb.as_mut() {
        Some(tcb) => {
            if tcb.segment_arrives(seg) == SegmentArrivesResult::Close {
                to.released = true;
            }
            // the application reads promptly (Tcb::receive hands nothing out once the connection is closing)
            to.read.extend(tcb.receive().iter());
        }
        None => {
            if let Some(iss) = listen_iss {
                if let Some(ListenResult::Tcb(tcb)) = segment_arrives_listen(seg, B_ID.local.address, B_ID.remote.address, iss, 1500) {
                    to.tcb = Some(tcb);
                }
            }
        }
    }
}

fn check_prefix(reader: &End, writer: &End, who: &str, seed: u64, step: usize) {
    assert!(
        reader.read.len() <= writer.submitted.len() && reader.read[..] == writer.submitted[..reader.read.len()],
        "{who}: the bytes read are not a prefix of the bytes submitted (seed {seed}, step {step}: read {} octets, submitted {})",
        reader.read.len(),
        writer.submitted.len()
    );
}

fn iss(g: &mut Lcg) -> u32 {
    match g.next(3) {
        0 => 0xffff_ff00u32.wrapping_add(g.next(0x200) as u32),        // the stream crosses the 2^32 wrap
        1 => 0x7fff_f000u32.wrapping_add(g.next(0x2000) as u32),       // ... or the 2^31 boundary
        _ => ((g.next(1 << 16) as u32) << 16) | g.next(1 << 16) as u32,
    }
}

/// what the network does to freshly emitted segments
fn ab_push(g: &mut Lcg, wire: &mut Vec<Segment>, segs: Vec<Segment>, lossy: bool) {
    for seg in segs {
        if !lossy { wire.push(seg); continue; }
        match g.next(8) {
            0 | 1 => {}
            2 => { wire.push(seg.clone()); let k = g.next(wire.len() + 1); wire.insert(k, seg); }
            3 => { let k = g.next(wire.len() + 1); wire.insert(k, seg); }
            _ => wire.push(seg),
        }
    }
}

type Trace = Vec<(u32, u32, u32, u8, u16)>;

pub fn run(seeds: std::ops::Range<u64>) {
    for seed in seeds {
        // (C12) the same history under three choices of initial sequence numbers: small ones, ones that make both streams cross
        // the 2^32 wrap, ones that cross the 2^31 boundary - the traces relative to the ISNs must be identical
        let mut g = Lcg(seed ^ 0x0f0f_1234);
        let k = (g.next(0x1000) as u32, g.next(0x1000) as u32);
        let base = run_one(seed, 100 + k.0, 300 + k.1);
        for (what, ia, ib) in [("cross the 2^32 wrap", 0xffff_f000u32.wrapping_add(k.0), 0xffff_f800u32.wrapping_add(k.1)),
                               ("cross the 2^31 boundary", 0x7fff_f000u32.wrapping_add(k.0), 0x7fff_f800u32.wrapping_add(k.1)),
                               ("are arbitrary", iss(&mut g), iss(&mut g))] {
            let other = run_one(seed, ia, ib);
            assert!(base == other, "the segment trace relative to the initial sequence numbers changes when the sequence numbers {what} (seed {seed}, ISS {ia:#x} / {ib:#x}): {} vs {} segments A->B, {} vs {} B->A",
                base.0.len(), other.0.len(), base.1.len(), other.1.len());
        }
    }
}

fn run_one(seed: u64, iss_a: u32, iss_b: u32) -> (Trace, Trace) {
    {
        let mut g = Lcg(seed.wrapping_mul(0x9e3779b97f4a7c15) ^ 0x1234_5678_9abc_def1);
        // one history in five moves bursts larger than the 65535-octet window
        let big = g.next(5) == 0;
        let stream = |g: &mut Lcg, tag: u8| -> Vec<u8> { let n = if big { 60_000 + g.next(90_001) } else { g.next(6001) }; (0..n).map(|i| (i as u8).wrapping_mul(31).wrapping_add(tag)).collect() };
        let sa = stream(&mut g, 1);
        let sb = stream(&mut g, 101);
        // each side keeps a reserve that it submits immediately before its close()
        let (res_a, res_b) = (g.next(1500).min(sa.len()), g.next(1500).min(sb.len()));
        let (tail_a, tail_b) = (sa[sa.len() - res_a..].to_vec(), sb[sb.len() - res_b..].to_vec());
        let mut a = End::new(Some(Tcb::open(A_ID, iss_a, 1500)), sa[..sa.len() - res_a].to_vec());
        let mut b = End::new(None, sb[..sb.len() - res_b].to_vec());
        let (mut ab, mut ba): (Vec<Segment>, Vec<Segment>) = (Vec::new(), Vec::new());

        // ---------------- lossy phase: loss, duplication, delay, reordering ----------------
        for step in 0..LOSSY {
            if g.next(2) == 0 { let n = g.next(if big { 100_000 } else { 2500 }); a.submit(n); }
            if g.next(2) == 0 { let n = g.next(if big { 100_000 } else { 2500 }); b.submit(n); }
            for (from, wire) in [(&mut a, &mut ab), (&mut b, &mut ba)] {
                for seg in from.emit() {
                    match g.next(8) {
                        0 | 1 => {}                                                            // lost
                        2 => { wire.push(seg.clone()); let k = g.next(wire.len() + 1); wire.insert(k, seg); }   // duplicated, one copy displaced
                        3 => { let k = g.next(wire.len() + 1); wire.insert(k, seg); }         // reordered
                        _ => wire.push(seg),
                    }
                }
            }
            let n = g.next(ab.len() + 1);
            for seg in ab.drain(..n).collect::<Vec<_>>() { deliver(&mut b, seg, Some(iss_b)); }
            let n = g.next(ba.len() + 1);
            for seg in ba.drain(..n).collect::<Vec<_>>() { deliver(&mut a, seg, None); }
            a.read(); b.read();
            check_prefix(&b, &a, "A -> B", seed, step);
            check_prefix(&a, &b, "B -> A", seed, step);
            let d = Duration::from_millis(g.next(150) as u64);
            a.tick(d); b.tick(d);
            assert!(!a.released && !b.released, "an endpoint was released although nobody closed or reset (seed {seed}, step {step})");
        }

        // ---------------- loss-free phase: everything is delivered within ROUNDS timeouts ----------------
        let (rest_a, rest_b) = (a.to_submit.len(), b.to_submit.len());
        let mut quiet_rounds = 0;
        for round in 0..ROUNDS {
            if round == 0 { a.submit(rest_a); }
            if b.tcb.is_some() && !b.to_submit.is_empty() { b.submit(rest_b); }
            let mut moved = 0;
            for _ in 0..8 {
                ab.extend(a.emit());
                ba.extend(b.emit());
                moved += ab.len() + ba.len();
                for seg in ab.drain(..).collect::<Vec<_>>() { deliver(&mut b, seg, Some(iss_b)); }
                for seg in ba.drain(..).collect::<Vec<_>>() { deliver(&mut a, seg, None); }
                a.read(); b.read();
                check_prefix(&b, &a, "A -> B", seed, LOSSY + round);
                check_prefix(&a, &b, "B -> A", seed, LOSSY + round);
            }
            a.tick(RTO_PLUS); b.tick(RTO_PLUS);
            quiet_rounds = if moved == 0 { quiet_rounds + 1 } else { 0 };
        }
        assert!(b.tcb.is_some(), "the passive side never saw a SYN although the network stopped losing segments (seed {seed})");
        assert!(a.to_submit.is_empty() && b.to_submit.is_empty());
        assert_eq!(b.read.len(), a.submitted.len(), "A -> B: not every submitted octet was delivered exactly once after {ROUNDS} loss-free rounds (seed {seed})");
        assert_eq!(a.read.len(), b.submitted.len(), "B -> A: not every submitted octet was delivered exactly once after {ROUNDS} loss-free rounds (seed {seed})");
        assert!(a.tcb.as_ref().unwrap().outgoing.retransmit.is_empty() && b.tcb.as_ref().unwrap().outgoing.retransmit.is_empty(),
            "something is still unacknowledged after {ROUNDS} loss-free rounds (seed {seed})");
        assert!(quiet_rounds >= 2, "the endpoints keep transmitting although everything was delivered (seed {seed})");
        assert!(!a.released && !b.released);

        // ---------------- close with data in flight over a faulty network, then loss-free: both TCBs are released ----------------
        a.to_submit = tail_a;
        b.to_submit = tail_b;
        let close_a_at = g.next(12);
        let close_b_at = g.next(12);
        let (mut closed_a, mut closed_b) = (false, false);
        for step in 0..(30 + ROUNDS) {
            let lossy = step < 30;
            // submit the reserve, segmentize it (it fits the window), then close: the FIN follows data that is still in flight
            if !closed_a && step >= close_a_at && !a.released { let n = a.to_submit.len(); a.submit(n); ab_push(&mut g, &mut ab, a.emit(), lossy); let _ = a.tcb.as_mut().unwrap().close(); closed_a = true; }
            if !closed_b && step >= close_b_at && !b.released { let n = b.to_submit.len(); b.submit(n); ab_push(&mut g, &mut ba, b.emit(), lossy); let _ = b.tcb.as_mut().unwrap().close(); closed_b = true; }
            for _ in 0..(if lossy { 1 } else { 4 }) {
                ab_push(&mut g, &mut ab, a.emit(), lossy);
                ab_push(&mut g, &mut ba, b.emit(), lossy);
                let n = if lossy { g.next(ab.len() + 1) } else { ab.len() };
                for seg in ab.drain(..n).collect::<Vec<_>>() { deliver(&mut b, seg, None); }
                let n = if lossy { g.next(ba.len() + 1) } else { ba.len() };
                for seg in ba.drain(..n).collect::<Vec<_>>() { deliver(&mut a, seg, None); }
                check_prefix(&b, &a, "A -> B (closing)", seed, step);
                check_prefix(&a, &b, "B -> A (closing)", seed, step);
            }
            if std::env::var("VX_DEBUG").is_ok() { println!("seed {seed} step {step} A {:?} rel {} sub {} read {} | B {:?} rel {} sub {} read {} | wire {} {}", a.tcb.as_ref().map(|t| t.status()), a.released, a.submitted.len(), a.read.len(), b.tcb.as_ref().map(|t| t.status()), b.released, b.submitted.len(), b.read.len(), ab.len(), ba.len()); }
            let d = if lossy { Duration::from_millis(g.next(150) as u64) } else { RTO_PLUS };
            a.tick(d); b.tick(d);
        }
        // 2 MSL
        for _ in 0..30 { a.tick(RTO_PLUS); b.tick(RTO_PLUS); }
        assert!(a.released && b.released, "after both sides closed and the network became loss-free a TCB lingers: A released {} ({:?}), B released {} ({:?}) (seed {seed})",
            a.released, a.tcb.as_ref().map(|t| t.status()), b.released, b.tcb.as_ref().map(|t| t.status()));
        assert_eq!(b.read.len(), a.submitted.len(), "A -> B: octets submitted before close() were not all delivered (seed {seed})");
        assert_eq!(a.read.len(), b.submitted.len(), "B -> A: octets submitted before close() were not all delivered (seed {seed})");
        (a.trace, b.trace)
    }
}

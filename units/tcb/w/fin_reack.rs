// Witness scenario (ported mechanically from seeded/C03-2: `#[test] fn` -> `pub fn`); runs only under --cfg vx_replay,
// as a concrete call sequence on the real Tcb when a paired Verus obligation fails.
#![allow(dead_code, unused_imports, unused_must_use)]
//! Demonstration for C03: simultaneous close where both ACKs of the FINs are
//! lost. After that the network is fair, so the FIN retransmissions must
//! regenerate the lost ACKs and both endpoints must reach TIME-WAIT and be
//! released by the 2*MSL wait.
#![allow(unused_must_use)]

use super::super::*;
use crate::protocols::utility::Endpoints;

const PEER_A_ID: Endpoints = Endpoints {
    local: Endpoint {
        address: Ipv4Address::new([0, 0, 0, 0]),
        port: 0xcafe,
    },
    remote: Endpoint {
        address: Ipv4Address::new([0, 0, 0, 1]),
        port: 0xdead,
    },
};

const PEER_B_ID: Endpoints = Endpoints {
    local: PEER_A_ID.remote,
    remote: PEER_A_ID.local,
};

fn established_pair(peer_a_iss: u32, peer_b_iss: u32) -> (Tcb, Tcb) {
    let mut peer_a = Tcb::open(PEER_A_ID, peer_a_iss, 1500);
    let peer_a_syn = peer_a.segments().remove(0);
    let mut peer_b = segment_arrives_listen(
        peer_a_syn,
        PEER_B_ID.local.address,
        PEER_B_ID.remote.address,
        peer_b_iss,
        1500,
    )
    .unwrap()
    .tcb()
    .unwrap();
    let peer_b_syn_ack = peer_b.segments().remove(0);
    peer_a.segment_arrives(peer_b_syn_ack);
    let peer_a_ack = peer_a.segments().remove(0);
    peer_b.segment_arrives(peer_a_ack);
    assert_eq!(peer_a.status(), State::Established);
    assert_eq!(peer_b.status(), State::Established);
    (peer_a, peer_b)
}

pub fn simultaneous_close_with_both_fin_acks_lost() {
    let (mut peer_a, mut peer_b) = established_pair(99, 299);

    // Both applications close at the same time; the FINs cross.
    assert_eq!(peer_a.close(), CloseResult::Ok);
    assert_eq!(peer_b.close(), CloseResult::Ok);
    let fin_a = peer_a.segments();
    let fin_b = peer_b.segments();
    assert_eq!(fin_a.len(), 1);
    assert_eq!(fin_b.len(), 1);
    for segment in fin_b {
        peer_a.segment_arrives(segment);
    }
    for segment in fin_a {
        peer_b.segment_arrives(segment);
    }
    assert_eq!(peer_a.status(), State::Closing);
    assert_eq!(peer_b.status(), State::Closing);
    assert_eq!(peer_a.rcv.nxt, peer_b.snd.nxt);
    assert_eq!(peer_b.rcv.nxt, peer_a.snd.nxt);

    // The ACK of each FIN is generated, but the network drops both of them.
    let lost_a = peer_a.segments();
    let lost_b = peer_b.segments();
    assert_eq!(lost_a.len(), 1);
    assert_eq!(lost_b.len(), 1);
    assert!(!lost_a[0].header.ctl.fin() && lost_a[0].header.ctl.ack());
    assert!(!lost_b[0].header.ctl.fin() && lost_b[0].header.ctl.ack());
    drop((lost_a, lost_b));

    // From now on the network is fair: nothing else is dropped. The
    // retransmission timer fires, the FINs are resent, and every segment is
    // delivered one step (10 ms) after it was produced.
    let step = Duration::from_millis(10);
    for _ in 0..30 {
        assert_eq!(peer_a.advance_time(step), AdvanceTimeResult::Ignore);
        assert_eq!(peer_b.advance_time(step), AdvanceTimeResult::Ignore);
        let from_a = peer_a.segments();
        let from_b = peer_b.segments();
        for segment in from_b {
            assert_eq!(peer_a.segment_arrives(segment), SegmentArrivesResult::Ok);
        }
        for segment in from_a {
            assert_eq!(peer_b.segment_arrives(segment), SegmentArrivesResult::Ok);
        }
        // Only transitions of the RFC 9293 diagram are allowed from CLOSING
        assert!(matches!(peer_a.status(), State::Closing | State::TimeWait));
        assert!(matches!(peer_b.status(), State::Closing | State::TimeWait));
    }

    // The retransmitted FINs must have regenerated the lost ACKs.
    assert_eq!(peer_a.status(), State::TimeWait);
    assert_eq!(peer_b.status(), State::TimeWait);

    // Nothing is left to retransmit
    let rto = RETRANSMISSION_TIMEOUT + step;
    assert_eq!(peer_a.advance_time(rto), AdvanceTimeResult::Ignore);
    assert_eq!(peer_b.advance_time(rto), AdvanceTimeResult::Ignore);
    assert!(peer_a.segments().is_empty());
    assert!(peer_b.segments().is_empty());

    // And both are released by the 2*MSL wait
    assert_eq!(
        peer_a.advance_time(MSL.mul_f32(2.1)),
        AdvanceTimeResult::CloseConnection
    );
    assert_eq!(
        peer_b.advance_time(MSL.mul_f32(2.1)),
        AdvanceTimeResult::CloseConnection
    );
}

// Witness scenarios written for the C12 / C01 / C03 clauses of Tcb::process_segment and friends: the same two-endpoint
// exchange (loss of first transmissions, every segment delivered twice, a peer that shrinks and re-opens its window, data
// sent to an endpoint in FIN-WAIT-2) is run for several initial sequence numbers - including ones that make either
// sequence space wrap during the handshake or the transfer - and must behave identically up to the shift.
// Runs only under --cfg vx_replay, when a paired Verus obligation fails.
#![allow(dead_code, unused_imports, unused_must_use)]
use super::super::*;

const A: Endpoint = Endpoint { address: Ipv4Address::new([10, 0, 0, 1]), port: 1000 };
const B: Endpoint = Endpoint { address: Ipv4Address::new([10, 0, 0, 2]), port: 2000 };

/// two connected endpoints: `a` opened actively with ISS `iss_a`, `b` created from LISTEN with ISS `iss_b`
pub fn established_pair(iss_a: u32, iss_b: u32) -> (Tcb, Tcb) {
    let mut a = Tcb::open(Endpoints::new(A, B), iss_a, 1500);
    let syn = a.segments().remove(0);
    let Some(ListenResult::Tcb(mut b)) = segment_arrives_listen(syn, B.address, A.address, iss_b, 1500) else {
        panic!("a SYN creates a TCB");
    };
    for s in b.segments() {
        a.segment_arrives(s);
    }
    for s in a.segments() {
        b.segment_arrives(s);
    }
    assert_eq!(a.status(), State::Established);
    assert_eq!(b.status(), State::Established);
    (a, b)
}

/// a -> b transfer of 5000 octets: in the first round every data segment but the first is lost; every segment that does
/// arrive is delivered twice.  Returns what b's user received and the trace of (relative seq, len, relative ack) of a's segments.
pub fn lossy_duplicated_transfer(iss_a: u32, iss_b: u32) -> (Vec<u8>, Vec<(u32, usize, u32)>) {
    let data: Vec<u8> = (0..5000u32).map(|i| (i * 7) as u8).collect();
    let (mut a, mut b) = established_pair(iss_a, iss_b);
    a.send(Message::new(data));
    let mut received = vec![];
    let mut trace = vec![];
    for round in 0..30 {
        for (i, s) in a.segments().into_iter().enumerate() {
            trace.push((s.header.seq.wrapping_sub(iss_a), s.text.len(), s.header.ack.wrapping_sub(iss_b)));
            if round == 0 && i > 0 {
                continue; // lost
            }
            b.segment_arrives(s.clone());
            b.segment_arrives(s); // duplicated by the network
        }
        received.extend(b.receive().to_vec());
        for s in b.segments() {
            a.segment_arrives(s.clone());
            a.segment_arrives(s);
        }
        a.advance_time(Duration::from_millis(150));
        b.advance_time(Duration::from_millis(150));
    }
    (received, trace)
}

pub fn behaviour_does_not_depend_on_the_isn() {
    let expected: Vec<u8> = (0..5000u32).map(|i| (i * 7) as u8).collect();
    let (base, base_trace) = lossy_duplicated_transfer(100, 300);
    assert!(base == expected, "baseline transfer (ISS 100 / 300) does not deliver the stream");
    for (iss_a, iss_b) in [(u32::MAX - 2000, 300), (u32::MAX - 10, 300), (u32::MAX, u32::MAX), (100, u32::MAX - 1), ((1u32 << 31) - 700, (1u32 << 31) + 5), (0, u32::MAX - 4000)] {
        let (got, trace) = lossy_duplicated_transfer(iss_a, iss_b);
        assert!(got == expected, "stream differs for ISS {iss_a} / {iss_b}: {} of {} octets", got.len(), expected.len());
        assert_eq!(trace, base_trace, "emitted segments differ (relative to the ISNs) for ISS {iss_a} / {iss_b}");
    }
}

/// b advertises a small window, later a larger one in a segment whose sequence number lies beyond the wrap: a follows it
pub fn window_updates_are_followed_across_the_wrap() {
    for iss_b in [300u32, u32::MAX - 3, u32::MAX] {
        let (mut a, mut b) = established_pair(100, iss_b);
        // b sends a little data so that its sequence numbers move (across the wrap for the large ISS values)
        b.send(Message::new(vec![1u8; 10]));
        for s in b.segments() {
            a.segment_arrives(s);
        }
        assert_eq!(a.receive().len(), 10);
        for s in a.segments() {
            b.segment_arrives(s);
        }
        // a hand-made window update from b: SEG.SEQ = b's SND.NXT, SEG.ACK = a's SND.NXT, WND = 777
        let h = TcpHeaderBuilder::new(B.port, A.port, iss_b.wrapping_add(11)).ack(101).wnd(777).build(B.address, A.address, [].into_iter(), 0).unwrap();
        a.segment_arrives(Segment::new(h, Message::default()));
        assert_eq!(a.snd.wnd, 777, "window update ignored for peer ISS {iss_b}");
    }
}

/// a closes; b (in CLOSE-WAIT) keeps sending; a (FIN-WAIT-1 / FIN-WAIT-2) must still deliver that data
pub fn data_after_our_close_is_still_delivered() {
    let (mut a, mut b) = established_pair(100, 300);
    a.close();
    for s in a.segments() {
        b.segment_arrives(s);
    }
    for s in b.segments() {
        a.segment_arrives(s);
    }
    assert_eq!(a.status(), State::FinWait2);
    b.send(Message::new(b"still talking".to_vec()));
    for s in b.segments() {
        a.segment_arrives(s);
    }
    assert_eq!(a.receive().to_vec(), b"still talking".to_vec(), "data sent to an endpoint in FIN-WAIT-2 was not delivered");
}

/// the receiving application reads late: only part of a segment fits the buffer; the rest must arrive by retransmission
pub fn partly_accepted_segment_is_completed_later() {
    let data: Vec<u8> = (0..70000u32).map(|i| (i % 251) as u8).collect();
    let (mut a, mut b) = established_pair(100, 300);
    a.send(Message::new(data.clone()));
    let mut received = vec![];
    for round in 0..400 {
        for s in a.segments() {
            b.segment_arrives(s);
        }
        if round >= 60 {
            received.extend(b.receive().to_vec()); // the user starts reading late
        }
        for s in b.segments() {
            a.segment_arrives(s);
        }
        a.advance_time(Duration::from_millis(150));
        b.advance_time(Duration::from_millis(150));
    }
    assert!(received == data, "stream differs after a late reader: {} of {} octets", received.len(), data.len());
}

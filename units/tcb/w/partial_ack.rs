// Witness scenario (ported mechanically from seeded/C01-2: `#[test] fn` -> `pub fn`); runs only under --cfg vx_replay,
// as a concrete call sequence on the real Tcb when a paired Verus obligation fails.
#![allow(dead_code, unused_imports, unused_must_use)]
//! Demonstration for property C01: a late-reading application makes the
//! receiver accept only the leading part of a segment (its buffer fills up in
//! the middle of that segment), so the sender sees an acknowledgment that lies
//! strictly inside a segment on its retransmission queue. The remainder of that
//! segment must still be retransmitted and the whole stream delivered.

#![allow(unused_must_use)]

use super::super::*;
use crate::protocols::utility::Endpoints;

const PEER_A_ID: Endpoints = Endpoints {
    local: Endpoint {
        address: Ipv4Address::new([0, 0, 0, 0]),
        port: 0xcafe,
    },
    remote: Endpoint {
        address: Ipv4Address::new([0, 0, 0, 1]),
        port: 0xdead,
    },
};

const PEER_B_ID: Endpoints = Endpoints {
    local: PEER_A_ID.remote,
    remote: PEER_A_ID.local,
};

fn established_pair(peer_a_iss: u32, peer_b_iss: u32) -> (Tcb, Tcb) {
    let mut peer_a = Tcb::open(PEER_A_ID, peer_a_iss, 1500);
    let peer_a_syn = peer_a.segments().remove(0);
    let mut peer_b = segment_arrives_listen(
        peer_a_syn,
        PEER_B_ID.local.address,
        PEER_B_ID.remote.address,
        peer_b_iss,
        1500,
    )
    .unwrap()
    .tcb()
    .unwrap();
    let peer_b_syn_ack = peer_b.segments().remove(0);
    peer_a.segment_arrives(peer_b_syn_ack);
    let peer_a_ack = peer_a.segments().remove(0);
    peer_b.segment_arrives(peer_a_ack);
    assert_eq!(peer_a.status(), State::Established);
    assert_eq!(peer_b.status(), State::Established);
    (peer_a, peer_b)
}

/// One lossless round trip: everything A emits reaches B in order, everything
/// B emits reaches A in order, then a retransmission timeout elapses on both.
fn round_trip(peer_a: &mut Tcb, peer_b: &mut Tcb) -> usize {
    let a_out = peer_a.segments();
    let mut sent = a_out.len();
    for segment in a_out {
        peer_b.segment_arrives(segment);
    }
    let b_out = peer_b.segments();
    sent += b_out.len();
    for segment in b_out {
        peer_a.segment_arrives(segment);
    }
    peer_a.advance_time(Duration::from_millis(150));
    peer_b.advance_time(Duration::from_millis(150));
    sent
}

pub fn late_reader_partial_acknowledgment() {
    let first: Vec<u8> = (0..1000u32).map(|i| (i % 251) as u8).collect();
    let second: Vec<u8> = (0..70_000u32).map(|i| (i % 241) as u8).collect();
    let mut expected = first.clone();
    expected.extend(second.iter());

    let (mut peer_a, mut peer_b) = established_pair(100, 300);

    // A small write is delivered and acknowledged, but B's application does
    // not read it yet, so 1000 bytes stay in B's receive buffer.
    peer_a.send(Message::new(first));
    round_trip(&mut peer_a, &mut peer_b);

    // A large write (above the 64 KiB window). A fills the advertised window
    // with 46 segments; B only has room for 64535 more bytes, which ends in
    // the middle of the 45th segment. B acknowledges exactly that much.
    peer_a.send(Message::new(second));
    round_trip(&mut peer_a, &mut peer_b);

    // Now the application reads (late), and keeps reading eagerly afterwards.
    // The network is lossless from here on.
    let mut received: Vec<u8> = vec![];
    received.extend(peer_b.receive().iter());
    assert_eq!(received.len(), 65_535);
    assert_eq!(&received[..], &expected[..received.len()]);

    let mut quiet = false;
    for _ in 0..200 {
        let sent = round_trip(&mut peer_a, &mut peer_b);
        received.extend(peer_b.receive().iter());
        // Safety: always a prefix of what was submitted
        assert!(received.len() <= expected.len());
        assert_eq!(&received[..], &expected[..received.len()]);
        if sent == 0 {
            quiet = true;
            break;
        }
    }

    // Liveness: everything is delivered exactly once, everything is
    // acknowledged, and both endpoints have stopped transmitting.
    assert_eq!(received.len(), expected.len(), "stream stalled");
    assert_eq!(received, expected);
    assert!(peer_a.outgoing.retransmit.is_empty());
    assert_eq!(peer_a.snd.una, peer_a.snd.nxt);
    assert!(quiet, "endpoints never stopped transmitting");
}

// Witness scenario (ported mechanically from seeded/C17-3: `#[test] fn` -> `pub fn`); runs only under --cfg vx_replay,
// as a concrete call sequence on the real Tcb when a paired Verus obligation fails.
#![allow(dead_code, unused_imports, unused_must_use)]
//! Checks that new data is never sent beyond the right edge of the window the
//! peer last advertised, even when the peer acknowledges only part of a
//! segment.

#![allow(unused_must_use)]

use super::super::*;

const LOCAL_ID: Endpoints = Endpoints {
    local: Endpoint {
        address: Ipv4Address::new([10, 0, 0, 1]),
        port: 0xcafe,
    },
    remote: Endpoint {
        address: Ipv4Address::new([10, 0, 0, 2]),
        port: 0xdead,
    },
};

const ISS: u32 = 1000;
const PEER_ISS: u32 = 5000;
const PEER_WND: u16 = 1000;

/// A text-free segment as the remote peer would send it
fn from_peer(builder: TcpHeaderBuilder) -> Segment {
    let header = builder
        .build(
            LOCAL_ID.remote.address,
            LOCAL_ID.local.address,
            [].into_iter(),
            0,
        )
        .unwrap();
    Segment::new(header, Message::default())
}

fn peer_builder(seq: u32) -> TcpHeaderBuilder {
    TcpHeaderBuilder::new(LOCAL_ID.remote.port, LOCAL_ID.local.port, seq)
}

pub fn partial_ack_does_not_send_beyond_advertised_window() {
    // Handshake with a peer that advertises a 1000 byte window
    let mut tcb = Tcb::open(LOCAL_ID, ISS, 1500);
    let syn = tcb.segments().remove(0);
    assert!(syn.header.ctl.syn());
    tcb.segment_arrives(from_peer(
        peer_builder(PEER_ISS)
            .syn()
            .ack(ISS.wrapping_add(1))
            .wnd(PEER_WND),
    ));
    assert_eq!(tcb.status(), State::Established);
    // The ACK for the SYN-ACK
    tcb.segments();

    // Queue more than fits into the window
    let payload: Vec<u8> = (0..4000u32).map(|i| i as u8).collect();
    tcb.send(Message::new(payload));

    // The peer's view of the permitted sequence space
    let mut peer_ack = ISS.wrapping_add(1);
    let mut right_edge = peer_ack.wrapping_add(PEER_WND as u32);
    let mut highest_sent = peer_ack;

    let first = tcb.segments();
    assert_eq!(first.len(), 1);
    for segment in first.iter() {
        let end = segment
            .header
            .seq
            .wrapping_add(segment.text.len() as u32);
        assert!(mod_leq(end, right_edge));
        if mod_gt(end, highest_sent) {
            highest_sent = end;
        }
    }
    assert_eq!(highest_sent, right_edge);

    // The peer has consumed only half of the segment so far. It acknowledges
    // those 500 bytes and still advertises 1000 bytes of window.
    peer_ack = peer_ack.wrapping_add(500);
    right_edge = peer_ack.wrapping_add(PEER_WND as u32);
    assert_eq!(
        tcb.segment_arrives(from_peer(
            peer_builder(PEER_ISS.wrapping_add(1))
                .ack(peer_ack)
                .wnd(PEER_WND)
        )),
        SegmentArrivesResult::Ok
    );

    // Whatever gets sent now has to stay at or below SEG.ACK + SEG.WND
    for segment in tcb.segments() {
        let end = segment
            .header
            .seq
            .wrapping_add(segment.text.len() as u32);
        assert!(
            mod_leq(end, right_edge),
            "segment seq={} len={} ends at {} which is beyond the right edge {} of the advertised window",
            segment.header.seq,
            segment.text.len(),
            end,
            right_edge
        );
    }

    // The bytes the peer has not acknowledged must still be retransmittable
    tcb.advance_time(RETRANSMISSION_TIMEOUT * 2);
    let retransmitted = tcb.segments();
    assert!(retransmitted
        .iter()
        .any(|segment| mod_leq(segment.header.seq, peer_ack)
            && mod_gt(
                segment
                    .header
                    .seq
                    .wrapping_add(segment.text.len() as u32),
                peer_ack
            )));
}

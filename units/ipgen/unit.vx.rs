//@ unit ipgen props=C15
//@ include vx/prelude.rs
//@ include vx/be_bytes.rs
//@ include vx/std_specs.rs
use std::collections::BTreeSet;
use vstd::std_specs::btree::*;
use vstd::std_specs::iter::IteratorSpec;
//@ import-unit subnet
verus! {
broadcast use group_btree_axioms;

// u32::checked_add_signed is specified by vstd

// ---------------------------------------------------------------------------
// IpRange: an inclusive interval of addresses, compared numerically
// ---------------------------------------------------------------------------
//@ item sim/elvis/src/ip_generator.rs :: struct IpRange strip-attrs
//@ rewrite `pub struct IpRange \{` => `#[derive(Clone, Copy, PartialEq, Eq, PartialOrd, Ord)] pub struct IpRange {` ## derive(Debug) dropped
//@ end

/// derive(PartialEq, Eq, PartialOrd, Ord) on IpRange: lexicographic on (start, end). ASSUMED (semantics of derive).
pub open spec fn range_cmp(a: IpRange, b: IpRange) -> Ordering {
    if val(a.start) < val(b.start) { Ordering::Less } else if val(a.start) > val(b.start) { Ordering::Greater }
    else if val(a.end) < val(b.end) { Ordering::Less } else if val(a.end) > val(b.end) { Ordering::Greater } else { Ordering::Equal }
}
impl PartialEqSpecImpl for IpRange {
    open spec fn obeys_eq_spec() -> bool { true }
    open spec fn eq_spec(&self, other: &Self) -> bool { *self == *other }
}
impl PartialOrdSpecImpl for IpRange {
    open spec fn obeys_partial_cmp_spec() -> bool { true }
    open spec fn partial_cmp_spec(&self, other: &Self) -> Option<Ordering> { Some(range_cmp(*self, *other)) }
}
impl OrdSpecImpl for IpRange {
    open spec fn obeys_cmp_spec() -> bool { true }
    open spec fn cmp_spec(&self, other: &Self) -> Ordering { range_cmp(*self, *other) }
}
/// ASSUMPTION (glue to vstd): licence to use IpRange as a BTreeSet key (see unit iptable for the same pattern)
#[verifier::external_body]
pub proof fn axiom_range_key_obeys_cmp_spec()
    ensures key_obeys_cmp_spec::<IpRange>(),
{}

/// ASSUMED specification of BTreeSet::retain (vstd has none): exactly the elements the predicate accepts are kept
pub assume_specification<T: Ord, A: std::alloc::Allocator + Clone, F: FnMut(&T) -> bool> [BTreeSet::<T, A>::retain] (s: &mut BTreeSet<T, A>, f: F)
    requires forall|x: &T| #[trigger] f.requires((x,)),
    ensures
        forall|x: T| #![trigger final(s)@.contains(x)] final(s)@.contains(x) ==> (old(s)@.contains(x) && f.ensures((&x,), true)),
        forall|x: T| #![trigger old(s)@.contains(x)] (old(s)@.contains(x) && !f.ensures((&x,), false)) ==> final(s)@.contains(x);

/// ASSUMPTION (std): iterating a BTreeSet yields exactly its elements.  vstd's specification of BTreeSet::iter is
/// not usable for a user-defined key type (only the length is exposed), so `self.available()` - which is
/// `self.available_ranges.iter().copied()` - is routed, by a declared rewrite, through this wrapper whose body is
/// the real iterator chain collected into a Vec.
#[verifier::external_body]
pub fn vx_ranges(s: &BTreeSet<IpRange>) -> (v: Vec<IpRange>)
    ensures
        forall|i: int| 0 <= i < v@.len() ==> s@.contains(#[trigger] v@[i]),
        forall|r: IpRange| s@.contains(r) ==> v@.contains(r),
{ s.iter().copied().collect() }

/// no aligned network of mask `m` lies inside the interval r
pub open spec fn no_net_fits(r: IpRange, m: u32) -> bool {
    forall|lo: u32| #![trigger lo & !m] (lo & !m == 0 && val(r.start) <= lo && (lo | !m) <= val(r.end)) ==> false
}

pub open spec fn overlaps_spec(a: IpRange, b: IpRange) -> bool { val(a.start) <= val(b.end) && val(a.end) >= val(b.start) }
pub open spec fn contains_spec(a: IpRange, b: IpRange) -> bool { val(a.start) <= val(b.start) && val(b.end) <= val(a.end) }

/// the addresses an interval denotes
pub open spec fn in_range(r: IpRange, a: u32) -> bool { val(r.start) <= a && a <= val(r.end) }

impl IpRange {
//@ item sim/elvis/src/ip_generator.rs :: impl IpRange / fn new id=IpRange.new
//@ contract
    ensures r.start == start, r.end == end,
//@ end
//@ item sim/elvis/src/ip_generator.rs :: impl IpRange / fn overlaps id=IpRange.overlaps
//@ contract
    ensures r == (val(self.start) <= val(other.end) && val(self.end) >= val(other.start)),   //# iff_intervals_intersect [C15]
//@ end
//@ item sim/elvis/src/ip_generator.rs :: impl IpRange / fn contains id=IpRange.contains
//@ contract
    ensures r == (val(self.start) <= val(other.start) && val(other.end) <= val(self.end)),   //# iff_interval_inside [C15]
//@ end
//@ item sim/elvis/src/ip_generator.rs :: impl IpRange / fn is_empty id=IpRange.is_empty
//@ contract
    ensures r == (val(self.end) < val(self.start)),   //# iff_no_address [C15]
//@ end
}

// `impl From<Ipv4Net> for IpRange`: a trait impl cannot carry the precondition net.wf() that Ipv4Net::broadcast
// needs (a type invariant of Ipv4Net that Verus cannot see).  The body of `from` is verified as a free function
// with that precondition; calls `IpRange::from(n)` / `n.into()` are routed to it by declared rewrites.
//@ item sim/elvis/src/ip_generator.rs :: impl From<Ipv4Net> for IpRange / fn from id=IpRange.from_Ipv4Net
//@ rewrite `fn from\(net: Ipv4Net\) -> Self \{` => `pub fn vx_range_of_net(net: Ipv4Net) -> IpRange {` ## trait method re-typed as a free function so that it can carry `requires net.wf()`
//@ rewrite `Self \{` => `IpRange {` ## see above
//@ contract
    requires net.wf(),
    ensures val(r.start) == net.lo(), val(r.end) == net.hi(),   //# id_to_broadcast [C15]
//@ end

//@ item sim/elvis/src/ip_generator.rs :: fn add id=add
//@ rewrite `\.map\(Ipv4Address::from\)` => `.map(|vx_n: u32| -> (vx_a: Ipv4Address) ensures val(vx_a) == vx_n { proof { lemma_to_be_roundtrip(vx_n); } Ipv4Address::from(vx_n) })` ## a function item used as a value is outside Verus; written as the equivalent annotated closure
//@ contract
    ensures
        (0 <= val(ip) as int + n as int <= 0xffff_ffff) ==> (r matches Some(a) && val(a) as int == val(ip) as int + n as int),   //# checked_offset [C15]
        !(0 <= val(ip) as int + n as int <= 0xffff_ffff) ==> r is None,   //# none_on_overflow [C15]
//@ end

//@ item sim/elvis/src/ip_generator.rs :: fn next id=next
//@ contract
    requires mask.wf(),
    ensures
        // the first aligned network of that mask whose id is at or after `ip`; None only when it would lie beyond 255.255.255.255
        r matches Some(n) ==> n.wf() && n.mask == mask && n.lo() >= val(ip)
            && (n.lo() == val(ip) || (n.lo() - 1) as u32 == (val(ip) | !mask.0))
            && (val(ip) & !mask.0 == 0 ==> n.lo() == val(ip)),   //# first_aligned_network_at_or_after [C15]
        r is None ==> (val(ip) & !mask.0 != 0 && (val(ip) | !mask.0) == 0xffff_ffffu32),   //# none_only_beyond_address_space [C15]
//@ start
    proof {
        let (i, m) = (val(ip), mask.0);
        lemma_be32_inj_all();
        assert(((i & m) | !m) == (i | !m)) by (bit_vector);
        assert((i & m) == i <==> i & !m == 0) by (bit_vector);
        assert((!m) & ((!m).wrapping_add(1)) == 0 && (i | !m) != 0xffff_ffffu32 ==> (((i | !m) + 1) as u32) & !m == 0 && ((((i | !m) + 1) as u32) & m) == ((i | !m) + 1) as u32) by (bit_vector);
        assert((i | !m) >= i) by (bit_vector);
    }
//@ end


// ---------------------------------------------------------------------------
// IpGenerator: abstraction = the set of addresses covered by some available range
// ---------------------------------------------------------------------------
//@ item sim/elvis/src/ip_generator.rs :: struct IpGenerator strip-attrs
//@ rewrite `(\n\s*)available_ranges: BTreeSet<IpRange>,` => `\1pub available_ranges: BTreeSet<IpRange>,` ## visibility only
//@ end

impl IpGenerator {
    /// address `a` can still be handed out
    pub open spec fn free(&self, a: u32) -> bool {
        exists|r: IpRange| #![trigger self.available_ranges@.contains(r)] self.available_ranges@.contains(r) && in_range(r, a)
    }

//@ item sim/elvis/src/ip_generator.rs :: impl IpGenerator / fn none id=IpGenerator.none
//@ contract
    ensures forall|a: u32| !r.free(a), r.available_ranges@ == Set::<IpRange>::empty(),   //# nothing_available [C15]
//@ end

//@ item sim/elvis/src/ip_generator.rs :: impl IpGenerator / fn return_range id=IpGenerator.return_range
//@ start
        proof { axiom_range_key_obeys_cmp_spec(); }
//@ contract
    ensures
        final(self).available_ranges@ == old(self).available_ranges@.insert(range),
        forall|a: u32| final(self).free(a) == (old(self).free(a) || in_range(range, a)),   //# returned_addresses_become_available [C15]
//@ after 1 `self.available_ranges.insert(range);`
        proof {
            assert forall|a: u32| self.free(a) == (old(self).free(a) || in_range(range, a)) by {
                if old(self).free(a) {
                    let r0 = choose|r: IpRange| old(self).available_ranges@.contains(r) && in_range(r, a);
                    assert(self.available_ranges@.contains(r0));
                }
                if in_range(range, a) { assert(self.available_ranges@.contains(range)); }
                if self.free(a) {
                    let r1 = choose|r: IpRange| self.available_ranges@.contains(r) && in_range(r, a);
                    if r1 != range { assert(old(self).available_ranges@.contains(r1)); }
                }
            }
        }
//@ end

//@ item sim/elvis/src/ip_generator.rs :: impl IpGenerator / fn new id=IpGenerator.new
//@ contract
    ensures forall|a: u32| r.free(a) == in_range(range, a),   //# offers_exactly_the_range [C15]
//@ end

//@ item sim/elvis/src/ip_generator.rs :: impl IpGenerator / fn new_sub id=IpGenerator.new_sub
//@ contract
    requires net.wf(),
    ensures forall|a: u32| r.free(a) == (net.lo() <= a && a <= net.hi()),   //# offers_exactly_the_subnet [C15]
//@ end

//@ item sim/elvis/src/ip_generator.rs :: impl IpGenerator / fn new_sub_no_ends id=IpGenerator.new_sub_no_ends
//@ contract
    requires net.wf(),
    ensures forall|a: u32| r.free(a) == (net.lo() < a && a < net.hi()),   //# offers_exactly_the_host_addresses [C15]
//@ end

//@ item sim/elvis/src/ip_generator.rs :: impl IpGenerator / fn return_subnet id=IpGenerator.return_subnet
//@ rewrite `self\.return_range\(net\.into\(\)\)` => `let vx_r = vx_range_of_net(net); self.return_range(vx_r); proof { assert forall|a: u32| self.free(a) == (old(self).free(a) || (net.lo() <= a && a <= net.hi())) by { assert(in_range(vx_r, a) == (net.lo() <= a && a <= net.hi())); } }` ## `impl From<Ipv4Net> for IpRange` routed to its body verified as a free function (see above); the conversion result is named so that the proof hint can mention it
//@ contract
    requires net.wf(),
    ensures forall|a: u32| final(self).free(a) == (old(self).free(a) || (net.lo() <= a && a <= net.hi())),   //# returned_subnet_becomes_available [C15]
//@ end

//@ item sim/elvis/src/ip_generator.rs :: impl IpGenerator / fn block_range id=IpGenerator.block_range
//@ rewrite `\.retain\(\|av_range\| !range\.contains\(\*av_range\)\);` => `.retain(|av_range: &IpRange| -> (vx_b: bool) ensures vx_b == !contains_spec(range, *av_range) { !range.contains(*av_range) });` ## closure annotated with its postcondition (additive); Verus needs it to reason about retain
//@ rewrite `for av_range in self\.available\(\) \{` => `let vx_all = vx_ranges(&self.available_ranges); let mut vx_j: usize = 0; while vx_j < vx_all.len() { let av_range = vx_all[vx_j]; vx_j += 1;` ## IpGenerator::available() is `self.available_ranges.iter().copied()`: routed through the assumed-contract wrapper vx_ranges and iterated by index
//@ rewrite `for av_range in overlapping \{` => `let mut vx_k: usize = 0; while vx_k < overlapping.len() { let av_range = overlapping[vx_k]; vx_k += 1;` ## iteration over the Vec by value expressed as an index loop (IpRange is Copy)
//@ contract
    requires val(range.start) <= val(range.end),
    ensures
        // exactly the addresses of `range` stop being available
        forall|a: u32| final(self).free(a) == (old(self).free(a) && !in_range(range, a)),   //# blocks_exactly_the_range [C15]
//@ start
        proof { axiom_range_key_obeys_cmp_spec(); }
        let ghost set0 = self.available_ranges@;
//@ before 1 `let mut overlapping = Vec::new();`
        let ghost set1 = self.available_ranges@;
        proof {
            assert forall|r: IpRange| set1.contains(r) implies set0.contains(r) && !contains_spec(range, r) by {}
            assert forall|r: IpRange| set0.contains(r) && !contains_spec(range, r) implies set1.contains(r) by {}
            assert(key_obeys_cmp_spec::<IpRange>());
        }
//@ loop 1
            invariant
                self.available_ranges@ == set1, vx_j <= vx_all@.len(),
                forall|i: int| 0 <= i < vx_all@.len() ==> set1.contains(#[trigger] vx_all@[i]),
                forall|r: IpRange| set1.contains(r) ==> vx_all@.contains(r),
                forall|j: int| 0 <= j < overlapping@.len() ==> set1.contains(#[trigger] overlapping@[j]) && overlaps_spec(overlapping@[j], range),
                forall|i: int| 0 <= i < vx_j && overlaps_spec(#[trigger] vx_all@[i], range) ==> overlapping@.contains(vx_all@[i]),
            decreases vx_all@.len() - vx_j,
//@ before 1 `overlapping.push(av_range);`
                let ghost ov0 = overlapping@;
//@ after 1 `overlapping.push(av_range);`
                proof {
                let ov = overlapping@;
                assert forall|i: int| 0 <= i < vx_j && overlaps_spec(#[trigger] vx_all@[i], range) implies ov.contains(vx_all@[i]) by {
                    if i < vx_j - 1 {
                        let j = choose|j: int| 0 <= j < ov0.len() && ov0[j] == vx_all@[i];
                        assert(ov[j] == vx_all@[i]);
                    } else {
                        assert(ov.len() == ov0.len() + 1 && ov[ov.len() - 1] == vx_all@[i]);
                    }
                }
            }
//@ before 1 `let mut vx_k: usize = 0;`
        let ghost ovs = overlapping@;
        proof {
            assert forall|r: IpRange| set1.contains(r) && overlaps_spec(r, range) implies ovs.contains(r) by {
                let i = choose|i: int| 0 <= i < vx_all@.len() && vx_all@[i] == r;
                assert(overlaps_spec(vx_all@[i], range));
            }
            lemma_be32_inj_all();
        }
//@ loop 2
            invariant
                overlapping@ == ovs, vx_k <= ovs.len(), val(range.start) <= val(range.end),
                key_obeys_cmp_spec::<IpRange>(),
                forall|j: int| 0 <= j < ovs.len() ==> set1.contains(#[trigger] ovs[j]) && overlaps_spec(ovs[j], range),
                forall|r: IpRange| set1.contains(r) && overlaps_spec(r, range) ==> ovs.contains(r),
                // (i) ranges still to be processed are either still present or equal to one already processed
                forall|j: int| vx_k <= j < ovs.len() ==> self.available_ranges@.contains(#[trigger] ovs[j]) || ovs.subrange(0, vx_k as int).contains(ovs[j]),
                // (ii) everything present is an unprocessed original range or a piece that does not touch `range`
                forall|r: IpRange| #![trigger self.available_ranges@.contains(r)] self.available_ranges@.contains(r) ==>
                    (set1.contains(r) && !ovs.subrange(0, vx_k as int).contains(r)) || !overlaps_spec(r, range),
                // address-level invariant
                forall|a: u32| self.free(a) == (exists|r: IpRange| #![trigger set1.contains(r)] set1.contains(r) && in_range(r, a)
                    && (ovs.subrange(0, vx_k as int).contains(r) ==> !in_range(range, a))),
            decreases ovs.len() - vx_k,
//@ before 1 `self.available_ranges.remove(&av_range);`
            let ghost k0 = (vx_k - 1) as int;
            let ghost av = av_range;
            let ghost cur0 = self.available_ranges@;
            let ghost p0 = ovs.subrange(0, k0);
            let ghost p1 = ovs.subrange(0, k0 + 1);
            let ghost g0 = *self;
            let ghost mut gl: Option<IpRange> = None;
            let ghost mut gr: Option<IpRange> = None;
            proof { assert(av == ovs[k0]); assert(p1 =~= p0.push(av)); lemma_be32_inj_all(); }
//@ after 1 `self.available_ranges.insert(left_range);`
                    proof { gl = Some(left_range); }
//@ after 1 `self.available_ranges.insert(right_range);`
                    proof { gr = Some(right_range); }
//@ loop-end 2
            proof {
                let cur1 = self.available_ranges@;
                let zero = Ipv4Address([0u8, 0u8, 0u8, 0u8]);
                let maxa = Ipv4Address([255u8, 255u8, 255u8, 255u8]);
                assert(val(zero) == 0 && val(maxa) == 0xffff_ffffu32) by {
                    assert(((0u8 as u32) << 24 | (0u8 as u32) << 16 | (0u8 as u32) << 8 | (0u8 as u32)) == 0u32) by (bit_vector);
                    assert(((255u8 as u32) << 24 | (255u8 as u32) << 16 | (255u8 as u32) << 8 | (255u8 as u32)) == 0xffff_ffffu32) by (bit_vector);
                }
                // what the two optional pieces are
                assert(gl matches Some(l) ==> l.start == av.start && val(l.end) + 1 == val(range.start) && val(l.start) <= val(l.end));
                assert(gr matches Some(rr) ==> rr.end == av.end && val(rr.start) == val(range.end) + 1 && val(rr.start) <= val(rr.end));
                assert(gl is None ==> (val(range.start) == 0 || val(av.start) >= val(range.start)));
                assert(gr is None ==> (val(range.end) == 0xffff_ffffu32 || val(av.end) <= val(range.end)));
                assert forall|r: IpRange| cur1.contains(r) == ((cur0.contains(r) && r != av) || gl == Some(r) || gr == Some(r)) by {}
                // (i)
                assert forall|j: int| vx_k <= j < ovs.len() implies cur1.contains(#[trigger] ovs[j]) || p1.contains(ovs[j]) by {
                    if p0.contains(ovs[j]) {
                        let m = choose|m: int| 0 <= m < p0.len() && p0[m] == ovs[j];
                        assert(p1[m] == ovs[j]);
                    } else if ovs[j] == av {
                        assert(p1[k0] == av);
                    }
                }
                // (ii)
                assert forall|r: IpRange| #![trigger cur1.contains(r)] cur1.contains(r) implies
                    (set1.contains(r) && !p1.contains(r)) || !overlaps_spec(r, range) by {
                    if cur0.contains(r) && r != av {
                        if set1.contains(r) && !p0.contains(r) {
                            if p1.contains(r) {
                                let m = choose|m: int| 0 <= m < p1.len() && p1[m] == r;
                                if m < k0 { assert(p0[m] == r); }
                            }
                        }
                    }
                }
                // address-level invariant
                assert forall|a: u32| self.free(a) == (exists|r: IpRange| #![trigger set1.contains(r)] set1.contains(r) && in_range(r, a)
                    && (p1.contains(r) ==> !in_range(range, a))) by {
                    let phi0 = exists|r: IpRange| #![trigger set1.contains(r)] set1.contains(r) && in_range(r, a) && (p0.contains(r) ==> !in_range(range, a));
                    assert(g0.free(a) == phi0);
                    assert(set1.contains(av) && overlaps_spec(av, range) && p1.contains(av)) by { assert(p1[k0] == av); }
                    if self.free(a) {
                        let r1 = choose|r: IpRange| cur1.contains(r) && in_range(r, a);
                        if gl == Some(r1) || gr == Some(r1) {
                            assert(in_range(av, a) && !in_range(range, a));
                            assert(set1.contains(av) && in_range(av, a) && (p1.contains(av) ==> !in_range(range, a)));
                        } else {
                            assert(cur0.contains(r1) && r1 != av);
                            assert(g0.free(a));
                            let w = choose|r: IpRange| #![trigger set1.contains(r)] set1.contains(r) && in_range(r, a) && (p0.contains(r) ==> !in_range(range, a));
                            if w != av {
                                if p1.contains(w) {
                                    let m = choose|m: int| 0 <= m < p1.len() && p1[m] == w;
                                    if m < k0 { assert(p0[m] == w); }
                                }
                                assert(set1.contains(w) && in_range(w, a) && (p1.contains(w) ==> !in_range(range, a)));
                            } else if set1.contains(r1) && !p0.contains(r1) {
                                if p1.contains(r1) {
                                    let m = choose|m: int| 0 <= m < p1.len() && p1[m] == r1;
                                    if m < k0 { assert(p0[m] == r1); }
                                }
                                assert(set1.contains(r1) && in_range(r1, a) && (p1.contains(r1) ==> !in_range(range, a)));
                            } else {
                                assert(!overlaps_spec(r1, range));
                                assert(!in_range(range, a));
                                assert(set1.contains(av) && in_range(av, a) && (p1.contains(av) ==> !in_range(range, a)));
                            }
                        }
                    }
                    if exists|r: IpRange| #![trigger set1.contains(r)] set1.contains(r) && in_range(r, a) && (p1.contains(r) ==> !in_range(range, a)) {
                        let w = choose|r: IpRange| #![trigger set1.contains(r)] set1.contains(r) && in_range(r, a) && (p1.contains(r) ==> !in_range(range, a));
                        if w == av {
                            assert(!in_range(range, a));
                            if a < val(range.start) {
                                assert(gl is Some);
                                assert(cur1.contains(gl.unwrap()) && in_range(gl.unwrap(), a));
                            } else {
                                assert(a > val(range.end));
                                assert(gr is Some);
                                assert(cur1.contains(gr.unwrap()) && in_range(gr.unwrap(), a));
                            }
                        } else {
                            assert(p0.contains(w) ==> p1.contains(w)) by {
                                if p0.contains(w) { let m = choose|m: int| 0 <= m < p0.len() && p0[m] == w; assert(p1[m] == w); }
                            }
                            assert(phi0);
                            assert(g0.free(a));
                            let r2 = choose|r: IpRange| cur0.contains(r) && in_range(r, a);
                            if r2 != av {
                                assert(cur1.contains(r2) && in_range(r2, a));
                            } else if !in_range(range, a) {
                                if a < val(range.start) {
                                    assert(cur1.contains(gl.unwrap()) && in_range(gl.unwrap(), a));
                                } else {
                                    assert(cur1.contains(gr.unwrap()) && in_range(gr.unwrap(), a));
                                }
                            } else {
                                // a lies in `range`, so w (which contains a) overlaps it and is still waiting on the list
                                assert(overlaps_spec(w, range));
                                assert(ovs.contains(w));
                                let j = choose|j: int| 0 <= j < ovs.len() && ovs[j] == w;
                                assert(!p1.contains(w));
                                if j <= k0 { assert(p1[j] == w); }
                                assert(cur0.contains(ovs[j]) || p0.contains(ovs[j]));
                                assert(cur1.contains(w) && in_range(w, a));
                            }
                        }
                    }
                }
            }
//@ finish
        proof {
            let pall = ovs.subrange(0, ovs.len() as int);
            assert(pall =~= ovs);
            assert forall|a: u32| self.free(a) == (old(self).free(a) && !in_range(range, a)) by {
                if self.free(a) {
                    let w = choose|r: IpRange| #![trigger set1.contains(r)] set1.contains(r) && in_range(r, a) && (pall.contains(r) ==> !in_range(range, a));
                    assert(set0.contains(w));
                    if in_range(range, a) { assert(overlaps_spec(w, range)); assert(ovs.contains(w)); }
                }
                if old(self).free(a) && !in_range(range, a) {
                    let r0 = choose|r: IpRange| set0.contains(r) && in_range(r, a);
                    assert(!contains_spec(range, r0));
                    assert(set1.contains(r0));
                    assert(set1.contains(r0) && in_range(r0, a) && (pall.contains(r0) ==> !in_range(range, a)));
                }
            }
        }
//@ end

//@ item sim/elvis/src/ip_generator.rs :: impl IpGenerator / fn block_subnet id=IpGenerator.block_subnet
//@ rewrite `self\.block_range\(IpRange::from\(network\)\);` => `let vx_r = vx_range_of_net(network); proof { lemma_contains_interval(network.lo(), network.mask.0, network.lo()); } self.block_range(vx_r); proof { assert forall|a: u32| self.free(a) == (old(self).free(a) && !(network.lo() <= a && a <= network.hi())) by { assert(in_range(vx_r, a) == (network.lo() <= a && a <= network.hi())); } }` ## `impl From<Ipv4Net> for IpRange` routed to its body verified as a free function; the conversion result is named so that the proof hints can mention it
//@ contract
    requires network.wf(),
    ensures forall|a: u32| final(self).free(a) == (old(self).free(a) && !(network.lo() <= a && a <= network.hi())),   //# blocks_exactly_the_subnet [C15]
//@ end

//@ item sim/elvis/src/ip_generator.rs :: impl IpGenerator / fn fetch_net id=IpGenerator.fetch_net
//@ rewrite `let ranges: Vec<IpRange> = self\.available\(\)\.collect\(\);` => `let ranges: Vec<IpRange> = vx_ranges(&self.available_ranges);` ## IpGenerator::available() is `self.available_ranges.iter().copied()`: routed through the assumed-contract wrapper vx_ranges
//@ rewrite `for av_range in ranges \{` => `let mut vx_i: usize = 0; while vx_i < ranges.len() { let av_range = ranges[vx_i]; vx_i += 1;` ## iteration over the Vec by value expressed as an index loop (IpRange is Copy)
//@ rewrite `new_net\.into\(\)` => `vx_range_of_net(new_net)` ## `impl From<Ipv4Net> for IpRange` routed to its body verified as a free function
//@ rewrite `None => continue,` => `None => { proof { assert(no_net_fits(av_range, mask.0)); } continue; }` ## ghost hint only
//@ contract
    requires mask.wf(),
    ensures
        // a network that is handed out is aligned, has the requested mask, and every one of its addresses was available
        r matches Some(n) ==> n.wf() && n.mask == mask
            && (forall|a: u32| n.lo() <= a && a <= n.hi() ==> old(self).free(a)),   //# only_hands_out_available_addresses [C15]
        // ... and is blocked afterwards, so that it cannot be handed out again while it is held
        r matches Some(n) ==> (forall|a: u32| final(self).free(a) == (old(self).free(a) && !(n.lo() <= a && a <= n.hi()))),   //# handed_out_addresses_become_unavailable [C15]
        // exhaustion is reported only when no available range holds an aligned network of that size, and changes nothing
        r is None ==> final(self).available_ranges@ == old(self).available_ranges@
            && (forall|rg: IpRange| #![trigger old(self).available_ranges@.contains(rg)] old(self).available_ranges@.contains(rg) ==> no_net_fits(rg, mask.0)),   //# none_only_when_exhausted [C15]
//@ loop 1
            invariant
                mask.wf(), vx_i <= ranges@.len(),
                self.available_ranges@ == old(self).available_ranges@,
                forall|i: int| 0 <= i < ranges@.len() ==> self.available_ranges@.contains(#[trigger] ranges@[i]),
                forall|rg: IpRange| #![trigger self.available_ranges@.contains(rg)] self.available_ranges@.contains(rg) ==> ranges@.contains(rg),
                forall|i: int| 0 <= i < vx_i ==> no_net_fits(#[trigger] ranges@[i], mask.0),
            decreases ranges@.len() - vx_i,
//@ before 1 `let new_net = match next(av_range.start, mask)`
            proof {
                let (s, m) = (val(av_range.start), mask.0);
                // the first aligned block at or after s is the only candidate: every aligned block starting at or after s ends no earlier
                assert forall|lo: u32| lo & !m == 0 && s <= lo implies
                    (s & !m == 0 ==> (lo | !m) >= (s | !m)) && (s & !m != 0 ==> (s | !m) != 0xffff_ffffu32 && lo > (s | !m) && (lo | !m) >= ((((s | !m) + 1) as u32) | !m)) by {
                    assert(((!m) & ((!m).wrapping_add(1)) == 0 && lo & !m == 0 && s <= lo) ==>
                        ((s & !m == 0 ==> (lo | !m) >= (s | !m)) && (s & !m != 0 ==> (s | !m) != 0xffff_ffffu32 && lo > (s | !m) && (lo | !m) >= ((((s | !m).wrapping_add(1))) | !m)))) by (bit_vector);
                }
            }
//@ loop-end 1
            proof {
                lemma_contains_interval(new_net.lo(), mask.0, new_net.lo());
                let (s, m, e) = (val(av_range.start), mask.0, val(av_range.end));
                assert(new_net.hi() > e);
                assert forall|lo: u32| #![trigger lo & !m] (lo & !m == 0 && s <= lo && (lo | !m) <= e) implies false by {
                    if s & !m == 0 { assert(new_net.lo() == s); assert((lo | !m) >= (s | !m)); }
                    else { assert(new_net.lo() == ((s | !m) + 1) as u32); }
                }
                assert(no_net_fits(av_range, mask.0));
            }
//@ before 2 `        None`
        proof {
            assert forall|rg: IpRange| #![trigger old(self).available_ranges@.contains(rg)] old(self).available_ranges@.contains(rg) implies no_net_fits(rg, mask.0) by {
                assert(self.available_ranges@.contains(rg));
                assert(ranges@.contains(rg));
                let i = choose|i: int| 0 <= i < ranges@.len() && ranges@[i] == rg;
                assert(no_net_fits(ranges@[i], mask.0));
            }
        }
//@ before 1 `self.block_subnet(new_net);`
                proof {
                    lemma_contains_interval(new_net.lo(), mask.0, new_net.lo());
                    assert forall|a: u32| new_net.lo() <= a && a <= new_net.hi() implies old(self).free(a) by {
                        assert(old(self).available_ranges@.contains(av_range) && in_range(av_range, a));
                    }
                }
//@ end

}
/// a /32 network is a single address; a range in which no /32 fits is empty
pub proof fn vx_fetch_ip_hint(g0: IpGenerator, g1: IpGenerator, n: Option<Ipv4Net>)
    requires
        n matches Some(nn) ==> nn.wf() && nn.mask.0 == 0xffff_ffffu32,
        n is None ==> (forall|rg: IpRange| #![trigger g0.available_ranges@.contains(rg)] g0.available_ranges@.contains(rg) ==> no_net_fits(rg, 0xffff_ffffu32)),
    ensures
        n matches Some(nn) ==> nn.hi() == nn.lo(),
        n is None ==> (forall|a: u32| !g0.free(a)),
{
    if let Some(nn) = n {
        let l = nn.lo();
        assert((l | !0xffff_ffffu32) == l) by (bit_vector);
    } else {
        assert forall|a: u32| !g0.free(a) by {
            if g0.free(a) {
                let rg = choose|r: IpRange| g0.available_ranges@.contains(r) && in_range(r, a);
                assert(no_net_fits(rg, 0xffff_ffffu32));
                assert(a & !0xffff_ffffu32 == 0 && (a | !0xffff_ffffu32) == a) by (bit_vector);
            }
        }
    }
}
impl IpGenerator {
//@ item sim/elvis/src/ip_generator.rs :: impl IpGenerator / fn fetch_ip id=IpGenerator.fetch_ip
//@ rewrite `self\.fetch_net\(Ipv4Mask::from_bitcount\(32\)\)\s*\.map\(\|net\| net\.id\(\)\)` => `let vx_n = self.fetch_net(Ipv4Mask::from_bitcount(32)); proof { vx_fetch_ip_hint(g0, *self, vx_n); } vx_n.map(|net: Ipv4Net| -> (vx_a: Ipv4Address) ensures vx_a == net.network_id { net.id() })` ## the intermediate result is named so that a ghost hint can be placed; the closure is annotated with its postcondition (additive)
//@ contract
    ensures
        // an address that is handed out was available and is not available any more: never two holders
        r matches Some(ip) ==> old(self).free(val(ip)) && (forall|a: u32| final(self).free(a) == (old(self).free(a) && a != val(ip))),   //# hands_out_an_available_address_once [C15]
        // exhaustion is reported only when nothing is available
        r is None ==> (forall|a: u32| !old(self).free(a)) && final(self).available_ranges@ == old(self).available_ranges@,   //# none_only_when_nothing_is_available [C15]
//@ start
        proof {
            assert(top_ones(32) == 0xffff_ffffu32);
            lemma_top_ones_ok(32);
        }
        let ghost g0 = *self;
//@ end

//@ item sim/elvis/src/ip_generator.rs :: impl IpGenerator / fn all id=IpGenerator.all
//@ rewrite `\[0, 0, 0, 0\]\.into\(\)` => `Ipv4Address::from([0u8, 0u8, 0u8, 0u8])` ## `.into()` resolved to the From impl it denotes
//@ rewrite `\[255, 255, 255, 255\]\.into\(\)` => `Ipv4Address::from([255u8, 255u8, 255u8, 255u8])` ## `.into()` resolved to the From impl it denotes
//@ contract
    ensures forall|a: u32| r.free(a),   //# every_address_available [C15]
//@ start
        proof {
            assert(((0u8 as u32) << 24 | (0u8 as u32) << 16 | (0u8 as u32) << 8 | (0u8 as u32)) == 0u32) by (bit_vector);
            assert(((255u8 as u32) << 24 | (255u8 as u32) << 16 | (255u8 as u32) << 8 | (255u8 as u32)) == 0xffff_ffffu32) by (bit_vector);
        }
//@ end

//@ item sim/elvis/src/ip_generator.rs :: impl IpGenerator / fn return_ip id=IpGenerator.return_ip
//@ contract
    ensures forall|a: u32| final(self).free(a) == (old(self).free(a) || a == val(returned)),   //# returned_address_becomes_available [C15]
//@ end
}

} // verus!

// Witness scenario (ported mechanically from seeded/C15-1: `#[test] fn` -> `pub fn`, crate paths adjusted); runs only under
// --cfg vx_replay, as a concrete call sequence on the real code when a paired Verus obligation fails.
#![allow(dead_code, unused_imports, unused_must_use)]
//! Demonstration for property C15: the address generator must never hand out
//! a subnet that overlaps addresses which are still held / blocked.

use crate::ip_generator::{IpGenerator, IpRange};
use elvis_core::protocols::arp::subnetting::{Ipv4Mask, Ipv4Net};

/// Pool 10.0.0.0/24, with the top quarter (10.0.0.192/26) held by someone else.
/// Only one /25 (10.0.0.0/25) fits in what is left; the second request must
/// report exhaustion, it must not return 10.0.0.128/25 (which covers .192-.255).
pub fn fetch_net_never_overlaps_held_addresses() {
    let mut gen = IpGenerator::new(Ipv4Net::new_short([10, 0, 0, 0], 24).into());
    let held = Ipv4Net::new_short([10, 0, 0, 192], 26);
    gen.block_subnet(held);

    let mask = Ipv4Mask::from_bitcount(25);
    assert_eq!(
        gen.fetch_net(mask),
        Some(Ipv4Net::new_short([10, 0, 0, 0], 25))
    );

    // free space is now 10.0.0.128 - 10.0.0.191: too small for a /25
    let second = gen.fetch_net(mask);
    if let Some(net) = second {
        assert!(
            !IpRange::from(net).overlaps(IpRange::from(held)),
            "generator handed out {net:?}, which overlaps the held subnet {held:?}"
        );
    }
    assert_eq!(second, None);

    // the remaining 64 addresses are still individually available
    let rest: Vec<_> = gen.into_ip_iter().collect();
    assert_eq!(rest.len(), 64);
    assert!(rest.iter().all(|ip| !held.contains(*ip)));
}

/// Same thing through a fetch/return history: a /26 is fetched and held, then a
/// larger subnet is requested while the free range ends in the middle of it.
pub fn fetch_net_after_returns_stays_inside_pool() {
    let pool = IpRange::new([10, 0, 0, 0].into(), [10, 0, 0, 159].into());
    let mut gen = IpGenerator::new(pool);

    let m27 = Ipv4Mask::from_bitcount(27);
    let a = gen.fetch_net(m27).unwrap(); // 10.0.0.0/27
    let b = gen.fetch_net(m27).unwrap(); // 10.0.0.32/27
    assert_ne!(a, b);
    gen.return_subnet(a);

    // every /26 handed out must lie inside the pool and not touch `b`
    let m26 = Ipv4Mask::from_bitcount(26);
    let mut got = Vec::new();
    while let Some(net) = gen.fetch_net(m26) {
        assert!(pool.contains(net.into()), "{net:?} leaves the pool {pool:?}");
        assert!(
            !IpRange::from(net).overlaps(b.into()),
            "{net:?} overlaps held {b:?}"
        );
        got.push(net);
        assert!(got.len() <= 4, "generator keeps producing subnets");
    }
    assert_eq!(got, vec![Ipv4Net::new_short([10, 0, 0, 64], 26)]);
}

// Witness scenario (ported mechanically from seeded/C15-3: `#[test] fn` -> `pub fn`, crate paths adjusted); runs only under
// --cfg vx_replay, as a concrete call sequence on the real code when a paired Verus obligation fails.
#![allow(dead_code, unused_imports, unused_must_use)]
use crate::ip_generator::{IpGenerator, IpRange};
use elvis_core::protocols::{
    arp::subnetting::{Ipv4Mask, Ipv4Net},
    ipv4::Ipv4Address,
};

fn in_net(ip: Ipv4Address, net: Ipv4Net) -> bool {
    net.id() <= ip && ip <= net.broadcast()
}

/// A pool that touches 255.255.255.255: a subnet taken from the top of the
/// pool must stay held, i.e. no later single-address fetch may land inside it.
pub fn held_subnet_at_top_of_address_space_is_not_handed_out_again() {
    let mut gen = IpGenerator::new(IpRange::new(
        [255, 255, 255, 1].into(),
        [255, 255, 255, 255].into(),
    ));

    let held = gen
        .fetch_net(Ipv4Mask::from_bitcount(25))
        .expect("a /25 fits in the pool");
    assert_eq!(held, Ipv4Net::new_short([255, 255, 255, 128], 25));

    let mut leased = Vec::new();
    while let Some(ip) = gen.fetch_ip() {
        assert!(
            !in_net(ip, held),
            "{ip:?} was handed out although {held:?} is still held"
        );
        assert!(!leased.contains(&ip), "{ip:?} handed out twice");
        leased.push(ip);
        assert!(leased.len() <= 255, "generator never reports exhaustion");
    }
    // exactly 255.255.255.1 ..= 255.255.255.127 are left
    assert_eq!(leased.len(), 127);
}

/// Same boundary, reached through an explicit block instead of a fetch.
pub fn blocked_subnet_at_top_of_address_space_is_not_handed_out() {
    let mut gen = IpGenerator::new_sub(Ipv4Net::new_short([255, 255, 255, 0], 24));
    let blocked = Ipv4Net::new_short([255, 255, 255, 252], 30);
    gen.block_subnet(blocked);

    let mut count = 0;
    while let Some(ip) = gen.fetch_ip() {
        assert!(
            !in_net(ip, blocked),
            "{ip:?} was handed out although {blocked:?} is blocked"
        );
        count += 1;
        assert!(count <= 256, "generator never reports exhaustion");
    }
    assert_eq!(count, 252);
}

// Witness scenario (ported mechanically from seeded/C15-2: `#[test] fn` -> `pub fn`, crate paths adjusted); runs only under
// --cfg vx_replay, as a concrete call sequence on the real code when a paired Verus obligation fails.
#![allow(dead_code, unused_imports, unused_must_use)]
//! Blocking a network that begins exactly at the last address of an available
//! range must take that address out of circulation.

use crate::ip_generator::{IpGenerator, IpRange};
use elvis_core::protocols::{arp::subnetting::Ipv4Net, ipv4::Ipv4Address};
use std::collections::HashSet;

/// A DHCP style pool 10.0.0.1 ..= 10.0.0.6 where the last address is reserved
/// (blocked) for a statically configured machine. No fetch may ever return it,
/// and all fetched addresses must be pairwise distinct.
pub fn blocked_last_address_of_range_is_never_handed_out() {
    let reserved = Ipv4Address::new([10, 0, 0, 6]);
    let mut gen = IpGenerator::new(IpRange::new(Ipv4Address::new([10, 0, 0, 1]), reserved));
    gen.block_subnet(Ipv4Net::new_1(reserved));

    let mut seen = HashSet::new();
    while let Some(ip) = gen.fetch_ip() {
        assert_ne!(ip, reserved, "blocked address was handed out");
        assert!(seen.insert(ip), "address {ip:?} handed out twice");
        assert!(seen.len() <= 6, "generator does not report exhaustion");
    }
    assert_eq!(seen.len(), 5);
}

/// Same thing with a multi-address block that straddles the end of the pool:
/// pool 10.0.0.0/24 minus its ends (10.0.0.1 ..= 10.0.0.254), block 10.0.0.254/31.
pub fn blocked_net_straddling_end_of_range_is_never_handed_out() {
    let mut gen = IpGenerator::new_sub_no_ends(Ipv4Net::new_short([10, 0, 0, 0], 24));
    gen.block_subnet(Ipv4Net::new_short([10, 0, 0, 254], 31));

    let all: Vec<Ipv4Address> = gen.into_ip_iter().take(300).collect();
    assert!(
        !all.contains(&Ipv4Address::new([10, 0, 0, 254])),
        "blocked address 10.0.0.254 was handed out"
    );
    assert_eq!(all.len(), 253);
}

// Harnesses for elvis/src/ip_generator.rs — injected (add-only) as `mod vx_kani_ipgen`.
//   kind=witness : concrete call sequences demonstrating a failed Verus obligation on the real code
use super::*;
#[path = "/verif/vx/kani_support.rs"]
mod sup;
use sup::*;

//# id=witness.new_sub_no_ends_is_empty props=C15 kind=witness pair=ipgen.IpGenerator.new_sub_no_ends.offers_exactly_the_host_addresses
// a generator built for a subnet minus its ends must offer exactly the host addresses of that subnet
#[cfg(vx_replay)]
#[test]
fn h_w_new_sub_no_ends() {
    let net = Ipv4Net::new_short([10, 0, 0, 0], 24);
    let mut g = IpGenerator::new_sub_no_ends(net);
    assert_eq!(g.fetch_ip(), Some(Ipv4Address::new([10, 0, 0, 1])), "first host address of 10.0.0.0/24");
    let mut n = 1;
    while g.fetch_ip().is_some() {
        n += 1;
    }
    assert_eq!(n, 254, "a /24 has 254 host addresses");
}

// Harnesses for elvis/src/ip_generator.rs — injected (add-only) as `mod vx_kani_ipgen`.
//   kind=witness : concrete call sequences demonstrating a failed Verus obligation on the real code
use super::*;
#[path = "/verif/vx/kani_support.rs"]
mod sup;
use sup::*;

//# id=witness.new_sub_no_ends_is_empty props=C15 kind=witness pair=ipgen.IpGenerator.new_sub_no_ends.offers_exactly_the_host_addresses
// a generator built for a subnet minus its ends must offer exactly the host addresses of that subnet
#[cfg(vx_replay)]
#[test]
fn h_w_new_sub_no_ends() {
    let net = Ipv4Net::new_short([10, 0, 0, 0], 24);
    let mut g = IpGenerator::new_sub_no_ends(net);
    assert_eq!(g.fetch_ip(), Some(Ipv4Address::new([10, 0, 0, 1])), "first host address of 10.0.0.0/24");
    let mut n = 1;
    while g.fetch_ip().is_some() {
        n += 1;
    }
    assert_eq!(n, 254, "a /24 has 254 host addresses");
}

// ---------------------------------------------------------------------------
// Witness scenarios ported from the seed corpus (public-API call sequences; see units/ipgen/w/*.rs)
// ---------------------------------------------------------------------------
#[cfg(vx_replay)]
#[path = "/verif/units/ipgen/w/fetch_net_overlap.rs"]
mod w_fetch_net_overlap;
#[cfg(vx_replay)]
#[path = "/verif/units/ipgen/w/block_tail.rs"]
mod w_block_tail;
#[cfg(vx_replay)]
#[path = "/verif/units/ipgen/w/top_edge.rs"]
mod w_top_edge;

//# id=witness.fetch_net_stays_inside_the_pool props=C15 kind=witness pair=ipgen.IpGenerator.fetch_net.only_hands_out_available_addresses,ipgen.IpGenerator.fetch_net.handed_out_addresses_become_unavailable,ipgen.IpGenerator.fetch_net.safety
// a fetched network never overlaps addresses that are held, and stays inside the pool after returns
#[cfg(vx_replay)]
#[test]
fn h_w_fetch_net_overlap() {
    w_fetch_net_overlap::fetch_net_never_overlaps_held_addresses();
    w_fetch_net_overlap::fetch_net_after_returns_stays_inside_pool();
}

//# id=witness.blocked_addresses_are_never_handed_out props=C15 kind=witness pair=ipgen.IpRange.overlaps.iff_intervals_intersect,ipgen.IpGenerator.block_range.blocks_exactly_the_range,ipgen.IpGenerator.block_range.safety,ipgen.IpGenerator.block_subnet.blocks_exactly_the_subnet
// blocking a range that touches the end of an available range / the top of the address space really removes it
#[cfg(vx_replay)]
#[test]
fn h_w_block_edges() {
    w_block_tail::blocked_last_address_of_range_is_never_handed_out();
    w_block_tail::blocked_net_straddling_end_of_range_is_never_handed_out();
    w_top_edge::held_subnet_at_top_of_address_space_is_not_handed_out_again();
    w_top_edge::blocked_subnet_at_top_of_address_space_is_not_handed_out();
}

// ---------------------------------------------------------------------------
// BOUNDED stand-in for the whole IpGenerator API (kind=witness: never run by Kani, never counted as proved).  Run on the
// real code only when the Verus unit `ipgen` cannot ingest a changed function (the unit is then UNDECIDED): 3000
// deterministic pseudo-random histories of 40 fetch_ip / fetch_net / return_ip / return_subnet / block_subnet operations
// on a /26 pool (returns of addresses that are not held included), compared after every step with the set of available
// addresses: nothing is handed out that is not available (so nothing is held twice), fetch_ip fails only on an empty
// pool.
// ---------------------------------------------------------------------------
#[cfg(vx_replay)]
struct VxLcg(u64);
#[cfg(vx_replay)]
impl VxLcg {
    fn next(&mut self, n: usize) -> usize {
        self.0 = self.0.wrapping_mul(6364136223846793005).wrapping_add(1442695040888963407);
        ((self.0 >> 33) as usize) % n.max(1)
    }
}

//# id=witness.generator_matches_the_set_of_available_addresses props=C15 kind=witness pair=ipgen.IpGenerator.fetch_ip.safety,ipgen.IpGenerator.fetch_net.only_hands_out_available_addresses,ipgen.IpGenerator.fetch_net.handed_out_addresses_become_unavailable,ipgen.IpGenerator.fetch_net.safety,ipgen.IpGenerator.block_range.safety,ipgen.IpGenerator.return_ip.safety,ipgen.IpGenerator.return_subnet.safety,ipgen.IpGenerator.new_sub.safety
#[cfg(vx_replay)]
#[test]
fn h_w_ipgen_model() {
    use std::collections::BTreeSet;
    const BASE: u32 = 0x0a00_0040; // 10.0.0.64/26
    for seed in 0..3000u64 {
        let mut g = VxLcg(seed.wrapping_mul(0x9e3779b97f4a7c15) ^ 0x7f4a7c15_9e3779b9);
        let mut gen = IpGenerator::new_sub(Ipv4Net::new_short(Ipv4Address::from(BASE), 26));
        let mut free: BTreeSet<u32> = (BASE..BASE + 64).collect();
        let net_of = |g: &mut VxLcg| -> (Ipv4Net, u32, u32) {
            let len = 27 + g.next(6) as u32; // /27 ../32
            let size = 1u32 << (32 - len);
            let a = BASE + (g.next(64) as u32 & !(size - 1));
            (Ipv4Net::new_short(Ipv4Address::from(a), len), a, size)
        };
        for step in 0..40usize {
            match g.next(7) {
                0 | 1 | 2 => match gen.fetch_ip() {
                    Some(ip) => assert!(free.remove(&ip.to_u32()), "fetch_ip handed out {ip}, which is not available (held or outside the pool) (seed {seed}, step {step})"),
                    None => assert!(free.is_empty(), "fetch_ip reports exhaustion although {} addresses are available (seed {seed}, step {step})", free.len()),
                },
                3 => {
                    let len = 28 + g.next(5) as u32;
                    let size = 1u32 << (32 - len);
                    match gen.fetch_net(Ipv4Mask::from_bitcount(len)) {
                        Some(net) => {
                            let id = net.id().to_u32();
                            assert_eq!(id % size, 0, "fetch_net returned an unaligned network (seed {seed}, step {step})");
                            for a in id..id + size { assert!(free.remove(&a), "fetch_net handed out {a:#x}, which is not available (seed {seed}, step {step})"); }
                        }
                        // (exhaustion is judged per available range by the generator - separately returned neighbours are
                        //  not merged - so a None for a block larger than one address is not compared with the set model)
                        None => { if size == 1 { assert!(free.is_empty(), "fetch_net(/32) reports exhaustion although addresses are available (seed {seed}, step {step})"); } }
                    }
                }
                4 => { let a = BASE + g.next(64) as u32; gen.return_ip(Ipv4Address::from(a)); free.insert(a); }
                5 => { let (net, a, size) = net_of(&mut g); gen.return_subnet(net); for x in a..a + size { free.insert(x); } }
                _ => { let (net, a, size) = net_of(&mut g); gen.block_subnet(net); for x in a..a + size { free.remove(&x); } }
            }
        }
        // drain: exactly the available addresses come out, each once
        let mut n = 0;
        while let Some(ip) = gen.fetch_ip() {
            assert!(free.remove(&ip.to_u32()), "fetch_ip handed out {ip} twice or outside the pool while draining (seed {seed})");
            n += 1;
            assert!(n <= 64);
        }
        assert!(free.is_empty(), "{} available addresses were never handed out (seed {seed})", free.len());
    }
}

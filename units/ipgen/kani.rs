// Harnesses for elvis/src/ip_generator.rs — injected (add-only) as `mod vx_kani_ipgen`.
//   kind=witness : concrete call sequences demonstrating a failed Verus obligation on the real code
use super::*;
#[path = "/verif/vx/kani_support.rs"]
mod sup;
use sup::*;

//# id=witness.new_sub_no_ends_is_empty props=C15 kind=witness pair=ipgen.IpGenerator.new_sub_no_ends.offers_exactly_the_host_addresses
// a generator built for a subnet minus its ends must offer exactly the host addresses of that subnet
#[cfg(vx_replay)]
#[test]
fn h_w_new_sub_no_ends() {
    let net = Ipv4Net::new_short([10, 0, 0, 0], 24);
    let mut g = IpGenerator::new_sub_no_ends(net);
    assert_eq!(g.fetch_ip(), Some(Ipv4Address::new([10, 0, 0, 1])), "first host address of 10.0.0.0/24");
    let mut n = 1;
    while g.fetch_ip().is_some() {
        n += 1;
    }
    assert_eq!(n, 254, "a /24 has 254 host addresses");
}

// ---------------------------------------------------------------------------
// Witness scenarios ported from the seed corpus (public-API call sequences; see units/ipgen/w/*.rs)
// ---------------------------------------------------------------------------
#[cfg(vx_replay)]
#[path = "/verif/units/ipgen/w/fetch_net_overlap.rs"]
mod w_fetch_net_overlap;
#[cfg(vx_replay)]
#[path = "/verif/units/ipgen/w/block_tail.rs"]
mod w_block_tail;
#[cfg(vx_replay)]
#[path = "/verif/units/ipgen/w/top_edge.rs"]
mod w_top_edge;

//# id=witness.fetch_net_stays_inside_the_pool props=C15 kind=witness pair=ipgen.IpGenerator.fetch_net.only_hands_out_available_addresses,ipgen.IpGenerator.fetch_net.handed_out_addresses_become_unavailable,ipgen.IpGenerator.fetch_net.safety
// a fetched network never overlaps addresses that are held, and stays inside the pool after returns
#[cfg(vx_replay)]
#[test]
fn h_w_fetch_net_overlap() {
    w_fetch_net_overlap::fetch_net_never_overlaps_held_addresses();
    w_fetch_net_overlap::fetch_net_after_returns_stays_inside_pool();
}

//# id=witness.blocked_addresses_are_never_handed_out props=C15 kind=witness pair=ipgen.IpRange.overlaps.iff_intervals_intersect,ipgen.IpGenerator.block_range.blocks_exactly_the_range,ipgen.IpGenerator.block_range.safety,ipgen.IpGenerator.block_subnet.blocks_exactly_the_subnet
// blocking a range that touches the end of an available range / the top of the address space really removes it
#[cfg(vx_replay)]
#[test]
fn h_w_block_edges() {
    w_block_tail::blocked_last_address_of_range_is_never_handed_out();
    w_block_tail::blocked_net_straddling_end_of_range_is_never_handed_out();
    w_top_edge::held_subnet_at_top_of_address_space_is_not_handed_out_again();
    w_top_edge::blocked_subnet_at_top_of_address_space_is_not_handed_out();
}
